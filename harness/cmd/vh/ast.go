package main

// ast: replay of GenAst behaviours (operation sequences with the observations AstTree requires)
// on real ast.Node values created in every way the API offers (property C15).

import (
	"encoding/json"
	"flag"
	"fmt"
	"math/rand"
	"os"
	"runtime"
	"strconv"
	"strings"
	"time"

	"verifharness/tlaval"
	"verifharness/workpool"
)

type astCase struct {
	ID    int     `json:"id"`
	Doc   string  `json:"doc"`   // canonical text of the initial document
	Final string  `json:"final"` // canonical text of the tree after the sequence
	FLen  int     `json:"flen"`  // number of children of the final root (-1: not a container)
	Ops   []astOp `json:"ops"`
	Seed  int64   `json:"seed"`
	tree  *tree
}

type astBad struct {
	ID   int               `json:"id"`
	Mode string            `json:"mode"`
	Kind string            `json:"kind"` // obs_mismatch | final_mismatch | panic
	Step int               `json:"step"`
	Op   string            `json:"op"`
	Want string            `json:"want"`
	Got  string            `json:"got"`
	Doc  string            `json:"doc"`
	Text string            `json:"text"`
	Seq  []string          `json:"seq"`
	Sig  map[string]string `json:"sig"`
}

type astRes struct {
	ID    int      `json:"id"`
	Evals int      `json:"evals"`
	Bad   []astBad `json:"bad,omitempty"`
}

func opString(o *astOp) string {
	var p []string
	for _, s := range o.Path {
		if s.IsKey {
			p = append(p, strconv.Quote(s.Key))
		} else {
			p = append(p, strconv.Itoa(s.I))
		}
	}
	return fmt.Sprintf("[%s].%s(i=%d,j=%d,key=%q,v=%s)->%s", strings.Join(p, ","), o.O, o.I, o.J, o.Key, o.V, o.Obs)
}

// spaced re-renders a compact JSON text with blanks around tokens (plan 0: none).
func spaced(text string, plan int, r *rand.Rand) string {
	if plan == 0 {
		return text
	}
	var sb strings.Builder
	in := false
	for i := 0; i < len(text); i++ {
		c := text[i]
		if c == '"' && (i == 0 || text[i-1] != '\\') {
			in = !in
		}
		if !in && strings.IndexByte("[]{},:", c) >= 0 {
			if r.Intn(2) == 0 {
				sb.WriteString(strings.Repeat(" ", r.Intn(3)))
			}
			sb.WriteByte(c)
			if r.Intn(2) == 0 {
				sb.WriteString([]string{" ", "\n", "\t ", "  "}[r.Intn(4)])
			}
			continue
		}
		sb.WriteByte(c)
	}
	return " " + sb.String() + "\n"
}

// astSig derives the known-finding signature of a disagreement from the abstract behaviour.
func astSig(c *astCase, step int, mode string) map[string]string {
	sig := map[string]string{"op": "final"}
	if step >= 0 && step < len(c.Ops) {
		sig["op"] = c.Ops[step].O
		if c.Ops[step].I < 0 {
			sig["negidx"] = "yes"
		}
	}
	// was any earlier operation a soft delete / mutation?
	mut := "no"
	for i := 0; i < step && i < len(c.Ops); i++ {
		switch c.Ops[i].O {
		case "Unset", "UnsetByIndex", "Pop", "Move", "Set", "SetByIndex", "Add", "SortKeys":
			mut = "yes"
		}
	}
	sig["after_mutation"] = mut
	sig["lazy_start"] = "yes"
	if mode == "constructed" || mode == "loaded" {
		sig["lazy_start"] = "no"
	}
	sig["dupkeys"] = "no"
	if c.tree != nil && hasDupKeys(c.tree) {
		sig["dupkeys"] = "yes"
	}
	return sig
}

func hasDupKeys(t *tree) bool {
	if t.K == "obj" {
		seen := map[string]bool{}
		for _, k := range t.Keys {
			if seen[k] {
				return true
			}
			seen[k] = true
		}
	}
	for _, e := range t.Elems {
		if hasDupKeys(e) {
			return true
		}
	}
	return false
}

func runAstCase(c *astCase, mode string, plan int, rawArg bool, res *astRes) {
	r := rand.New(rand.NewSource(c.Seed*7919 + int64(c.ID)*31 + int64(plan)))
	text := spaced(c.Doc, plan, r)
	root, err := newRoot(mode, c.tree, text)
	seq := make([]string, 0, len(c.Ops))
	bad := func(kind string, step int, op, want, got string) {
		sig := astSig(c, step, mode)
		if strings.HasSuffix(op, "Len") || strings.Contains(op, "].Len(") {
			sig["op"] = "Len"
			w, e1 := strconv.Atoi(want)
			g, e2 := strconv.Atoi(got)
			if e1 == nil && e2 == nil && g < w {
				sig["len_rel"] = "less"
			}
			if e2 == nil && (lastLen.reprBefore == "raw" || lastLen.reprBefore == "lazy") && g == lastLen.liveAfter {
				sig["len_dev"] = "parsed_only" // Dev_LenCountsParsedOnly: the node was not fully loaded and Len = children parsed so far
			}
		}
		if len(res.Bad) < 8 {
			res.Bad = append(res.Bad, astBad{ID: c.ID, Mode: mode, Kind: kind, Step: step, Op: op, Want: want, Got: got, Doc: c.Doc, Text: text,
				Seq: append([]string{}, seq...), Sig: sig})
		}
	}
	if err != nil {
		bad("create_failed", -1, mode, "node", err.Error())
		return
	}
	for i := range c.Ops {
		op := &c.Ops[i]
		seq = append(seq, opString(op))
		got := applyAstOp(root, op, rawArg)
		res.Evals++
		if strings.HasPrefix(got, "PANIC") {
			bad("panic", i, opString(op), op.Obs, got)
			return
		}
		if !obsMatch(op.Obs, got) {
			bad("obs_mismatch", i, opString(op), op.Obs, got)
			return
		}
	}
	// final observation sweep: the whole tree, its length, every child
	fin := &astOp{O: "Marshal"}
	got := applyAstOp(root, fin, false)
	res.Evals++
	if got != c.Final {
		bad("final_mismatch", len(c.Ops), "MarshalJSON", c.Final, got)
		return
	}
	if c.FLen >= 0 {
		if g := applyAstOp(root, &astOp{O: "Len"}, false); g != strconv.Itoa(c.FLen) {
			bad("final_mismatch", len(c.Ops), "Len", strconv.Itoa(c.FLen), g)
		}
	}
}

func astHandle(in []byte) []byte {
	var c astCase
	if err := json.Unmarshal(in, &c); err != nil {
		return []byte(`{"error":"bad case"}`)
	}
	var v interface{}
	json.Unmarshal([]byte(c.Doc), &v)
	c.tree = treeFromText(c.Doc)
	res := astRes{ID: c.ID}
	for mi, mode := range astCreateModes {
		plans := []int{0}
		if mi < 2 {
			plans = []int{0, 1}
		}
		for _, plan := range plans {
			runAstCase(&c, mode, plan, (c.ID+mi)%2 == 0, &res)
		}
	}
	out, _ := json.Marshal(res)
	return out
}

// treeFromText parses canonical text keeping order and duplicate keys.
func treeFromText(s string) *tree {
	dec := json.NewDecoder(strings.NewReader(s))
	dec.UseNumber()
	var parse func() *tree
	parse = func() *tree {
		tok, err := dec.Token()
		if err != nil {
			return &tree{K: "null"}
		}
		switch x := tok.(type) {
		case json.Delim:
			if x == '[' {
				t := &tree{K: "arr"}
				for dec.More() {
					t.Elems = append(t.Elems, parse())
				}
				dec.Token()
				return t
			}
			t := &tree{K: "obj"}
			for dec.More() {
				k, _ := dec.Token()
				t.Keys = append(t.Keys, k.(string))
				t.Elems = append(t.Elems, parse())
			}
			dec.Token()
			return t
		case json.Number:
			n, err := strconv.Atoi(string(x))
			if err != nil {
				return &tree{K: "lit", S: string(x)}
			}
			return &tree{K: "num", N: n}
		case bool:
			return &tree{K: "lit", S: strconv.FormatBool(x)}
		case string:
			return &tree{K: "str", S: x}
		}
		return &tree{K: "null"}
	}
	return parse()
}

type astSummary struct {
	Cases      int            `json:"cases"`
	Evals      int            `json:"evals"`
	BadBySig   map[string]int `json:"bad_by_sig"`
	Bad        []astBad       `json:"bad"`
	Crashes    []string       `json:"crashes"`
	Samples    []interface{}  `json:"samples"`
	NonTrivial int            `json:"distinct_nontrivial"`
	WallS      float64        `json:"wall_s"`
}

func astBadKey(b *astBad) string {
	return b.Kind + "|" + b.Sig["op"] + "|lenrel=" + b.Sig["len_rel"] + "|lendev=" + b.Sig["len_dev"] + "|neg=" + b.Sig["negidx"] + "|mut=" + b.Sig["after_mutation"] + "|lazy=" + b.Sig["lazy_start"] + "|dup=" + b.Sig["dupkeys"] + "|want=" + classOf(b.Want) + "|got=" + classOf(b.Got)
}

func classOf(s string) string {
	switch {
	case s == "NX" || s == "ERR" || s == "T" || s == "F" || s == "OK" || s == "ANYERR":
		return s
	case strings.HasPrefix(s, "PANIC"):
		return "PANIC"
	case strings.HasPrefix(s, "TARGET-"):
		return "TARGET"
	case len(s) > 0 && s[0] >= '0' && s[0] <= '9' && len(s) <= 2:
		return "int"
	}
	return "text"
}

func opsFromTLA(hist interface{}) []astOp {
	var ops []astOp
	for _, h := range tlaval.Seq(hist) {
		m := tlaval.Rec(h)
		o := tlaval.Rec(m["op"])
		op := astOp{O: tlaval.Str(o["o"]), I: tlaval.Int(o["i"]), J: tlaval.Int(o["j"]), Key: tlaval.Str(o["key"]), Obs: tlaval.Str(m["obs"])}
		op.V = treeFromTLA(o["v"]).String()
		for _, st := range tlaval.Seq(m["path"]) {
			s := tlaval.Rec(st)
			op.Path = append(op.Path, astStep{IsKey: tlaval.Str(s["t"]) == "k", I: tlaval.Int(s["i"]), Key: tlaval.Str(s["key"])})
		}
		ops = append(ops, op)
	}
	return ops
}

func astMain(args []string) int {
	fs := flag.NewFlagSet("ast", flag.ExitOnError)
	dump := fs.String("dump", "", "TLC dump of GenAst")
	out := fs.String("out", "", "summary")
	seed := fs.Int64("seed", 1, "seed")
	workers := fs.Int("workers", runtime.NumCPU(), "workers")
	fs.Parse(args)
	t0 := time.Now()
	f, err := os.Open(*dump)
	if err != nil {
		fmt.Fprintln(os.Stderr, err)
		return 2
	}
	defer f.Close()
	sum := astSummary{BadBySig: map[string]int{}}
	cases := make(chan []byte, 1024)
	var perr error
	go func() {
		defer close(cases)
		perr = tlaval.ReadStates(f, func(n int, hdr string, st tlaval.State) error {
			doc := treeFromTLA(st["doc"])
			fin := treeFromTLA(st["root"])
			c := astCase{ID: n, Doc: doc.String(), Final: fin.String(), FLen: -1, Seed: *seed, Ops: opsFromTLA(st["hist"])}
			if fin.K == "arr" || fin.K == "obj" {
				c.FLen = len(fin.Elems)
			}
			b, _ := json.Marshal(c)
			cases <- b
			return nil
		})
	}()
	err = workpool.Run(workpool.Options{
		Kind: "ast", Workers: *workers, Batch: 128,
		OnResult: func(cl, rl []byte) {
			var r astRes
			if json.Unmarshal(rl, &r) != nil {
				return
			}
			sum.Cases++
			sum.Evals += r.Evals
			var c astCase
			json.Unmarshal(cl, &c)
			if len(c.Ops) > 0 {
				sum.NonTrivial++
			}
			for i := range r.Bad {
				key := astBadKey(&r.Bad[i])
				sum.BadBySig[key]++
				if sum.BadBySig[key] <= 3 && len(sum.Bad) < 300 {
					sum.Bad = append(sum.Bad, r.Bad[i])
				}
			}
			if len(sum.Samples) < 6 && sum.Cases%3001 == 2 {
				var seq []string
				for i := range c.Ops {
					seq = append(seq, opString(&c.Ops[i]))
				}
				sum.Samples = append(sum.Samples, map[string]interface{}{"doc": c.Doc, "ops": seq, "final": c.Final})
			}
		},
		OnCrash: func(c workpool.Crash) {
			st := c.Stderr
			if len(st) > 1500 {
				st = st[len(st)-1500:]
			}
			sum.Crashes = append(sum.Crashes, c.Reason+": "+string(c.Case)+"\n"+st)
		},
	}, cases)
	if err != nil || perr != nil {
		fmt.Fprintln(os.Stderr, "ast:", err, perr)
		return 2
	}
	sum.WallS = time.Since(t0).Seconds()
	b, _ := json.MarshalIndent(sum, "", " ")
	if *out != "" {
		os.WriteFile(*out, b, 0o644)
	} else {
		os.Stdout.Write(b)
	}
	return 0
}

func init() {
	subcmds["ast"] = astMain
	workpool.Register("ast", astHandle)
}
