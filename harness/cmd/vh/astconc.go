package main

// astconc: replay of AstConc schedules (interleavings of the read operations on a node declared
// concurrently readable, starting raw) on real ast.Node values, with goroutines gated at the
// library's instrumentation points (property C16).  Built with -race for the race verdict.

import (
	"encoding/json"
	"flag"
	"fmt"
	"os"
	"strings"
	"time"
	"unsafe"

	"github.com/bytedance/sonic"
	"github.com/bytedance/sonic/ast"

	"verifharness/gate"
	"verifharness/tlaval"
)

// documents: containers and scalars (a concurrently readable node may be a raw scalar too)
var concDocs = []string{
	`{"a":"x","b":[1,2,3],"c":{"d":1}}`,
	` { "a" : "hello", "b" : [ 1, 2, 3 ], "c" : { "d" : 42 } } `,
	`{"a":"x","b":[1,2,3],"c":{"d":1},"k1":1,"k2":2,"k3":3,"k4":4,"k5":5,"k6":6,"k7":7,"k8":8,"k9":9,"k10":10,"k11":11,"k12":12,"k13":13,"k14":14,"k15":15,"k16":16}`,
	`"a fairly long string value, long enough to tear: \u00e9 \n end"`,
	`1234567.25`,
	`true`,
}

// canonJSON compares texts as JSON values: Raw and MarshalJSON may return the source text or a
// re-encoding of the parsed value (escape spelling and blanks may differ), both describe the same value.
func canonJSON(b []byte) string {
	var v interface{}
	d := json.NewDecoder(strings.NewReader(string(b)))
	d.UseNumber()
	if err := d.Decode(&v); err != nil {
		return "BADJSON:" + string(b)
	}
	out, _ := json.Marshal(v)
	return string(out)
}

func docKind(text string) string {
	t := strings.TrimSpace(text)
	if strings.HasPrefix(t, "{") {
		return "obj"
	}
	return "scalar"
}

// read operations of the three model classes; each returns a printable result
type concOp struct {
	class string // get | raw | marshal
	kind  string // obj | scalar | any : which documents it applies to
	name  string
	f     func(n *ast.Node) string
}

func show(v interface{}, err error) string {
	if err != nil {
		return "ERR:" + errDetail(err)
	}
	b, _ := json.Marshal(v)
	return string(b)
}

var concOps = []concOp{
	{"get", "obj", "Get(a).String", func(n *ast.Node) string { return show(n.Get("a").String()) }},
	{"get", "obj", "Get(b).Index(1).Int64", func(n *ast.Node) string { return show(n.Get("b").Index(1).Int64()) }},
	{"get", "obj", "GetByPath(c,d).Float64", func(n *ast.Node) string { return show(n.GetByPath("c", "d").Float64()) }},
	{"get", "obj", "Index(0).Raw", func(n *ast.Node) string { return show(n.Index(0).Raw()) }},
	{"get", "any", "Interface", func(n *ast.Node) string { return show(n.Interface()) }},
	{"get", "obj", "Map", func(n *ast.Node) string { return show(n.Map()) }},
	{"get", "obj", "Get(b).Array", func(n *ast.Node) string { return show(n.Get("b").Array()) }},
	{"get", "obj", "Get(zz).Exists", func(n *ast.Node) string { return fmt.Sprint(n.Get("zz").Exists()) }},
	{"get", "obj", "Get(c).MarshalJSON", func(n *ast.Node) string {
		b, err := n.Get("c").MarshalJSON()
		return show(compact(b), err)
	}},
	{"get", "scalar", "String", func(n *ast.Node) string { return show(n.String()) }},
	{"get", "scalar", "Float64", func(n *ast.Node) string { return show(n.Float64()) }},
	{"get", "scalar", "Number", func(n *ast.Node) string { return show(n.Number()) }},
	{"get", "scalar", "Bool", func(n *ast.Node) string { return show(n.Bool()) }},
	{"get", "scalar", "InterfaceUseNumber", func(n *ast.Node) string { return show(n.InterfaceUseNumber()) }},
	{"raw", "any", "Raw", func(n *ast.Node) string {
		s, err := n.Raw()
		if err != nil {
			return "ERR:" + errDetail(err)
		}
		return canonJSON([]byte(s))
	}},
	{"marshal", "any", "MarshalJSON", func(n *ast.Node) string {
		b, err := n.MarshalJSON()
		if err != nil {
			return "ERR:" + errDetail(err)
		}
		return canonJSON(b)
	}},
}

func opsOfClass(c string, kind string) []concOp {
	var out []concOp
	for _, o := range concOps {
		if o.class == c && (o.kind == "any" || o.kind == kind) {
			out = append(out, o)
		}
	}
	return out
}

// model steps without an instrumentation point of their own (they happen inside a gated segment)
var skipSteps = map[string]bool{"loadt": true, "recheck": true, "rawread": true, "readp": true}

// model steps that end with the release of a lock: the gate is reached *before* the release
var releaseSteps = map[string]bool{"unlock": true, "runlock": true, "readl": true, "encode": true}

func newConcNode(mode int, text string) (*ast.Node, error) {
	switch mode % 3 {
	case 0:
		n := ast.NewRawConcurrentRead(text)
		return &n, nil
	case 1:
		n, err := sonic.GetWithOptions([]byte(text), ast.SearchOptions{ValidateJSON: true, ConcurrentRead: true})
		return &n, err
	default:
		n, err := sonic.GetWithOptions([]byte(`{"w":`+text+`}`), ast.SearchOptions{ConcurrentRead: true, CopyReturn: true}, "w")
		return &n, err
	}
}

type concBad struct {
	ID    int      `json:"id"`
	Kind  string   `json:"kind"` // result_mismatch | hang | panic
	Ops   []string `json:"ops"`
	Sched []string `json:"sched"`
	Doc   string   `json:"doc"`
	Mode  int      `json:"mode"`
	Want  []string `json:"want"`
	Got   []string `json:"got"`
	Sig   string   `json:"sig"`
}

func astconcMain(args []string) int {
	fs := flag.NewFlagSet("astconc", flag.ExitOnError)
	dump := fs.String("dump", "", "TLC dump of AstConc")
	out := fs.String("out", "", "summary")
	seed := fs.Int64("seed", 1, "seed")
	limit := fs.Int("limit", 0, "max schedules (0 = all)")
	stress := fs.Int("stress", 0, "additional ungated stress rounds")
	stride := fs.Int("stride", 1, "replay every stride-th complete schedule (offset by the seed)")
	fs.Parse(args)
	t0 := time.Now()
	f, err := os.Open(*dump)
	if err != nil {
		fmt.Fprintln(os.Stderr, err)
		return 2
	}
	defer f.Close()
	type sum struct {
		Schedules  int            `json:"schedules"`
		Evals      int            `json:"evals"`
		Blocked    int            `json:"blocked_steps"`
		Bad        []concBad      `json:"bad"`
		BadBySig   map[string]int `json:"bad_by_sig"`
		Samples    []interface{}  `json:"samples"`
		StressRuns int            `json:"stress_runs"`
		WallS      float64        `json:"wall_s"`
	}
	S := sum{BadBySig: map[string]int{}}
	addBad := func(b concBad) {
		S.BadBySig[b.Sig]++
		if S.BadBySig[b.Sig] <= 3 && len(S.Bad) < 60 {
			S.Bad = append(S.Bad, b)
		}
	}
	perr := tlaval.ReadStates(f, func(n int, hdr string, st tlaval.State) error {
		pcs := tlaval.Seq(st["pc"])
		for _, p := range pcs {
			if tlaval.Str(p) != "done" {
				return nil
			}
		}
		if *limit > 0 && S.Schedules >= *limit {
			return nil
		}
		if *stride > 1 && (n+int(*seed))%*stride != 0 {
			return nil
		}
		S.Schedules++
		classes := tlaval.Seq(st["op"])
		var sched [][2]string
		for _, e := range tlaval.Seq(st["sched"]) {
			p := tlaval.Seq(e)
			sched = append(sched, [2]string{fmt.Sprint(tlaval.Int(p[0])), tlaval.Str(p[1])})
		}
		pick := int(*seed)*7 + n
		docText := concDocs[pick%len(concDocs)]
		mode := pick / 3
		// choose concrete operations
		ops := make([]concOp, len(classes))
		for i, c := range classes {
			cands := opsOfClass(tlaval.Str(c), docKind(docText))
			ops[i] = cands[(pick+i*5)%len(cands)]
		}
		// sequential oracle: each operation alone on a fresh node
		want := make([]string, len(ops))
		for i, o := range ops {
			nd, err := newConcNode(mode, docText)
			if err != nil {
				return nil
			}
			want[i] = o.f(nd)
		}
		root, err := newConcNode(mode, docText)
		if err != nil {
			return nil
		}
		rootAddr := uintptr(unsafe.Pointer(root))
		eng := gate.New()
		eng.Filter = func(point string, a uintptr) bool { return a == rootAddr && strings.HasPrefix(point, "ast.") }
		got := make([]string, len(ops))
		for i := range ops {
			i := i
			eng.Add(i+1, func() {
				defer func() {
					if r := recover(); r != nil {
						got[i] = fmt.Sprint("PANIC: ", r)
					}
				}()
				got[i] = ops[i].f(root)
			})
		}
		var schedStr []string
		for _, s := range sched {
			schedStr = append(schedStr, s[0]+":"+s[1])
			if skipSteps[s[1]] {
				continue
			}
			var id int
			fmt.Sscan(s[0], &id)
			r := eng.Advance(id)
			if releaseSteps[s[1]] && r != "" && r != "blocked" {
				r = eng.Advance(id) // pass the release itself
			}
			if r == "blocked" {
				S.Blocked++
			}
		}
		finished := eng.Drain(5 * time.Second)
		eng.Close()
		S.Evals += len(ops)
		var opNames []string
		for _, o := range ops {
			opNames = append(opNames, o.name)
		}
		if len(S.Samples) < 5 && S.Schedules%97 == 1 {
			S.Samples = append(S.Samples, map[string]interface{}{"ops": opNames, "schedule": schedStr, "doc": docText})
		}
		if !finished {
			addBad(concBad{ID: n, Kind: "hang", Ops: opNames, Sched: schedStr, Doc: docText, Mode: mode, Want: want, Got: got, Sig: "hang"})
			return nil
		}
		for i := range ops {
			if got[i] != want[i] {
				kind := "result_mismatch"
				if strings.HasPrefix(got[i], "PANIC") {
					kind = "panic"
				}
				addBad(concBad{ID: n, Kind: kind, Ops: opNames, Sched: schedStr, Doc: docText, Mode: mode, Want: want, Got: got,
					Sig: kind + "|" + ops[i].class})
				break
			}
		}
		return nil
	})
	if perr != nil {
		fmt.Fprintln(os.Stderr, perr)
		return 2
	}
	// ungated stress: many goroutines, every operation, fresh raw nodes
	for round := 0; round < *stress; round++ {
		docText := concDocs[round%len(concDocs)]
		root, err := newConcNode(round, docText)
		if err != nil {
			continue
		}
		var roundOps []concOp
		for _, o := range concOps {
			if o.kind == "any" || o.kind == docKind(docText) {
				roundOps = append(roundOps, o)
			}
		}
		concOps := roundOps
		want := make([]string, len(concOps))
		for i, o := range concOps {
			nd, _ := newConcNode(round, docText)
			want[i] = o.f(nd)
		}
		done := make(chan [2]string, 64)
		G := 8
		for g := 0; g < G; g++ {
			g := g
			go func() {
				for k := 0; k < len(concOps); k++ {
					i := (g*3 + k) % len(concOps)
					r := func() (s string) {
						defer func() {
							if rr := recover(); rr != nil {
								s = fmt.Sprint("PANIC: ", rr)
							}
						}()
						return concOps[i].f(root)
					}()
					if r != want[i] {
						done <- [2]string{concOps[i].name, r + " != " + want[i]}
					}
				}
				done <- [2]string{"", ""}
			}()
		}
		hung := false
		for fin := 0; fin < G && !hung; {
			select {
			case d := <-done:
				if d[0] == "" {
					fin++
					continue
				}
				addBad(concBad{Kind: "result_mismatch", Ops: []string{d[0]}, Doc: docText, Mode: round, Got: []string{d[1]}, Sig: "stress_mismatch"})
			case <-time.After(60 * time.Second):
				// every operation here is a read of a small document: a minute without any goroutine finishing or reporting
				// is a read that never returns (a lock that is never released)
				hung = true
				addBad(concBad{Kind: "hang", Ops: []string{fmt.Sprintf("%d of %d stress goroutines never finished", G-fin, G)}, Doc: docText, Mode: round, Sig: "stress_hang"})
			}
		}
		S.StressRuns++
		if hung {
			break // the stuck goroutines keep their node; further rounds would only add load
		}
	}
	S.WallS = time.Since(t0).Seconds()
	b, _ := json.MarshalIndent(S, "", " ")
	if *out != "" {
		os.WriteFile(*out, b, 0o644)
	} else {
		os.Stdout.Write(b)
	}
	return 0
}

func init() { subcmds["astconc"] = astconcMain }
