package main

// astops: the binding between AstTree operations and the real ast.Node API — shared by the replay
// of GenAst behaviours (ast.go) and by the trace recorder (astrec.go).

import (
	"bytes"
	"encoding/json"
	"errors"
	"fmt"
	"sort"
	"strconv"
	"strings"

	"github.com/bytedance/sonic"
	"github.com/bytedance/sonic/ast"

	"verifharness/tlaval"
)

// tree is the Go image of an AstTree value.
type tree struct {
	K     string // num | str | null | lit (true, false, number text with fraction / exponent: S is the JSON text) | arr | obj
	N     int
	S     string
	Elems []*tree  // arr
	Keys  []string // obj (parallel to Elems)
}

func treeFromTLA(v interface{}) *tree {
	m := tlaval.Rec(v)
	t := &tree{K: tlaval.Str(m["k"]), N: tlaval.Int(m["n"]), S: tlaval.Str(m["s"])}
	for _, e := range tlaval.Seq(m["e"]) {
		if t.K == "obj" {
			p := tlaval.Rec(e)
			t.Keys = append(t.Keys, tlaval.Str(p["key"]))
			t.Elems = append(t.Elems, treeFromTLA(p["val"]))
		} else {
			t.Elems = append(t.Elems, treeFromTLA(e))
		}
	}
	return t
}

func (t *tree) render(sb *strings.Builder) {
	switch t.K {
	case "num":
		sb.WriteString(strconv.Itoa(t.N))
	case "str":
		sb.WriteString(strconv.Quote(t.S))
	case "null":
		sb.WriteString("null")
	case "lit":
		sb.WriteString(t.S)
	case "arr":
		sb.WriteByte('[')
		for i, e := range t.Elems {
			if i > 0 {
				sb.WriteByte(',')
			}
			e.render(sb)
		}
		sb.WriteByte(']')
	case "obj":
		sb.WriteByte('{')
		for i, e := range t.Elems {
			if i > 0 {
				sb.WriteByte(',')
			}
			sb.WriteString(strconv.Quote(t.Keys[i]))
			sb.WriteByte(':')
			e.render(sb)
		}
		sb.WriteByte('}')
	}
}

func (t *tree) String() string {
	var sb strings.Builder
	t.render(&sb)
	return sb.String()
}

// toNode builds a fully constructed (not raw, not lazy) node.
func (t *tree) toNode() ast.Node {
	switch t.K {
	case "num":
		return ast.NewNumber(strconv.Itoa(t.N))
	case "str":
		return ast.NewString(t.S)
	case "null":
		return ast.NewNull()
	case "lit":
		if t.S == "true" || t.S == "false" {
			return ast.NewBool(t.S == "true")
		}
		return ast.NewNumber(t.S)
	case "arr":
		ns := make([]ast.Node, len(t.Elems))
		for i, e := range t.Elems {
			ns[i] = e.toNode()
		}
		return ast.NewArray(ns)
	default:
		ps := make([]ast.Pair, len(t.Elems))
		for i, e := range t.Elems {
			ps[i] = ast.NewPair(t.Keys[i], e.toNode())
		}
		return ast.NewObject(ps)
	}
}

type astStep struct {
	IsKey bool   `json:"is_key"`
	I     int    `json:"i"`
	Key   string `json:"key"`
}

type astOp struct {
	Path []astStep `json:"path"`
	O    string    `json:"o"`
	I    int       `json:"i"`
	J    int       `json:"j"`
	Key  string    `json:"key"`
	V    string    `json:"v"`   // JSON text of the value argument
	Obs  string    `json:"obs"` // required observation
}

var astCreateModes = []string{"NewRaw", "NewRawConcurrentRead", "GetFromString", "UnmarshalJSON", "constructed", "loaded", "Unmarshal"}

// newRoot creates the root node for a document in one of the creation modes.
func newRoot(mode string, doc *tree, text string) (*ast.Node, error) {
	var n ast.Node
	switch mode {
	case "NewRaw":
		n = ast.NewRaw(text)
	case "NewRawConcurrentRead":
		n = ast.NewRawConcurrentRead(text)
	case "GetFromString":
		var err error
		n, err = sonic.GetFromString(text)
		if err != nil {
			return nil, err
		}
	case "UnmarshalJSON":
		// the json.Unmarshaler adapter is handed the exact bytes of a value (no surrounding blanks), as
		// a decoder does
		if err := n.UnmarshalJSON([]byte(strings.TrimSpace(text))); err != nil {
			return nil, err
		}
	case "Unmarshal":
		if err := sonic.UnmarshalString(text, &n); err != nil {
			return nil, err
		}
	case "constructed":
		n = doc.toNode()
	case "loaded":
		n = ast.NewRaw(text)
		if err := n.LoadAll(); err != nil {
			return nil, err
		}
	}
	return &n, nil
}

func errObs(err error) string {
	if errors.Is(err, ast.ErrNotExist) || strings.Contains(err.Error(), "value not exists") {
		return "NX"
	}
	return "ERR"
}

func compact(b []byte) string {
	var out bytes.Buffer
	if err := json.Compact(&out, b); err != nil {
		return "BADJSON:" + string(b)
	}
	return out.String()
}

func projNode(c *ast.Node) string {
	if c == nil {
		return "NX"
	}
	if err := c.Check(); err != nil {
		return errObs(err)
	}
	if !c.Exists() {
		return "NX"
	}
	b, err := c.MarshalJSON()
	if err != nil {
		return errObs(err)
	}
	return compact(b)
}

func valueNode(text string, raw bool) ast.Node {
	if raw {
		return ast.NewRaw(text)
	}
	// constructed from the text keeping order and duplicate keys
	return treeFromText(text).toNode()
}

func resolve(root *ast.Node, path []astStep) *ast.Node {
	t := root
	for _, st := range path {
		if st.IsKey {
			t = t.Get(st.Key)
		} else {
			t = t.Index(st.I)
		}
		if t == nil || !t.Valid() {
			return t
		}
	}
	return t
}

// applyAstOp performs one operation on the real node and projects the result into AstTree's
// observation vocabulary.
func applyAstOp(root *ast.Node, op *astOp, rawArg bool) (obs string) {
	defer func() {
		if r := recover(); r != nil {
			obs = fmt.Sprint("PANIC: ", r)
		}
	}()
	t := resolve(root, op.Path)
	if t == nil || t.Check() != nil {
		return "TARGET-" + projNode(t)
	}
	switch op.O {
	case "Len":
		if t.TypeSafe() == ast.V_STRING {
			return "STRLEN"
		}
		lastLen.reprBefore, _, _, _, _, _ = t.VerifRepr()
		n, err := t.Len()
		_, _, lastLen.liveAfter, _, _, _ = t.VerifRepr()
		if err != nil {
			return errObs(err)
		}
		return strconv.Itoa(n)
	case "Index":
		return projNode(t.Index(op.I))
	case "Get":
		return projNode(t.Get(op.Key))
	case "IndexOrGet":
		return projNode(t.IndexOrGet(op.I, op.Key))
	case "Set":
		ex, err := t.Set(op.Key, valueNode(op.V, rawArg))
		if err != nil {
			return errObs(err)
		}
		return boolObs(ex)
	case "SetByIndex":
		ex, err := t.SetByIndex(op.I, valueNode(op.V, rawArg))
		if err != nil {
			return errObs(err)
		}
		return boolObs(ex)
	case "Add":
		if err := t.Add(valueNode(op.V, rawArg)); err != nil {
			return errObs(err)
		}
		return "OK"
	case "Unset":
		ex, err := t.Unset(op.Key)
		if err != nil {
			return errObs(err)
		}
		return boolObs(ex)
	case "UnsetByIndex":
		ex, err := t.UnsetByIndex(op.I)
		if err != nil {
			return errObs(err)
		}
		return boolObs(ex)
	case "Pop":
		if err := t.Pop(); err != nil {
			return errObs(err)
		}
		return "OK"
	case "Move":
		if err := t.Move(op.I, op.J); err != nil {
			return errObs(err)
		}
		return "OK"
	case "SortKeys":
		if err := t.SortKeys(op.I == 1); err != nil {
			return errObs(err)
		}
		return "OK"
	case "Load":
		var err error
		if op.I == 1 {
			err = t.LoadAll()
		} else {
			err = t.Load()
		}
		if err != nil {
			return errObs(err)
		}
		return "OK"
	case "Marshal":
		b, err := t.MarshalJSON()
		if err != nil {
			return errObs(err)
		}
		return compact(b)
	case "Iterate":
		it := t.TypeSafe()
		if it != ast.V_ARRAY && it != ast.V_OBJECT {
			return "ERR"
		}
		var parts []string
		var ierr error
		err := t.ForEach(func(path ast.Sequence, n *ast.Node) bool {
			b, e := n.MarshalJSON()
			if e != nil {
				ierr = e
				return false
			}
			if path.Key != nil {
				parts = append(parts, strconv.Quote(*path.Key)+":"+compact(b))
			} else {
				parts = append(parts, compact(b))
			}
			return true
		})
		if err != nil {
			return errObs(err)
		}
		if ierr != nil {
			return errObs(ierr)
		}
		return strings.Join(parts, ",")
	case "Values", "Properties":
		// the iterator objects, driven the way their documentation shows: HasNext, then Next
		var parts []string
		if op.O == "Values" {
			it, err := t.Values()
			if err != nil {
				return errObs(err)
			}
			var v ast.Node
			for it.HasNext() {
				if !it.Next(&v) {
					return "HASNEXT-WITHOUT-NEXT after " + strings.Join(parts, ",")
				}
				parts = append(parts, projNode(&v))
			}
			if it.Next(&v) {
				return "NEXT-AFTER-END " + projNode(&v)
			}
		} else {
			it, err := t.Properties()
			if err != nil {
				return errObs(err)
			}
			var p ast.Pair
			for it.HasNext() {
				if !it.Next(&p) {
					return "HASNEXT-WITHOUT-NEXT after " + strings.Join(parts, ",")
				}
				parts = append(parts, strconv.Quote(p.Key)+":"+projNode(&p.Value))
			}
			if it.Next(&p) {
				return "NEXT-AFTER-END " + p.Key
			}
		}
		return strings.Join(parts, ",")
	case "IndexPair":
		p := t.IndexPair(op.I)
		if p == nil {
			return "NX"
		}
		return strconv.Quote(p.Key) + ":" + projNode(&p.Value)
	case "IndexOrGetWithIdx":
		c, i := t.IndexOrGetWithIdx(op.I, op.Key)
		o := projNode(c)
		if t.TypeSafe() != ast.V_OBJECT {
			return o // the position is meaningless when there is no object
		}
		return o + "@" + strconv.Itoa(i)
	case "UseNode":
		var v interface{}
		var err error
		switch op.I {
		case 0:
			v, err = t.InterfaceUseNode()
		case 1:
			v, err = t.MapUseNode()
		default:
			v, err = t.ArrayUseNode()
		}
		if err != nil {
			return errObs(err)
		}
		switch x := v.(type) {
		case ast.Node:
			return projNode(&x)
		case []ast.Node:
			parts := make([]string, len(x))
			for i := range x {
				parts[i] = projNode(&x[i])
			}
			return "[" + strings.Join(parts, ",") + "]"
		case map[string]ast.Node:
			keys := make([]string, 0, len(x))
			for k := range x {
				keys = append(keys, k)
			}
			sort.Strings(keys)
			parts := make([]string, len(keys))
			for i, k := range keys {
				c := x[k]
				parts[i] = strconv.Quote(k) + ":" + projNode(&c)
			}
			return "{" + strings.Join(parts, ",") + "}"
		}
		return fmt.Sprintf("UNEXPECTED-TYPE %T", v)
	case "GetByPath":
		var path []interface{}
		switch op.J {
		case 0:
			path = []interface{}{op.I}
		case 1:
			path = []interface{}{op.Key}
		case 2:
			path = []interface{}{op.Key, op.I}
		default:
			path = []interface{}{op.I, op.Key}
		}
		return projNode(t.GetByPath(path...))
	case "Cap":
		c, err := t.Cap()
		if err != nil {
			return errObs(err)
		}
		if c < 0 {
			return fmt.Sprintf("CAP %d", c)
		}
		return "OK"
	case "Raw":
		s, err := t.Raw()
		if err != nil {
			return errObs(err)
		}
		return compact([]byte(s))
	case "Interface":
		v, err := t.Interface()
		if err != nil {
			return errObs(err)
		}
		b, err := json.Marshal(v)
		if err != nil {
			return "ERR"
		}
		return string(b)
	}
	return "UNKNOWN-OP"
}

// lastLen records, for the most recent Len call, the hidden representation of the target before the
// call and the number of children parsed after it (hook H4, ast.Node.VerifRepr): the known-finding
// predicate "Len counts parsed children only" needs exactly these two facts.
var lastLen struct {
	reprBefore string
	liveAfter  int
}

func boolObs(b bool) string {
	if b {
		return "T"
	}
	return "F"
}

func obsMatch(want, got string) bool {
	if want == got {
		return true
	}
	if want == "ANYERR" && (got == "NX" || got == "ERR") {
		return true
	}
	return false
}
