package main

// astrec: seeded random driver for property C15 (code -> spec direction): long operation sequences
// on real ast.Node values built from documents large enough to cross the chunk (16) and index (16
// pairs) thresholds, recorded as traces for spec/trace/TraceAst.tla.

import (
	"bufio"
	"encoding/json"
	"flag"
	"fmt"
	"math/rand"
	"os"
)

func (t *tree) toJSON() interface{} {
	m := map[string]interface{}{"k": t.K, "n": t.N, "s": t.S}
	e := []interface{}{}
	for i, c := range t.Elems {
		if t.K == "obj" {
			e = append(e, map[string]interface{}{"key": t.Keys[i], "val": c.toJSON()})
		} else {
			e = append(e, c.toJSON())
		}
	}
	m["e"] = e
	return m
}

var recKeys = func() []string {
	ks := []string{"a", "b", "c", "d", "z"}
	for i := 0; i < 50; i++ {
		ks = append(ks, fmt.Sprintf("k%02d", i))
	}
	return ks
}()

var widths = []int{0, 1, 2, 3, 3, 4, 5, 15, 16, 17, 18, 31, 33, 40}

func randTree(r *rand.Rand, depth int, big bool) *tree {
	k := r.Intn(10)
	if depth >= 3 {
		k = r.Intn(4)
	}
	switch {
	case k < 3:
		return &tree{K: "num", N: r.Intn(100)}
	case k == 3:
		if r.Intn(2) == 0 {
			return &tree{K: "null"}
		}
		return &tree{K: "str", S: []string{"x", "", "hello", "yy"}[r.Intn(4)]}
	}
	w := widths[r.Intn(7)]
	if big {
		w = widths[r.Intn(len(widths))]
	}
	if k < 7 {
		t := &tree{K: "arr"}
		for i := 0; i < w; i++ {
			t.Elems = append(t.Elems, randTree(r, depth+1, false))
		}
		return t
	}
	t := &tree{K: "obj"}
	dup := r.Intn(4) == 0
	perm := r.Perm(len(recKeys))
	for i := 0; i < w; i++ {
		key := recKeys[perm[i%len(perm)]]
		if dup && i > 0 && r.Intn(4) == 0 {
			key = t.Keys[r.Intn(len(t.Keys))]
		}
		t.Keys = append(t.Keys, key)
		t.Elems = append(t.Elems, randTree(r, depth+1, false))
	}
	return t
}

func randContainer(r *rand.Rand) *tree {
	for {
		t := randTree(r, 0, true)
		if t.K == "arr" || t.K == "obj" {
			return t
		}
	}
}

var recOpNames = []string{"Len", "Index", "Index", "Get", "Get", "IndexOrGet", "Set", "Set", "SetByIndex", "Add", "Unset", "Unset",
	"UnsetByIndex", "UnsetByIndex", "Pop", "Move", "SortKeys", "Load", "Marshal", "Iterate", "Interface", "Index", "Get",
	"Values", "Properties", "IndexPair", "IndexOrGetWithIdx", "UseNode", "GetByPath", "Cap", "Raw"}

// recent keys / paths of the current trace: operations on what was just touched are where stale
// bookkeeping (index entries, soft-deleted slots, cursors) shows
var recentKeys []string

func randOp(r *rand.Rand, doc *tree, approxLen int) astOp {
	op := astOp{O: recOpNames[r.Intn(len(recOpNames))]}
	// a path: root mostly, sometimes one or two steps
	cur := doc
	for d := r.Intn(5) - 2; d > 0 && cur != nil && len(cur.Elems) > 0; d-- {
		i := r.Intn(len(cur.Elems))
		if cur.K == "obj" && r.Intn(2) == 0 {
			op.Path = append(op.Path, astStep{IsKey: true, Key: cur.Keys[i]})
		} else {
			op.Path = append(op.Path, astStep{I: i})
		}
		cur = cur.Elems[i]
	}
	n := approxLen
	if cur != nil {
		n = len(cur.Elems)
	}
	idx := func() int {
		switch r.Intn(8) {
		case 0:
			return -1
		case 1:
			return n
		case 2:
			return n + 1 + r.Intn(3)
		case 3:
			return 0
		case 4:
			if n > 0 {
				return n - 1
			}
		}
		if n > 0 {
			return r.Intn(n)
		}
		return 0
	}
	key := func() string {
		if len(recentKeys) > 0 && r.Intn(2) == 0 {
			return recentKeys[len(recentKeys)-1-r.Intn(min(3, len(recentKeys)))]
		}
		if cur != nil && cur.K == "obj" && len(cur.Keys) > 0 && r.Intn(3) == 0 {
			return cur.Keys[len(cur.Keys)-1-r.Intn(min(3, len(cur.Keys)))] // keys near the tail
		}
		if cur != nil && cur.K == "obj" && len(cur.Keys) > 0 && r.Intn(4) > 0 {
			return cur.Keys[r.Intn(len(cur.Keys))]
		}
		return recKeys[r.Intn(len(recKeys))]
	}
	op.I, op.J, op.Key = idx(), idx(), key()
	recentKeys = append(recentKeys, op.Key)
	if op.O == "SortKeys" || op.O == "Load" {
		op.I = r.Intn(2)
	}
	if op.O == "UseNode" {
		op.I = r.Intn(3)
	}
	if op.O == "GetByPath" {
		op.J = r.Intn(4)
	}
	v := randTree(r, 2, false)
	op.V = v.String()
	return op
}

func astrecMain(args []string) int {
	fs := flag.NewFlagSet("astrec", flag.ExitOnError)
	out := fs.String("out", "trace.ndjson", "trace file")
	seed := fs.Int64("seed", 1, "seed")
	n := fs.Int("n", 200, "number of traces")
	maxOps := fs.Int("ops", 40, "operations per trace")
	fs.Parse(args)
	f, err := os.Create(*out)
	if err != nil {
		fmt.Fprintln(os.Stderr, err)
		return 2
	}
	defer f.Close()
	w := bufio.NewWriterSize(f, 1<<20)
	defer w.Flush()
	enc := func(e map[string]interface{}) {
		b, _ := json.Marshal(e)
		w.Write(b)
		w.WriteByte('\n')
	}
	r := rand.New(rand.NewSource(*seed))
	ops := 0
	for id := 1; id <= *n; id++ {
		doc := randContainer(r)
		recentKeys = recentKeys[:0]
		mode := astCreateModes[r.Intn(len(astCreateModes))]
		text := spaced(doc.String(), r.Intn(2), r)
		root, err := newRoot(mode, doc, text)
		if err != nil {
			continue
		}
		enc(map[string]interface{}{"ev": "begin", "id": id, "mode": mode, "doc": doc.toJSON()})
		nops := 5 + r.Intn(*maxOps)
		for i := 0; i < nops; i++ {
			op := randOp(r, doc, len(doc.Elems))
			lastLen.reprBefore, lastLen.liveAfter = "", 0
			rawArg := r.Intn(2) == 0
			obs := applyAstOp(root, &op, rawArg)
			ops++
			path := []interface{}{}
			for _, st := range op.Path {
				if st.IsKey {
					path = append(path, map[string]interface{}{"t": "k", "i": 0, "key": st.Key})
				} else {
					path = append(path, map[string]interface{}{"t": "i", "i": st.I, "key": ""})
				}
			}
			enc(map[string]interface{}{"ev": "op", "path": path,
				"op":  map[string]interface{}{"o": op.O, "i": op.I, "j": op.J, "key": op.Key, "v": treeFromText(op.V).toJSON()},
				"obs": obs, "repr": lastLen.reprBefore, "live": lastLen.liveAfter, "raw": rawArg})
		}
		fin := applyAstOp(root, &astOp{O: "Marshal"}, false)
		enc(map[string]interface{}{"ev": "end", "text": fin})
	}
	fmt.Printf("{\"traces\":%d,\"ops\":%d}\n", *n, ops)
	return 0
}

func init() { subcmds["astrec"] = astrecMain }
