package main

// astreplay: re-executes a recorded C15 trace (the replay file of a trace_rejected violation: begin + events) on a real
// ast.Node and prints the observation of every step; -min greedily drops earlier steps while the last step still gives
// the recorded (rejected) observation, which turns a 40-step recording into the two or three calls that matter.

import (
	"encoding/json"
	"flag"
	"fmt"
	"os"
)

func treeFromJSON(v interface{}) *tree {
	m := v.(map[string]interface{})
	t := &tree{K: m["k"].(string), N: int(m["n"].(float64)), S: m["s"].(string)}
	for _, e := range m["e"].([]interface{}) {
		if t.K == "obj" {
			p := e.(map[string]interface{})
			t.Keys = append(t.Keys, p["key"].(string))
			t.Elems = append(t.Elems, treeFromJSON(p["val"]))
		} else {
			t.Elems = append(t.Elems, treeFromJSON(e))
		}
	}
	return t
}

type astRecEvent struct {
	op  astOp
	raw bool
	obs string
}

func runRecorded(mode string, doc *tree, evs []astRecEvent, show bool) string {
	root, err := newRoot(mode, doc, doc.String())
	if err != nil {
		return "CREATE-ERR"
	}
	last := ""
	for i := range evs {
		op := evs[i].op
		last = applyAstOp(root, &op, evs[i].raw)
		if show {
			pj, _ := json.Marshal(op.Path)
			fmt.Printf("%3d %-18s i=%d j=%d key=%q path=%s v=%.40s\n      -> %.160s\n", i, op.O, op.I, op.J, op.Key, pj, op.V, last)
		}
	}
	return last
}

func astreplayMain(args []string) int {
	fs := flag.NewFlagSet("astreplay", flag.ExitOnError)
	file := fs.String("file", "", "replay file")
	min := fs.Bool("min", false, "minimise")
	fs.Parse(args)
	b, err := os.ReadFile(*file)
	if err != nil {
		fmt.Fprintln(os.Stderr, err)
		return 2
	}
	var top map[string]interface{}
	json.Unmarshal(b, &top)
	if r, ok := top["record"].(map[string]interface{}); ok {
		top = r
	}
	begin := top["begin"].(map[string]interface{})
	doc := treeFromJSON(begin["doc"])
	mode := begin["mode"].(string)
	var evs []astRecEvent
	for _, e := range top["events"].([]interface{}) {
		m := e.(map[string]interface{})
		if m["ev"] != "op" {
			continue
		}
		o := m["op"].(map[string]interface{})
		ev := astRecEvent{obs: m["obs"].(string)}
		ev.raw, _ = m["raw"].(bool)
		ev.op = astOp{O: o["o"].(string), I: int(o["i"].(float64)), J: int(o["j"].(float64)), Key: o["key"].(string), V: treeFromJSON(o["v"]).String()}
		for _, s := range m["path"].([]interface{}) {
			sm := s.(map[string]interface{})
			ev.op.Path = append(ev.op.Path, astStep{IsKey: sm["t"] == "k", I: int(sm["i"].(float64)), Key: sm["key"].(string)})
		}
		evs = append(evs, ev)
	}
	if len(evs) == 0 {
		return 2
	}
	want := evs[len(evs)-1].obs
	got := runRecorded(mode, doc, evs, !*min)
	fmt.Printf("mode %s doc %s\nlast step: recorded %.200q replayed %.200q\n", mode, doc.String(), want, got)
	if !*min {
		return 0
	}
	if got != want {
		fmt.Println("not reproduced from the stored events (longer history or another argument representation needed)")
		return 1
	}
	for changed := true; changed; {
		changed = false
		for i := 0; i < len(evs)-1; i++ {
			cand := append(append([]astRecEvent{}, evs[:i]...), evs[i+1:]...)
			if runRecorded(mode, doc, cand, false) == want {
				evs, changed = cand, true
				i--
			}
		}
	}
	runRecorded(mode, doc, evs, true)
	return 0
}

func init() { subcmds["astreplay"] = astreplayMain }
