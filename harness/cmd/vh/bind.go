package main

// bind: replay of the binding universe of spec/GenBind.tla (properties C01, C11, C18-decoder, C07).
// Each TLC state is one case (type, document, prior destination, options, required result).  The
// type is built with reflect (a fresh decoder program per distinct type), the document rendered
// in two spellings, and decoded with encoding/json and with sonic under the matching Config.
// Verdict rule: the specification and encoding/json must agree (otherwise the case counts as an
// oracle disagreement and gives no verdict); sonic must then report an error exactly when
// required (either way where only a skipped value is malformed) and leave a deeply equal value.

import (
	"encoding/json"
	"flag"
	"fmt"
	"io"
	"os"
	"reflect"
	"runtime"
	"strings"
	"time"
	"unsafe"

	"github.com/bytedance/sonic"

	"verifharness/tlaval"
	"verifharness/workpool"
)

type bindBad struct {
	Kind string          `json:"kind"`
	Type string          `json:"type"`
	Doc  string          `json:"doc"`
	Text string          `json:"text"`
	Old  string          `json:"old"`
	Opts string          `json:"opts"`
	Want string          `json:"want"`
	Got  string          `json:"got"`
	Feat map[string]bool `json:"feat"`
	Sig  string          `json:"sig"`
}

type bindRes struct {
	ID     int       `json:"id"`
	DG     uint64    `json:"dg"`
	Evals  int       `json:"evals"`
	Oracle []bindBad `json:"oracle,omitempty"`
	Bad    []bindBad `json:"bad,omitempty"`
	NoStd  int       `json:"nostd"`
	Progs  int       `json:"progs"`
	Soft   int       `json:"soft"`
	Detail *bindBad  `json:"detail,omitempty"`
	Sub    []subDG   `json:"sub,omitempty"` // -prefixes: one digest per prefix of the document
}

var apiCache = map[string]sonic.API{}

func bindAPI(o map[string]interface{}) sonic.API {
	key := fmt.Sprint(o["num"], o["cs"], o["duf"], o["vs"], o["ue"])
	if a, ok := apiCache[key]; ok {
		return a
	}
	c := sonic.Config{}
	if o["vs"].(bool) {
		c = sonic.Config{EscapeHTML: true, SortMapKeys: true, CompactMarshaler: true, CopyString: true, ValidateString: true}
	}
	switch sstr(o["num"]) {
	case "usenumber":
		c.UseNumber = true
	case "useint64":
		c.UseInt64 = true
	}
	c.CaseSensitive = o["cs"].(bool)
	c.DisallowUnknownFields = o["duf"].(bool)
	c.UseUnicodeErrors, _ = o["ue"].(bool)
	a := c.Froze()
	apiCache[key] = a
	return a
}

// int64Convert rewrites json.Number values held in interfaces the way UseInt64 is documented:
// int64 when the literal is an integer in range, float64 otherwise.
func int64Convert(v reflect.Value) error {
	switch v.Kind() {
	case reflect.Ptr:
		if !v.IsNil() {
			return int64Convert(v.Elem())
		}
	case reflect.Interface:
		if v.IsNil() {
			return nil
		}
		x, err := int64Generic(v.Elem().Interface())
		if err != nil {
			return err
		}
		v.Set(reflect.ValueOf(x))
	case reflect.Slice, reflect.Array:
		if v.Type().Elem().Kind() == reflect.Uint8 {
			return nil
		}
		for i := 0; i < v.Len(); i++ {
			if err := int64Convert(v.Index(i)); err != nil {
				return err
			}
		}
	case reflect.Map:
		for _, k := range v.MapKeys() {
			e := reflect.New(v.Type().Elem()).Elem()
			e.Set(v.MapIndex(k))
			if err := int64Convert(e); err != nil {
				return err
			}
			v.SetMapIndex(k, e)
		}
	case reflect.Struct:
		for i := 0; i < v.NumField(); i++ {
			if v.Field(i).CanSet() {
				if err := int64Convert(v.Field(i)); err != nil {
					return err
				}
			}
		}
	}
	return nil
}

func int64Generic(x interface{}) (interface{}, error) {
	switch t := x.(type) {
	case json.Number:
		if n, err := t.Int64(); err == nil {
			return n, nil
		}
		f, err := t.Float64()
		if err != nil {
			return nil, err
		}
		return f, nil
	case []interface{}:
		for i := range t {
			y, err := int64Generic(t[i])
			if err != nil {
				return nil, err
			}
			t[i] = y
		}
	case map[string]interface{}:
		for k := range t {
			y, err := int64Generic(t[k])
			if err != nil {
				return nil, err
			}
			t[k] = y
		}
	}
	return x, nil
}

// errWF is the C07 monitor on error values: formatting terminates without panic, the message is
// bounded, and a reported position lies inside the input.
func errWF(err error, inputLen int) (problem string) {
	if err == nil {
		return ""
	}
	defer func() {
		if r := recover(); r != nil {
			problem = fmt.Sprintf("formatting the error panics: %v", r)
		}
	}()
	msg := err.Error()
	if len(msg) > 4096 {
		return fmt.Sprintf("error message of %d bytes for an input of %d bytes", len(msg), inputLen)
	}
	type desc interface{ Description() string }
	if d, ok := err.(desc); ok {
		if s := d.Description(); len(s) > 4096 {
			return fmt.Sprintf("error description of %d bytes", len(s))
		}
	}
	rv := reflect.ValueOf(err)
	if rv.Kind() == reflect.Ptr && !rv.IsNil() {
		rv = rv.Elem()
	}
	if rv.Kind() == reflect.Struct {
		if f := rv.FieldByName("Pos"); f.IsValid() && f.Kind() == reflect.Int {
			if p := int(f.Int()); p < 0 || p > inputLen {
				return fmt.Sprintf("error position %d outside the input of %d bytes", p, inputLen)
			}
		}
	}
	return ""
}

// features of a case used in known-finding predicates: which special constructs the type and
// the document contain
func bindFeatures(t, j map[string]interface{}) map[string]bool {
	f := map[string]bool{}
	var walkT func(t map[string]interface{})
	walkT = func(t map[string]interface{}) {
		k := sstr(t["k"])
		switch k {
		case "map":
			f["map_"+sstr(t["key"])] = true
			walkT(rec(t["e"]))
		case "ifp":
			f["ifp"], f["iface"] = true, true
			walkT(rec(t["e"]))
		case "ptr", "slice", "arr":
			f[k] = true
			if k == "slice" && sstr(rec(t["e"])["k"]) == "u8" {
				f["bytes"] = true // []uint8 is []byte
			}
			walkT(rec(t["e"]))
		case "st":
			for _, fd := range seqOf(t["f"]) {
				fm := rec(fd)
				if tg := sstr(fm["tag"]); tg != "none" {
					f["tag_"+tg] = true
				}
				walkT(rec(fm["t"]))
			}
		default:
			f[k] = true
		}
	}
	var walkJ func(j map[string]interface{})
	walkJ = func(j map[string]interface{}) {
		switch sstr(j["j"]) {
		case "n", "s", "x", "xs":
			f[sstr(j["c"])] = true
		case "a":
			for _, e := range seqOf(j["e"]) {
				walkJ(rec(e))
			}
		case "o":
			f["object"] = true
			seen := map[string]bool{}
			for _, e := range seqOf(j["m"]) {
				k := sstr(rec(e)["k"])
				if seen[k] {
					f["dupkey"] = true
				}
				seen[k] = true
				f["key_"+k] = true
				walkJ(rec(rec(e)["v"]))
			}
		default:
			f[sstr(j["j"])] = true
		}
	}
	walkT(t)
	walkJ(j)
	for _, k := range []string{"i16", "i32", "i64", "u16", "u32", "u64", "uint"} {
		if f["map_"+k] {
			f["map_intkey"] = true
		}
	}
	if f["map_int"] || f["map_i8"] || f["map_u8"] {
		f["map_intkey"] = true
	}
	if f["map_intkey"] || f["map_str"] || f["map_txt"] {
		f["map"] = true
	}
	if f["raw"] || f["uj"] {
		f["raw_or_unmarshaler"] = true
	}
	return f
}

func optsSig(o map[string]interface{}) string {
	s := "default"
	if o["vs"].(bool) {
		s = "std"
	}
	if n := sstr(o["num"]); n != "none" {
		s += "+" + n
	}
	if o["cs"].(bool) {
		s += "+cs"
	}
	if o["duf"].(bool) {
		s += "+duf"
	}
	if o["ue"] == true {
		s += "+ue"
	}
	return s
}

func bindHandle(in []byte) []byte {
	var c map[string]interface{}
	if err := json.Unmarshal(in, &c); err != nil {
		return []byte(`{"error":"bad case"}`)
	}
	if c["prefixes"] == true {
		r := bindPrefixes(c)
		out, _ := json.Marshal(r)
		return out
	}
	res := bindRes{ID: intOf(c["id"])}
	od := obsBegin()
	if c["detail"] == true && od.log == nil {
		od.log = []string{}
	}
	T, J, o, R := rec(c["T"]), rec(c["J"]), rec(c["o"]), rec(c["R"])
	oldName := sstr(c["old"])
	hard, soft := R["hard"].(bool), R["soft"].(bool)
	np := len(programs)
	rt := goType(T)
	api := bindAPI(o)
	tsig, jsig, osig := typeSig(T), docSig(J), optsSig(o)
	mk := func(kind, text, want, got string) bindBad {
		ft := bindFeatures(T, J)
		if o["ue"] == true {
			ft["o_ue"] = true
		}
		if keySpelling > 0 {
			ft["esc_keys"] = true
		}
		return bindBad{Kind: kind, Type: tsig, Doc: jsig, Text: text, Old: oldName, Opts: osig, Want: want, Got: got, Feat: ft,
			Sig: kind + "|" + tsig + "|" + jsig}
	}
	oldV := func() reflect.Value {
		p := reflect.New(rt)
		if oldName == "pre" {
			p.Elem().Set(build(T, preV(T)))
		} else if oldName == "precap" {
			p.Elem().Set(build(T, preCapV(T)))
		}
		return p
	}
	ws := 0
	if intOf(c["seed"])%2 == 1 {
		ws = 1 + (intOf(c["id"])+intOf(c["seed"]))%3
	}
	// text plans: (blank plan, key spelling); a document with object keys is also decoded with its keys spelled by escapes
	type textPlan struct{ ws, esc int }
	plans := []textPlan{{0, 0}}
	if ws > 0 {
		plans = append(plans, textPlan{ws, 0})
	}
	if strings.Contains(docText(J, 0), `":`) {
		plans = append(plans, textPlan{ws, 1 + (intOf(c["id"])+intOf(c["seed"]))%2})
	}
	defer func() { keySpelling = 0 }()
	for _, pl := range plans {
		w := pl.ws
		buildWS = w
		keySpelling = pl.esc
		text := docText(J, w)
		// the oracle
		ps := oldV()
		var errS error
		haveStd := !o["cs"].(bool) && o["ue"] != true
		if haveStd {
			rd := strings.NewReader(text)
			dec := json.NewDecoder(rd)
			if n := sstr(o["num"]); n != "none" {
				dec.UseNumber()
			}
			if o["duf"].(bool) {
				dec.DisallowUnknownFields()
			}
			errS = dec.Decode(ps.Interface())
			if errS == nil {
				rest, _ := io.ReadAll(io.MultiReader(dec.Buffered(), rd))
				if len(strings.TrimSpace(string(rest))) > 0 {
					errS = fmt.Errorf("trailing data")
				}
			}
			if errS == nil && sstr(o["num"]) == "useint64" {
				errS = int64Convert(ps.Elem())
			}
		}
		var want reflect.Value
		if !hard && !soft {
			want = build(T, rec(R["v"]))
		}
		res.Evals++
		if haveStd {
			if (errS != nil) != (hard || soft) {
				if len(res.Oracle) < 4 {
					res.Oracle = append(res.Oracle, mk("oracle_error", text, fmt.Sprintf("spec hard=%v soft=%v", hard, soft), fmt.Sprintf("std err=%v", errS)))
				}
				continue
			}
			if errS == nil && !reflect.DeepEqual(ps.Elem().Interface(), want.Interface()) {
				if len(res.Oracle) < 4 {
					res.Oracle = append(res.Oracle, mk("oracle_value", text, showValue(want), showValue(ps.Elem())))
				}
				continue
			}
		} else {
			res.NoStd++
		}
		if soft && !hard {
			res.Soft++
		}
		// sonic, two entry points
		for ep := 0; ep < 2; ep++ {
			pg := oldV()
			// identity: an interface{} destination that holds a non-nil pointer is decoded INTO the pointee - the caller's own
			// pointer must see the value (decided only when encoding/json keeps the pointer as well)
			var heldBefore, stdHeld unsafe.Pointer
			if sstr(T["k"]) == "ifp" && oldName == "pre" {
				heldBefore = heldPointer(pg.Elem())
				if haveStd && errS == nil {
					ps2 := oldV()
					b0 := heldPointer(ps2.Elem())
					if json.Unmarshal([]byte(text), ps2.Interface()) == nil && heldPointer(ps2.Elem()) == b0 {
						stdHeld = b0
					}
				}
			}
			var errX error
			panicked := ""
			func() {
				defer func() {
					if r := recover(); r != nil {
						panicked = fmt.Sprint(r)
					}
				}()
				if ep == 0 {
					errX = api.Unmarshal([]byte(text), pg.Interface())
				} else {
					errX = api.UnmarshalFromString(text, pg.Interface())
				}
			}()
			got := ""
			if errX == nil && panicked == "" {
				got = showValue(pg.Elem())
			}
			if keySpelling > 0 {
				obsAdd("esc", ep, " ", errX == nil, got, panicked) // observations of the escaped-key text plan are marked
			} else {
				obsAdd(ep, errX == nil, got, panicked)
			}
			name := []string{"Unmarshal", "UnmarshalFromString"}[ep]
			switch {
			case panicked != "":
				res.Bad = append(res.Bad, mk("panic", text, "no panic", name+": "+panicked))
			case hard && errX == nil:
				res.Bad = append(res.Bad, mk("error_required", text, "an error", name+": nil error, value "+got))
			case !hard && soft:
				// either outcome is tolerated
			case !hard && errX != nil:
				res.Bad = append(res.Bad, mk("valid_rejected", text, showValue(want), name+": "+firstLine(errX.Error())))
			case !hard && !reflect.DeepEqual(pg.Elem().Interface(), want.Interface()):
				res.Bad = append(res.Bad, mk("wrong_value", text, showValue(want), name+": "+got))
			case !hard && stdHeld != nil && heldPointer(pg.Elem()) != heldBefore:
				res.Bad = append(res.Bad, mk("pointee_replaced", text, "the value decoded into the pointer the interface held", name+": the interface holds another pointer, value "+got))
			}
			if p := errWF(errX, len(text)); p != "" {
				res.Bad = append(res.Bad, mk("error_not_wellformed", text, "usable error", name+": "+p))
			}
			if len(res.Bad) > 0 {
				break
			}
		}
	}
	keySpelling = 0
	if c["detail"] == true {
		d := mk("detail", docText(J, 0), fmt.Sprintf("hard=%v soft=%v", hard, soft), strings.Join(od.log, " ; "))
		res.Detail = &d
	}
	res.Progs = len(programs) - np
	res.DG = od.sum
	out, _ := json.Marshal(res)
	return out
}

// heldPointer: the pointer an interface value holds (nil when it holds no pointer)
func heldPointer(v reflect.Value) unsafe.Pointer {
	if v.Kind() != reflect.Interface || v.IsNil() || v.Elem().Kind() != reflect.Ptr {
		return nil
	}
	return v.Elem().UnsafePointer()
}

var buildWS = 0

// batchFor: a detailed re-run of a few listed cases spreads them over the workers (a case that hangs holds up only itself)
func batchFor(only string) int {
	if only != "" {
		return 2
	}
	return 128
}

func btoi(b bool) int {
	if b {
		return 1
	}
	return 0
}

func firstLine(s string) string {
	if i := strings.IndexByte(s, '\n'); i >= 0 {
		s = s[:i]
	}
	if len(s) > 160 {
		s = s[:160]
	}
	return s
}

type bindSummary struct {
	Cases     int            `json:"cases"`
	Evals     int            `json:"evals"`
	Programs  int            `json:"programs"`
	NoStd     int            `json:"no_std_oracle"`
	Soft      int            `json:"soft_cases"`
	Oracle    int            `json:"oracle_disagreements"`
	OracleEx  []bindBad      `json:"oracle_examples,omitempty"`
	OracleSig map[string]int `json:"oracle_by_sig,omitempty"`
	Bad       []bindBad      `json:"bad"`
	BadBySig  map[string]int `json:"bad_by_sig"`
	Crashes   []string       `json:"crashes"`
	Samples   []string       `json:"samples"`
	Wall      float64        `json:"wall_s"`
}

func bindMain(args []string) int {
	fs := flag.NewFlagSet("bind", flag.ExitOnError)
	dumps := fs.String("dump", "", "comma separated TLC dumps of GenBind")
	out := fs.String("out", "", "summary")
	seed := fs.Int64("seed", 1, "seed")
	workers := fs.Int("workers", runtime.NumCPU(), "workers")
	envs := fs.String("env", "", "comma separated KEY=VALUE for the workers")
	digests := fs.String("digests", "", "write per-case observation digests to this file")
	only := fs.String("only", "", "file with case ids (one per line): replay only these, with observation details")
	detail := fs.String("detail", "", "ndjson output of the per-case details (with -only)")
	prefixes := fs.Bool("prefixes", false, "C05: decode every prefix of each document under the placement given by VERIF_PLACE; one digest per prefix")
	stride := fs.Int("stride", 1, "with -prefixes: replay every stride-th case (offset by the seed)")
	fs.Parse(args)
	onlyIDs := map[int]bool{}
	if *only != "" {
		b, _ := os.ReadFile(*only)
		for _, f := range strings.Fields(string(b)) {
			var n int
			fmt.Sscan(f, &n)
			onlyIDs[n] = true
		}
	}
	var details []bindBad
	t0 := time.Now()
	var dgs digestFile
	S := bindSummary{BadBySig: map[string]int{}, OracleSig: map[string]int{}}
	var env []string
	if *envs != "" {
		env = strings.Split(*envs, ",")
	}
	cases := make(chan []byte, 1024)
	var perr error
	go func() {
		defer close(cases)
		id := 0
		for _, d := range strings.Split(*dumps, ",") {
			if d == "" {
				continue
			}
			f, err := os.Open(d)
			if err != nil {
				perr = err
				return
			}
			perr = tlaval.ReadStates(f, func(n int, hdr string, st tlaval.State) error {
				id++
				if *only != "" && !onlyIDs[id] {
					return nil
				}
				if *prefixes && (id+int(*seed))%*stride != 0 {
					return nil
				}
				m := tlaval.ToJSON(st).(map[string]interface{})
				m["id"], m["seed"] = id, *seed
				if *prefixes {
					m["prefixes"] = true
				}
				if *only != "" {
					m["detail"] = true
				}
				b, _ := json.Marshal(m)
				if len(S.Samples) < 3 {
					S.Samples = append(S.Samples, string(b))
				}
				cases <- b
				return nil
			})
			f.Close()
			if perr != nil {
				return
			}
		}
	}()
	err := workpool.Run(workpool.Options{Kind: "bind", Workers: *workers, Batch: batchFor(*only), Env: env, CaseTimeout: 2 * time.Second,
		OnResult: func(cl, rl []byte) {
			var r bindRes
			if json.Unmarshal(rl, &r) != nil {
				return
			}
			S.Cases++
			S.Evals += r.Evals
			S.Programs += r.Progs
			S.NoStd += r.NoStd
			S.Soft += r.Soft
			if len(r.Sub) > 0 {
				for _, sd := range r.Sub {
					dgs.add(r.ID*256+sd.Sub, sd.DG)
					if sd.Tag != "" {
						dgs.addTag(r.ID*256+sd.Sub, sd.Tag)
					}
				}
			} else {
				dgs.add(r.ID, r.DG)
			}
			if r.Detail != nil {
				r.Detail.Sig = fmt.Sprint(r.ID)
				details = append(details, *r.Detail)
			}
			for _, b := range r.Oracle {
				S.Oracle++
				S.OracleSig[b.Kind+"|"+b.Type+"|"+b.Doc]++
				if len(S.OracleEx) < 40 {
					S.OracleEx = append(S.OracleEx, b)
				}
			}
			for _, b := range r.Bad {
				S.BadBySig[b.Sig]++
				if S.BadBySig[b.Sig] <= 1 && len(S.Bad) < 3000 {
					S.Bad = append(S.Bad, b)
				}
			}
		},
		OnCrash: func(c workpool.Crash) {
			S.Crashes = append(S.Crashes, c.Reason+": "+string(c.Case)+"\n"+tailStr(c.Stderr, 1500))
		}}, cases)
	if err != nil || perr != nil {
		fmt.Fprintln(os.Stderr, "bind:", err, perr)
		return 2
	}
	dgs.write(*digests)
	if *detail != "" {
		f, _ := os.Create(*detail)
		for _, d := range details {
			b, _ := json.Marshal(d)
			f.Write(append(b, '\n'))
		}
		f.Close()
	}
	S.Wall = time.Since(t0).Seconds()
	b, _ := json.MarshalIndent(S, "", " ")
	if *out != "" {
		os.WriteFile(*out, b, 0o644)
	}
	fmt.Printf("{\"cases\":%d,\"evals\":%d,\"programs\":%d,\"oracle\":%d,\"bad_sigs\":%d,\"crashes\":%d}\n", S.Cases, S.Evals, S.Programs, S.Oracle, len(S.BadBySig), len(S.Crashes))
	return 0
}

func tailStr(s string, n int) string {
	if len(s) > n {
		return s[len(s)-n:]
	}
	return s
}

func init() {
	subcmds["bind"] = bindMain
	workpool.Register("bind", bindHandle)
}
