package main

// Typed decoding of every prefix of the binding universe's documents under the memory placements of
// C05 (heap / ending at a PROT_NONE page / followed by an adversarial continuation): the generated
// decoder programs peek at the next bytes of the input (literals, `,string` quoting, blanks, the
// byte after a token), and a truncated document is where such a peek is tempted to read on.
// No expected result is needed: the observation (error-or-not, error text, the value left in the
// destination) must be the same under every placement, and nothing may fault.

import (
	"bytes"
	"encoding/json"
	"fmt"
	"reflect"
	"runtime/debug"
	"strings"
)

type subDG struct {
	Sub int    `json:"sub"`
	DG  uint64 `json:"dg"`
	Tag string `json:"tag,omitempty"`
}

func bindPrefixes(c map[string]interface{}) bindRes {
	res := bindRes{ID: intOf(c["id"])}
	T, J, o := rec(c["T"]), rec(c["J"]), rec(c["o"])
	rt := goType(T)
	api := bindAPI(o)
	tsig, jsig, osig := typeSig(T), docSig(J), optsSig(o)
	buildWS = 0
	text := []byte(docText(J, 0))
	seed := intOf(c["seed"])
	debug.SetPanicOnFault(true)
	// C02 on typed destinations: a well-formed document that opens with a container or a string and does not end in a blank
	// has no proper prefix that is a document (GenLex!PrefixFree) - every truncation must be rejected.  Decided only where the
	// specification's document (no non-JSON atoms) and encoding/json.Valid agree, and only on the heap placement.
	mustReject := lexPlace == "" && len(text) > 0 && strings.IndexByte("{[\"", text[0]) >= 0 && wellFormedDoc(J) && json.Valid(text) &&
		strings.IndexByte(" \t\r\n", text[len(text)-1]) < 0
	var details []string
	n := len(text)
	if n > 200 {
		n = 200
	}
	for cut := 1; cut <= n; cut++ {
		pre := text[:cut]
		cs := concreteSig(map[string]string{}, pre)
		if bytes.HasSuffix(pre, []byte(`"0`)) || bytes.HasSuffix(pre, []byte(`"-0`)) {
			// a quoted number (integer map key, `,string` field) is handed to the same native number parser
			cs["leading_zero_at_end"] = "yes"
		}
		tag := ""
		if cs["short_literal_at_end"] == "yes" {
			tag = "short_literal_at_end"
		} else if cs["leading_zero_at_end"] == "yes" {
			tag = "leading_zero_at_end"
		}
		od := obsBegin()
		if c["detail"] == true && od.log == nil {
			od.log = []string{}
		}
		// the continuation that closes a string first (the most tempting one for a quoted token), then two that rotate
		for _, k := range []int{0, 1 + (res.ID+cut+seed)%(len(advConts)-1), 1 + (res.ID*7+cut*3+seed)%(len(advConts)-1)} {
			for ep := 0; ep < 2; ep++ {
				pg := reflect.New(rt)
				placed := placeInput(pre, k)
				var errX error
				fault := ""
				func() {
					defer func() {
						if r := recover(); r != nil {
							fault = fmt.Sprint(r)
						}
					}()
					if ep == 0 {
						errX = api.Unmarshal(placed, pg.Interface())
					} else {
						errX = api.UnmarshalFromString(strOf(placed), pg.Interface())
					}
				}()
				res.Evals++
				if fault != "" {
					obsAdd(k, ep, "fault")
					if len(res.Bad) < 4 {
						res.Bad = append(res.Bad, bindBad{Kind: "fault", Type: tsig, Doc: jsig, Text: string(pre), Opts: osig, Got: firstLine(fault),
							Sig: "fault|" + tag + "|" + tsig, Feat: map[string]bool{"short_literal_at_end": cs["short_literal_at_end"] == "yes",
								"leading_zero_at_end": cs["leading_zero_at_end"] == "yes"}})
					}
					continue
				}
				if mustReject && cut < len(text) && errX == nil {
					if json.Valid(pre) {
						if len(res.Oracle) < 2 {
							res.Oracle = append(res.Oracle, bindBad{Kind: "oracle_prefix", Type: tsig, Doc: jsig, Text: string(pre)})
						}
					} else if len(res.Bad) < 4 {
						kind := "malformed_accepted"
						if unterminatedString(string(pre)) >= 32 {
							kind = "malformed_accepted_unterminated_string_ge32"
						}
						res.Bad = append(res.Bad, bindBad{Kind: kind, Type: tsig, Doc: jsig, Text: string(pre), Opts: osig,
							Want: "an error (truncated document)", Got: []string{"Unmarshal", "UnmarshalFromString"}[ep] + ": nil error, value " + showValue(pg.Elem()),
							Sig: kind + "|" + tsig + "|" + jsig, Feat: bindFeatures(T, J)})
					}
				}
				es := ""
				if errX != nil {
					es = firstLine(errX.Error())
				}
				obsAdd(k, ep, es, showValue(pg.Elem()))
			}
		}
		res.Sub = append(res.Sub, subDG{Sub: cut, DG: od.sum, Tag: tag})
		if c["detail"] == true {
			details = append(details, fmt.Sprintf("cut %d %q: %s", cut, pre, strings.Join(od.log, " ; ")))
		}
	}
	if c["detail"] == true {
		res.Detail = &bindBad{Kind: "detail", Type: tsig, Doc: jsig, Text: string(text), Opts: osig, Got: strings.Join(details, "\n")}
	}
	res.DG = 0
	return res
}

// wellFormedDoc: the specification's document has no non-JSON atom, structural hole or missing member
func wellFormedDoc(j map[string]interface{}) bool {
	switch sstr(j["j"]) {
	case "x", "xs", "none":
		return false
	case "qs":
		return true
	case "a":
		for _, e := range seqOf(j["e"]) {
			if !wellFormedDoc(rec(e)) {
				return false
			}
		}
	case "o":
		for _, e := range seqOf(j["m"]) {
			m := rec(e)
			if sstr(m["k"]) == "~comma" || !wellFormedDoc(rec(m["v"])) {
				return false
			}
		}
	}
	return true
}
