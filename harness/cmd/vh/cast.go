package main

// cast: replay of AstCast states (properties C14 / C15): one (value, accessor, required result) per state, replayed on
// nodes that denote the value in every way the library offers - raw text, lazily located children, loaded trees, search
// results under every option set, constructors, decoded nodes, nodes put into a tree and read back, and Go values wrapped
// by NewAny / SetAny / AddAny / SetAnyByIndex (every Go kind that holds the value). The facts the specification states
// about each text (ParseInt / ParseFloat / ParseBool) are re-derived with strconv first: a disputed fact gives no verdict.

import (
	"encoding/json"
	"errors"
	"flag"
	"fmt"
	"math"
	"os"
	"reflect"
	"runtime"
	"strconv"
	"strings"
	"time"

	"github.com/bytedance/sonic"
	"github.com/bytedance/sonic/ast"

	"verifharness/tlaval"
	"verifharness/workpool"
)

type castFact struct {
	Pi bool   `json:"pi"`
	I  string `json:"i"`
	Pf bool   `json:"pf"`
	F  string `json:"f"`
	T  string `json:"t"`
	Nz bool   `json:"nz"`
	Pb string `json:"pb"`
}

type castCase struct {
	ID   int      `json:"id"`
	K    string   `json:"k"`
	GK   string   `json:"gk"`
	S    string   `json:"s"`
	N    int      `json:"n"`
	Fa   castFact `json:"fa"`
	Acc  string   `json:"acc"`
	Res  string   `json:"res"`
	Seed int64    `json:"seed"`
}

type castBad struct {
	ID    int    `json:"id"`
	Kind  string `json:"kind"`
	K     string `json:"k"`
	GK    string `json:"gk"`
	S     string `json:"s"`
	Acc   string `json:"acc"`
	Rep   string `json:"rep"`
	Proto string `json:"proto"`
	Want  string `json:"want"`
	Got   string `json:"got"`
	Sig   string `json:"sig"`
	// Len on a node that is still raw answered with the number of children parsed so far (none)
	LenDev string `json:"len_dev,omitempty"`
}

type castRes struct {
	DG     uint64    `json:"dg"`
	ID     int       `json:"id"`
	Evals  int       `json:"evals"`
	Reps   int       `json:"reps"`
	Oracle int       `json:"oracle_disagreements"`
	Unspec int       `json:"unspecified"`
	Bad    []castBad `json:"bad,omitempty"`
}

type castRep struct {
	name string
	mk   func() (*ast.Node, error)
}

func fmtG(f float64) string { return strconv.FormatFloat(f, 'g', -1, 64) }

// factsHold re-derives the specification's facts about the text s with strconv.
func factsHold(c *castCase) bool {
	s, fa := c.S, c.Fa
	numeric := c.K == "num" || c.K == "str" || (c.K == "any" && c.GK != "bool" && c.GK != "other")
	if !numeric {
		return true
	}
	i, ei := strconv.ParseInt(s, 10, 64)
	if fa.Pi != (ei == nil) || (ei == nil && strconv.FormatInt(i, 10) != fa.I) {
		return false
	}
	f, ef := strconv.ParseFloat(s, 64)
	if fa.Pf != (ef == nil) || (ef == nil && fmtG(f) != fa.F) {
		return false
	}
	if ef == nil && fa.T != "?" && (math.Abs(f) >= 9e18 || strconv.FormatInt(int64(f), 10) != fa.T) {
		return false
	}
	if ef == nil && c.K != "str" && !(c.K == "any" && c.GK == "string") {
		nz := f != 0
		if ei == nil {
			nz = i != 0
		}
		if nz != fa.Nz {
			return false
		}
	}
	if c.K == "str" || (c.K == "any" && c.GK == "string") {
		b, eb := strconv.ParseBool(s)
		pb := "E"
		if eb == nil && b {
			pb = "T"
		} else if eb == nil {
			pb = "F"
		}
		if pb != fa.Pb {
			return false
		}
	}
	if c.K == "any" && c.GK == "float" && (ef != nil || fmtG(f) != s) {
		return false
	}
	return true
}

// jsonText: the JSON text of a value that is not a wrapped Go value.
func (c *castCase) jsonText(escaped bool) string {
	switch c.K {
	case "null", "true", "false":
		return c.K
	case "num":
		return c.S
	case "str":
		if escaped {
			var sb strings.Builder
			sb.WriteByte('"')
			for _, r := range c.S {
				fmt.Fprintf(&sb, `\u%04x`, r)
			}
			sb.WriteByte('"')
			return sb.String()
		}
		b, _ := json.Marshal(c.S)
		return string(b)
	case "arr":
		if c.N == 0 {
			return "[]"
		}
		return "[1,2]"
	case "obj":
		if c.N == 0 {
			return "{}"
		}
		return `{"a":1}`
	}
	return "null"
}

func (c *castCase) ctor() (ast.Node, bool) {
	switch c.K {
	case "null":
		return ast.NewNull(), true
	case "true":
		return ast.NewBool(true), true
	case "false":
		return ast.NewBool(false), true
	case "num":
		return ast.NewNumber(c.S), true
	case "str":
		return ast.NewString(c.S), true
	case "arr":
		if c.N == 0 {
			return ast.NewArray(nil), true
		}
		return ast.NewArray([]ast.Node{ast.NewNumber("1"), ast.NewNumber("2")}), true
	case "obj":
		if c.N == 0 {
			return ast.NewObject(nil), true
		}
		return ast.NewObject([]ast.Pair{ast.NewPair("a", ast.NewNumber("1"))}), true
	}
	return ast.Node{}, false
}

func chk(n *ast.Node, err error) (*ast.Node, error) {
	if err != nil {
		return nil, err
	}
	if n == nil {
		return nil, errors.New("nil node")
	}
	if e := n.Check(); e != nil {
		return nil, e
	}
	return n, nil
}

// jsonReps: every way to obtain a node denoting the JSON text.
func jsonReps(c *castCase) []castRep {
	var out []castRep
	for _, esc := range []bool{false, true} {
		esc := esc
		if esc && c.K != "str" {
			continue
		}
		text := c.jsonText(esc)
		pre := ""
		if esc {
			pre = "esc:"
		}
		objs := []string{`{"p":0,"k":` + text + `,"q":[1]}`, "{ \"p\" : [ {\"k\":7} ] ,\n\t\"k\" :  " + text + "  }", `{"k":` + text + `}`}
		arrs := []string{`[0,` + text + `,{"z":1}]`, "[ [], " + text + " ]"}
		out = append(out, castRep{pre + "NewRaw", func() (*ast.Node, error) { n := ast.NewRaw(text); return chk(&n, nil) }})
		out = append(out, castRep{pre + "NewRawConcurrentRead", func() (*ast.Node, error) { n := ast.NewRawConcurrentRead(text); return chk(&n, nil) }})
		out = append(out, castRep{pre + "Unmarshal", func() (*ast.Node, error) {
			var n ast.Node
			return chk(&n, sonic.UnmarshalString(text, &n))
		}})
		out = append(out, castRep{pre + "UnmarshalJSON", func() (*ast.Node, error) {
			var n ast.Node
			return chk(&n, n.UnmarshalJSON([]byte(text)))
		}})
		out = append(out, castRep{pre + "Loads-free:GetFromString(root)", func() (*ast.Node, error) { n, e := sonic.GetFromString(text); return chk(&n, e) }})
		for oi, o := range objs {
			o := o
			tag := fmt.Sprintf("%sobj%d.", pre, oi)
			out = append(out, castRep{tag + "NewRaw.Get", func() (*ast.Node, error) { r := ast.NewRaw(o); return chk(r.Get("k"), nil) }})
			out = append(out, castRep{tag + "NewRawConcurrentRead.Get", func() (*ast.Node, error) { r := ast.NewRawConcurrentRead(o); return chk(r.Get("k"), nil) }})
			out = append(out, castRep{tag + "LoadAll.Get", func() (*ast.Node, error) {
				r := ast.NewRaw(o)
				if e := r.LoadAll(); e != nil {
					return nil, e
				}
				return chk(r.Get("k"), nil)
			}})
			out = append(out, castRep{tag + "Load.GetByPath", func() (*ast.Node, error) {
				r := ast.NewRaw(o)
				if e := r.Load(); e != nil {
					return nil, e
				}
				return chk(r.GetByPath("k"), nil)
			}})
			out = append(out, castRep{tag + "sonic.Get", func() (*ast.Node, error) { n, e := sonic.Get([]byte(o), "k"); return chk(&n, e) }})
			out = append(out, castRep{tag + "sonic.GetFromString", func() (*ast.Node, error) { n, e := sonic.GetFromString(o, "k"); return chk(&n, e) }})
			out = append(out, castRep{tag + "sonic.GetCopyFromString", func() (*ast.Node, error) { n, e := sonic.GetCopyFromString(o, "k"); return chk(&n, e) }})
			if oi == 0 {
				for _, so := range searchOpts {
					so := so
					out = append(out, castRep{fmt.Sprintf("%sGetWithOptions(%v)", tag, so), func() (*ast.Node, error) {
						n, e := sonic.GetWithOptions([]byte(o), so, "k")
						return chk(&n, e)
					}})
				}
				out = append(out, castRep{tag + "Searcher.GetByPath", func() (*ast.Node, error) { n, e := ast.NewSearcher(o).GetByPath("k"); return chk(&n, e) }})
				out = append(out, castRep{tag + "Properties", func() (*ast.Node, error) {
					r := ast.NewRaw(o)
					it, e := r.Properties()
					if e != nil {
						return nil, e
					}
					var p ast.Pair
					for it.Next(&p) {
						if p.Key == "k" {
							n := p.Value
							return chk(&n, nil)
						}
					}
					return nil, errors.New("pair not delivered")
				}})
			}
		}
		for ai, a := range arrs {
			a := a
			tag := fmt.Sprintf("%sarr%d.", pre, ai)
			out = append(out, castRep{tag + "NewRaw.Index", func() (*ast.Node, error) { r := ast.NewRaw(a); return chk(r.Index(1), nil) }})
			out = append(out, castRep{tag + "sonic.Get", func() (*ast.Node, error) { n, e := sonic.Get([]byte(a), 1); return chk(&n, e) }})
			out = append(out, castRep{tag + "Values", func() (*ast.Node, error) {
				r := ast.NewRaw(a)
				it, e := r.Values()
				if e != nil {
					return nil, e
				}
				var n ast.Node
				for i := 0; it.Next(&n); i++ {
					if i == 1 {
						m := n
						return chk(&m, nil)
					}
				}
				return nil, errors.New("element not delivered")
			}})
			out = append(out, castRep{tag + "ArrayUseNode", func() (*ast.Node, error) {
				r := ast.NewRaw(a)
				ns, e := r.ArrayUseNode()
				if e != nil || len(ns) < 2 {
					return nil, fmt.Errorf("ArrayUseNode: %v (%d)", e, len(ns))
				}
				return chk(&ns[1], nil)
			}})
		}
		out = append(out, castRep{pre + "MapUseNode", func() (*ast.Node, error) {
			r := ast.NewRaw(objs[0])
			m, e := r.MapUseNode()
			if e != nil {
				return nil, e
			}
			n, ok := m["k"]
			if !ok {
				return nil, errors.New("key missing")
			}
			return chk(&n, nil)
		}})
		// put into a tree and read back; and once more through the text the tree marshals to
		for _, how := range []string{"raw", "ctor"} {
			how := how
			mkv := func() (ast.Node, bool) {
				if how == "raw" {
					return ast.NewRaw(text), true
				}
				if esc {
					return ast.Node{}, false
				}
				return c.ctor()
			}
			if _, ok := mkv(); !ok {
				continue
			}
			out = append(out, castRep{pre + "Set(" + how + ").Get", func() (*ast.Node, error) {
				r := ast.NewRaw(`{"p":0}`)
				v, _ := mkv()
				if _, e := r.Set("k", v); e != nil {
					return nil, e
				}
				return chk(r.Get("k"), nil)
			}})
			out = append(out, castRep{pre + "Add(" + how + ").Index", func() (*ast.Node, error) {
				r := ast.NewRaw(`[0]`)
				v, _ := mkv()
				if e := r.Add(v); e != nil {
					return nil, e
				}
				return chk(r.Index(1), nil)
			}})
			out = append(out, castRep{pre + "Set(" + how + ").Marshal.NewRaw.Get", func() (*ast.Node, error) {
				r := ast.NewRaw(`{"p":0}`)
				v, _ := mkv()
				if _, e := r.Set("k", v); e != nil {
					return nil, e
				}
				b, e := r.MarshalJSON()
				if e != nil {
					return nil, e
				}
				r2 := ast.NewRaw(string(b))
				return chk(r2.Get("k"), nil)
			}})
		}
		if !esc {
			if _, ok := c.ctor(); ok {
				out = append(out, castRep{"constructor", func() (*ast.Node, error) { n, _ := c.ctor(); return chk(&n, nil) }})
				out = append(out, castRep{"NewAny(Node)", func() (*ast.Node, error) { v, _ := c.ctor(); n := ast.NewAny(v); return chk(&n, nil) }})
				out = append(out, castRep{"NewAny(*Node)", func() (*ast.Node, error) { v, _ := c.ctor(); n := ast.NewAny(&v); return chk(&n, nil) }})
			}
		}
	}
	return out
}

// goValues: every Go value of the wrapped kind that denotes the value (name, value).
func goValues(c *castCase) (names []string, vals []interface{}) {
	add := func(n string, v interface{}) { names = append(names, n); vals = append(vals, v) }
	switch c.GK {
	case "bool":
		add("bool", c.S == "true")
	case "int":
		i, err := strconv.ParseInt(c.S, 10, 64)
		if err != nil {
			return
		}
		add("int64", i)
		add("int", int(i))
		if i >= math.MinInt32 && i <= math.MaxInt32 {
			add("int32", int32(i))
		}
		if i >= math.MinInt16 && i <= math.MaxInt16 {
			add("int16", int16(i))
		}
		if i >= math.MinInt8 && i <= math.MaxInt8 {
			add("int8", int8(i))
		}
	case "uint":
		u, err := strconv.ParseUint(c.S, 10, 64)
		if err != nil {
			return
		}
		add("uint64", u)
		add("uint", uint(u))
		if u <= math.MaxUint32 {
			add("uint32", uint32(u))
		}
		if u <= math.MaxUint16 {
			add("uint16", uint16(u))
		}
		if u <= math.MaxUint8 {
			add("uint8", uint8(u))
		}
	case "float":
		f, err := strconv.ParseFloat(c.S, 64)
		if err != nil {
			return
		}
		add("float64", f)
		if float64(float32(f)) == f {
			add("float32", float32(f))
		}
	case "string":
		add("string", c.S)
	case "jnum":
		add("json.Number", json.Number(c.S))
	case "other":
		add("[]byte", []byte{0})
		add("struct", struct{ A int }{1})
	}
	return
}

func anyReps(c *castCase) []castRep {
	var out []castRep
	names, vals := goValues(c)
	for i := range names {
		nm, v := names[i], vals[i]
		out = append(out, castRep{"NewAny(" + nm + ")", func() (*ast.Node, error) { n := ast.NewAny(v); return chk(&n, nil) }})
		for _, root := range []string{`{"p":0}`, `{}`, `{"p":0,"k":null}`} {
			root := root
			out = append(out, castRep{"SetAny(" + nm + ")on" + root + ".Get", func() (*ast.Node, error) {
				r := ast.NewRaw(root)
				if _, e := r.SetAny("k", v); e != nil {
					return nil, e
				}
				return chk(r.Get("k"), nil)
			}})
		}
		out = append(out, castRep{"AddAny(" + nm + ").Index", func() (*ast.Node, error) {
			r := ast.NewRaw(`[0]`)
			if e := r.AddAny(v); e != nil {
				return nil, e
			}
			return chk(r.Index(1), nil)
		}})
		out = append(out, castRep{"SetAnyByIndex(" + nm + ").Index", func() (*ast.Node, error) {
			r := ast.NewRaw(`[0,1]`)
			if _, e := r.SetAnyByIndex(0, v); e != nil {
				return nil, e
			}
			return chk(r.Index(0), nil)
		}})
		out = append(out, castRep{"NewObject(NewAny(" + nm + ")).Get", func() (*ast.Node, error) {
			r := ast.NewObject([]ast.Pair{ast.NewPair("k", ast.NewAny(v))})
			return chk(r.Get("k"), nil)
		}})
	}
	return out
}

func castErr(err error) string {
	if errors.Is(err, ast.ErrUnsupportType) {
		return "E:unsupported"
	}
	return "E:parse"
}

func typeName(t int) string {
	switch t {
	case ast.V_NONE:
		return "none"
	case ast.V_ERROR:
		return "error"
	case ast.V_NULL:
		return "null"
	case ast.V_TRUE:
		return "true"
	case ast.V_FALSE:
		return "false"
	case ast.V_ARRAY:
		return "arr"
	case ast.V_OBJECT:
		return "obj"
	case ast.V_STRING:
		return "str"
	case ast.V_NUMBER:
		return "num"
	case ast.V_ANY:
		return "any"
	}
	return fmt.Sprint("type", t)
}

func callAcc(n *ast.Node, acc string) string {
	b2s := func(b bool) string {
		if b {
			return "b:T"
		}
		return "b:F"
	}
	switch acc {
	case "Bool":
		v, e := n.Bool()
		if e != nil {
			return castErr(e)
		}
		return b2s(v)
	case "StrictBool":
		v, e := n.StrictBool()
		if e != nil {
			return castErr(e)
		}
		return b2s(v)
	case "Int64":
		v, e := n.Int64()
		if e != nil {
			return castErr(e)
		}
		return "i:" + strconv.FormatInt(v, 10)
	case "StrictInt64":
		v, e := n.StrictInt64()
		if e != nil {
			return castErr(e)
		}
		return "i:" + strconv.FormatInt(v, 10)
	case "Float64":
		v, e := n.Float64()
		if e != nil {
			return castErr(e)
		}
		return "f:" + fmtG(v)
	case "StrictFloat64":
		v, e := n.StrictFloat64()
		if e != nil {
			return castErr(e)
		}
		return "f:" + fmtG(v)
	case "Number":
		v, e := n.Number()
		if e != nil {
			return castErr(e)
		}
		return "n:" + string(v)
	case "StrictNumber":
		v, e := n.StrictNumber()
		if e != nil {
			return castErr(e)
		}
		return "n:" + string(v)
	case "String":
		v, e := n.String()
		if e != nil {
			return castErr(e)
		}
		return "s:" + v
	case "StrictString":
		v, e := n.StrictString()
		if e != nil {
			return castErr(e)
		}
		return "s:" + v
	case "Len":
		v, e := n.Len()
		if e != nil {
			return castErr(e)
		}
		return "i:" + strconv.Itoa(v)
	case "Type":
		return "t:" + typeName(n.TypeSafe())
	}
	return "?"
}

func (res *castRes) bad(c *castCase, kind, rep, proto, want, got string) {
	res.badDev(c, kind, rep, proto, want, got, "")
}

// at most three records per signature and case (a signature that is a known finding must not crowd out another one)
func (res *castRes) badDev(c *castCase, kind, rep, proto, want, got, lenDev string) {
	sig := kind + "|" + c.Acc + "|" + c.K + "|" + c.GK
	if lenDev != "" {
		sig += "|" + lenDev
	}
	n := 0
	for i := range res.Bad {
		if res.Bad[i].Sig == sig {
			n++
		}
	}
	if n < 3 {
		res.Bad = append(res.Bad, castBad{ID: c.ID, Kind: kind, K: c.K, GK: c.GK, S: c.S, Acc: c.Acc, Rep: rep, Proto: proto, Want: want, Got: got,
			Sig: sig, LenDev: lenDev})
	}
}

// generic view of the value: what Interface() must return, and the text MarshalJSON / Raw must produce
func (c *castCase) views() (iface interface{}, ifaceNum interface{}, text string, ok bool) {
	switch c.K {
	case "null":
		return nil, nil, "null", true
	case "true":
		return true, true, "true", true
	case "false":
		return false, false, "false", true
	case "num":
		f, err := strconv.ParseFloat(c.S, 64)
		if err != nil {
			return nil, nil, "", false
		}
		return f, json.Number(c.S), c.S, true
	case "str":
		b, _ := json.Marshal(c.S)
		return c.S, c.S, string(b), true
	}
	return nil, nil, "", false
}

func castHandle(in []byte) []byte {
	var c castCase
	if err := json.Unmarshal(in, &c); err != nil {
		return []byte(`{"error":"bad case"}`)
	}
	res := castRes{ID: c.ID}
	od := obsBegin()
	defer func() {}()
	if !factsHold(&c) {
		res.Oracle++
		res.DG = od.sum
		out, _ := json.Marshal(res)
		return out
	}
	if c.Res == "ANY" {
		res.Unspec++
	}
	passes := []castCase{c}
	if c.K == "str" && c.S == "x" {
		// scale: a string longer than the vector width of the scanning routines (the facts of "x" are those of "xxx...")
		for _, n := range []int{31, 32, 33, 70} {
			l := c
			l.S = strings.Repeat("x", n)
			switch {
			case c.Res == "s:x":
				l.Res = "s:" + l.S
			case c.Acc == "Len":
				l.Res = "i:" + strconv.Itoa(n)
			}
			passes = append(passes, l)
		}
	}
	for pi := range passes {
		c := &passes[pi]
		var reps []castRep
		if c.K == "any" {
			reps = anyReps(c)
		} else {
			reps = jsonReps(c)
		}
		for _, rp := range reps {
			res.Reps++
			for _, proto := range []string{"first", "afterRaw", "afterInterface", "afterOtherAccessors"} {
				func() {
					defer func() {
						if rr := recover(); rr != nil {
							res.bad(c, "panic", rp.name, proto, c.Res, fmt.Sprint(rr))
						}
					}()
					n, err := rp.mk()
					if err != nil {
						res.bad(c, "node_not_obtained", rp.name, proto, c.Res, err.Error())
						return
					}
					switch proto {
					case "afterRaw":
						n.Raw()
					case "afterInterface":
						n.Interface()
					case "afterOtherAccessors":
						for _, a := range []string{"String", "Int64", "Bool", "Float64", "Number"} {
							if a != c.Acc {
								callAcc(n, a)
							}
						}
					}
					repr, _, live, _, _, _ := n.VerifRepr()
					got := callAcc(n, c.Acc)
					again := callAcc(n, c.Acc)
					obsAdd(rp.name, proto, got)
					res.Evals++
					if got != again {
						res.bad(c, "second_call_differs", rp.name, proto, got, again)
					}
					if c.Res != "ANY" && got != c.Res {
						dev := ""
						if c.Acc == "Len" && (repr == "raw" || repr == "lazy") && got == "i:"+strconv.Itoa(live) && (c.K == "arr" || c.K == "obj") {
							dev = "parsed_only"
						}
						res.badDev(c, "cast_differs", rp.name, proto, c.Res, got, dev)
					}
					// the generic views, once per value and representation
					if c.Acc == "Type" && proto == "first" {
						castViews(&res, c, rp.name, n)
					}
				}()
			}
		}
	}
	res.DG = od.sum
	out, _ := json.Marshal(res)
	return out
}

func castViews(res *castRes, c *castCase, rep string, n *ast.Node) {
	if c.K == "any" {
		_, vals := goValues(c)
		// which Go value this representation wraps is in its name
		var gv interface{}
		names, _ := goValues(c)
		for i, nm := range names {
			if strings.Contains(rep, "("+nm+")") {
				gv = vals[i]
			}
		}
		if gv == nil {
			return
		}
		iv, err := n.Interface()
		res.Evals++
		if err != nil || !reflect.DeepEqual(iv, gv) {
			res.bad(c, "interface_of_wrapped_value", rep, "views", fmt.Sprintf("%T:%v", gv, gv), fmt.Sprintf("%T:%v err=%v", iv, iv, err))
		}
		want, werr := json.Marshal(gv)
		got, gerr := n.MarshalJSON()
		if (werr == nil) != (gerr == nil) || (werr == nil && string(want) != string(got)) {
			res.bad(c, "marshal_of_wrapped_value", rep, "views", string(want), string(got)+fmt.Sprint(" err=", gerr))
		}
		raw, rerr := n.Raw()
		if (werr == nil) != (rerr == nil) || (werr == nil && string(want) != raw) {
			res.bad(c, "raw_of_wrapped_value", rep, "views", string(want), raw+fmt.Sprint(" err=", rerr))
		}
		return
	}
	wi, wn, text, ok := c.views()
	if !ok {
		return
	}
	res.Evals++
	iv, err := n.Interface()
	if err != nil || !reflect.DeepEqual(iv, wi) {
		res.bad(c, "interface_differs", rep, "views", fmt.Sprintf("%T:%v", wi, wi), fmt.Sprintf("%T:%v err=%v", iv, iv, err))
	}
	un, err := n.InterfaceUseNumber()
	if err != nil || !reflect.DeepEqual(un, wn) {
		res.bad(c, "interface_usenumber_differs", rep, "views", fmt.Sprintf("%T:%v", wn, wn), fmt.Sprintf("%T:%v err=%v", un, un, err))
	}
	b, err := n.MarshalJSON()
	if err != nil || !sameScalarText(string(b), text) {
		res.bad(c, "marshal_differs", rep, "views", text, string(b)+fmt.Sprint(" err=", err))
	}
	raw, err := n.Raw()
	if err != nil || !sameScalarText(raw, text) {
		res.bad(c, "raw_differs", rep, "views", text, raw+fmt.Sprint(" err=", err))
	}
	if !n.Exists() || !n.Valid() {
		res.bad(c, "exists_valid", rep, "views", "true true", fmt.Sprint(n.Exists(), n.Valid()))
	}
}

// sameScalarText: the same JSON scalar (string literals are compared by content: escape spelling may differ)
func sameScalarText(got, want string) bool {
	if got == want {
		return true
	}
	if strings.HasPrefix(want, `"`) {
		var a, b string
		return json.Unmarshal([]byte(got), &a) == nil && json.Unmarshal([]byte(want), &b) == nil && a == b
	}
	return false
}

func castMain(args []string) int {
	fs := flag.NewFlagSet("cast", flag.ExitOnError)
	dump := fs.String("dump", "", "TLC dump of AstCast")
	out := fs.String("out", "", "summary")
	seed := fs.Int64("seed", 1, "seed")
	workers := fs.Int("workers", runtime.NumCPU(), "workers")
	envs := fs.String("env", "", "comma separated KEY=VALUE for the workers")
	digests := fs.String("digests", "", "write per-case observation digests to this file")
	only := fs.String("only", "all", "all | json (values denoted by JSON text) | any (wrapped Go values)")
	skipAcc := fs.String("skipacc", "", "comma separated accessors left to another property's check")
	fs.Parse(args)
	t0 := time.Now()
	f, err := os.Open(*dump)
	if err != nil {
		fmt.Fprintln(os.Stderr, err)
		return 2
	}
	defer f.Close()
	var dgs digestFile
	type sum struct {
		Cases      int            `json:"cases"`
		Evals      int            `json:"evals"`
		Reps       int            `json:"representations"`
		Oracle     int            `json:"oracle_disagreements"`
		Unspec     int            `json:"unspecified"`
		BadBySig   map[string]int `json:"bad_by_sig"`
		Bad        []castBad      `json:"bad"`
		Crashes    []string       `json:"crashes"`
		Samples    []interface{}  `json:"samples"`
		NonTrivial int            `json:"distinct_nontrivial"`
		WallS      float64        `json:"wall_s"`
	}
	S := sum{BadBySig: map[string]int{}}
	var env []string
	if *envs != "" {
		env = strings.Split(*envs, ",")
	}
	cases := make(chan []byte, 1024)
	var perr error
	go func() {
		defer close(cases)
		perr = tlaval.ReadStates(f, func(n int, hdr string, st tlaval.State) error {
			v := tlaval.Rec(st["val"])
			fa := tlaval.Rec(v["fa"])
			c := castCase{ID: n, K: tlaval.Str(v["k"]), GK: tlaval.Str(v["gk"]), S: tlaval.Str(v["s"]), N: tlaval.Int(v["n"]),
				Fa: castFact{Pi: tlaval.Bool(fa["pi"]), I: tlaval.Str(fa["i"]), Pf: tlaval.Bool(fa["pf"]), F: tlaval.Str(fa["f"]), T: tlaval.Str(fa["t"]),
					Nz: tlaval.Bool(fa["nz"]), Pb: tlaval.Str(fa["pb"])},
				Acc: tlaval.Str(st["acc"]), Res: tlaval.Str(st["res"]), Seed: *seed}
			if (*only == "json" && c.K == "any") || (*only == "any" && c.K != "any") {
				return nil
			}
			for _, a := range strings.Split(*skipAcc, ",") {
				if a == c.Acc {
					return nil
				}
			}
			b, _ := json.Marshal(c)
			cases <- b
			return nil
		})
	}()
	err = workpool.Run(workpool.Options{Kind: "cast", Workers: *workers, Batch: 16, Env: env,
		OnResult: func(cl, rl []byte) {
			var r castRes
			if json.Unmarshal(rl, &r) != nil {
				return
			}
			S.Cases++
			dgs.add(r.ID, r.DG)
			S.Evals += r.Evals
			S.Reps += r.Reps
			S.Oracle += r.Oracle
			S.Unspec += r.Unspec
			var c castCase
			json.Unmarshal(cl, &c)
			if !strings.HasPrefix(c.Res, "E:") && c.Res != "ANY" {
				S.NonTrivial++
			}
			for _, b := range r.Bad {
				S.BadBySig[b.Sig]++
				if S.BadBySig[b.Sig] <= 3 && len(S.Bad) < 300 {
					S.Bad = append(S.Bad, b)
				}
			}
			if len(S.Samples) < 6 && S.Cases%173 == 7 {
				S.Samples = append(S.Samples, map[string]interface{}{"value": c.K + "/" + c.GK + ":" + c.S, "accessor": c.Acc, "required": c.Res})
			}
		},
		OnCrash: func(c workpool.Crash) {
			st := c.Stderr
			if len(st) > 1500 {
				st = st[len(st)-1500:]
			}
			S.Crashes = append(S.Crashes, c.Reason+": "+string(c.Case)+"\n"+st)
		}}, cases)
	if err != nil || perr != nil {
		fmt.Fprintln(os.Stderr, "cast:", err, perr)
		return 2
	}
	S.WallS = time.Since(t0).Seconds()
	dgs.write(*digests)
	b, _ := json.MarshalIndent(S, "", " ")
	if *out != "" {
		os.WriteFile(*out, b, 0o644)
	} else {
		os.Stdout.Write(b)
	}
	return 0
}

func init() {
	subcmds["cast"] = castMain
	workpool.Register("cast", castHandle)
}
