package main

// Positional decoder object (decoder.Decoder over a string) against spec/DecObj.tla: the values of
// the stream in order, Pos() after each of them, CheckTrailings() before the first and after each
// value, failure once no complete value follows, and Reset.  encoding/json.Decoder with
// InputOffset over the same bytes is the agreement oracle for the positions.

import (
	"bytes"
	"encoding/json"
	"fmt"
	"reflect"

	"github.com/bytedance/sonic/decoder"

	"verifharness/tlaval"
)

type decSteps struct {
	N   int    `json:"n"`
	Pos []int  `json:"pos"`
	CT  []bool `json:"ct"`
	Has bool   `json:"has"`
}

func toDecSteps(v interface{}) decSteps {
	if v == nil {
		return decSteps{}
	}
	m := tlaval.Rec(v)
	d := decSteps{N: tlaval.Int(m["n"]), Has: true}
	for _, p := range tlaval.Seq(m["pos"]) {
		d.Pos = append(d.Pos, tlaval.Int(p))
	}
	for _, p := range tlaval.Seq(m["ct"]) {
		d.CT = append(d.CT, tlaval.Bool(p))
	}
	return d
}

// stdPositions: byte offsets after each value according to encoding/json.Decoder
func stdPositions(b []byte, n int) ([]int, bool) {
	d := json.NewDecoder(bytes.NewReader(b))
	var out []int
	for i := 0; i < n; i++ {
		var v interface{}
		if d.Decode(&v) != nil {
			return nil, false
		}
		out = append(out, int(d.InputOffset()))
	}
	return out, true
}

// drivePositional returns (kind, detail); kind "" = conforms, "oracle" = the specification and encoding/json disagree
func drivePositional(b []byte, seg [][2]int, ds decSteps, want []interface{}) (kind, det string) {
	defer func() {
		if r := recover(); r != nil {
			kind, det = "obj_panic", fmt.Sprint(r)
		}
	}()
	if len(want) != ds.N || len(ds.Pos) != ds.N || len(ds.CT) != ds.N+1 {
		return "oracle", "shape of the specification's steps"
	}
	wantPos := make([]int, ds.N)
	for k := range wantPos {
		wantPos[k] = seg[ds.Pos[k]-1][1]
	}
	if sp, ok := stdPositions(b, ds.N); !ok || fmt.Sprint(sp) != fmt.Sprint(wantPos) {
		return "oracle", fmt.Sprintf("positions: specification %v, encoding/json %v", wantPos, sp)
	}
	s := string(b)
	for round := 0; round < 2; round++ {
		d := decoder.NewDecoder(s)
		if round == 1 {
			// a decoder that worked on something else first, then Reset
			d = decoder.NewDecoder(`{"other":[1,2,3]} 7`)
			var x interface{}
			d.Decode(&x)
			d.Reset(s)
			if d.Pos() != 0 {
				return "obj_reset_pos", fmt.Sprintf("Pos() = %d after Reset", d.Pos())
			}
		}
		if got := d.CheckTrailings() == nil; got != ds.CT[0] {
			return "obj_trailings", fmt.Sprintf("CheckTrailings before any Decode: succeeded=%v, want %v", got, ds.CT[0])
		}
		for k := 0; k < ds.N; k++ {
			var v interface{}
			if err := d.Decode(&v); err != nil {
				return "obj_missing_value", fmt.Sprintf("Decode #%d failed: %v", k+1, errDetail(err))
			}
			if !reflect.DeepEqual(v, want[k]) {
				return "obj_wrong_value", fmt.Sprintf("Decode #%d = %v, want %v", k+1, v, want[k])
			}
			if d.Pos() != wantPos[k] {
				return "obj_pos", fmt.Sprintf("Pos() after value #%d = %d, want %d", k+1, d.Pos(), wantPos[k])
			}
			if got := d.CheckTrailings() == nil; got != ds.CT[k+1] {
				return "obj_trailings", fmt.Sprintf("CheckTrailings after value #%d: succeeded=%v, want %v", k+1, got, ds.CT[k+1])
			}
		}
		// no complete value follows: the next Decode fails (what the object does after an error is not specified)
		var v interface{}
		if err := d.Decode(&v); err == nil {
			kind := "obj_extra_value"
			if unterminatedString(s[lastPos(wantPos):]) >= 32 {
				kind = "obj_extra_value_unterminated_string_ge32"
			}
			return kind, fmt.Sprintf("Decode #%d succeeded with %v at Pos %d although no complete value follows", ds.N+1, v, d.Pos())
		}
	}
	return "", ""
}

func lastPos(p []int) int {
	if len(p) == 0 {
		return 0
	}
	return p[len(p)-1]
}

// unterminatedString: rest = blanks, an opening quote and no closing quote: the number of bytes after the last escape
// sequence (or after the opening quote), -1 otherwise
func unterminatedString(rest string) int {
	i := 0
	for i < len(rest) && (rest[i] == ' ' || rest[i] == '\t' || rest[i] == '\n' || rest[i] == '\r') {
		i++
	}
	if i >= len(rest) || rest[i] != '"' {
		return -1
	}
	i++
	start := i
	for i < len(rest) {
		switch rest[i] {
		case '"':
			return -1
		case '\\':
			i += 2
			start = i
		default:
			i++
		}
	}
	if start > len(rest) {
		return -1
	}
	return len(rest) - start
}
