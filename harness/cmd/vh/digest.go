package main

// Observation digests: every worker can hash all it observed for a case (results, error texts,
// positions); the parent writes "id digest" lines.  Two runs of the same cases in different
// environments (SIMD level, decoder / encoder implementation) must produce identical digests:
// that is how C11 / C12 / C13 compare *everything observable* without shipping it around.

import (
	"bufio"
	"fmt"
	"os"
	"sort"
)

type obsDigest struct {
	sum uint64
	log []string
}

var curObs *obsDigest

func obsBegin() *obsDigest {
	curObs = &obsDigest{sum: 14695981039346656037}
	if os.Getenv("VERIF_OBS_LOG") != "" {
		curObs.log = []string{}
	}
	return curObs
}

func obsAdd(parts ...interface{}) {
	if curObs == nil {
		return
	}
	s := fmt.Sprint(parts...)
	for i := 0; i < len(s); i++ {
		curObs.sum ^= uint64(s[i])
		curObs.sum *= 1099511628211
	}
	curObs.sum ^= 0xff
	curObs.sum *= 1099511628211
	if curObs.log != nil && len(curObs.log) < 400 {
		if len(s) > 300 {
			s = s[:300]
		}
		curObs.log = append(curObs.log, s)
	}
}

type digestFile struct {
	m   map[int]uint64
	tag map[int]string
}

func (d *digestFile) add(id int, dg uint64) {
	if d.m == nil {
		d.m = map[int]uint64{}
	}
	d.m[id] = dg
}

// addTag attaches a class tag of the case (from the specification) to its digest line
func (d *digestFile) addTag(id int, tag string) {
	if d.tag == nil {
		d.tag = map[int]string{}
	}
	d.tag[id] = tag
}

func (d *digestFile) write(path string) {
	if path == "" {
		return
	}
	f, err := os.Create(path)
	if err != nil {
		return
	}
	defer f.Close()
	w := bufio.NewWriter(f)
	defer w.Flush()
	ids := make([]int, 0, len(d.m))
	for id := range d.m {
		ids = append(ids, id)
	}
	sort.Ints(ids)
	for _, id := range ids {
		tag := d.tag[id]
		if tag == "" {
			tag = "-"
		}
		fmt.Fprintf(w, "%d %016x %s\n", id, d.m[id], tag)
	}
}
