package main

// emit: replay of the encoding universe of spec/GenEmit.tla (properties C03, C04, C12, C18-encoder).
// Each TLC state is one case (type, value, addressability of the top-level value, option set, the
// document Marshal must emit or the error, and the value decoding that document must give).
// The value is built with reflect (a fresh encoder program per distinct type) and encoded by
// sonic under the frozen Config of the option set; encoding/json is the oracle where the option
// set has a std equivalent (specification and encoding/json must agree, else no verdict).
// Texts are compared token by token: same tokens in the same order, identical number literals,
// string literals denoting the same bytes.

import (
	"bytes"
	"encoding/json"
	"flag"
	"fmt"
	"os"
	"reflect"
	"runtime"
	"sort"
	"strconv"
	"strings"
	"time"
	"unicode/utf16"
	"unicode/utf8"

	"github.com/bytedance/sonic"

	"verifharness/tlaval"
	"verifharness/workpool"
)

// ---- marshaler zoo ----

func rawQuote(s string) string {
	var b bytes.Buffer
	e := json.NewEncoder(&b)
	e.SetEscapeHTML(false)
	e.Encode(s)
	return strings.TrimSuffix(b.String(), "\n")
}

type MJV struct{ S string }

func (m MJV) MarshalJSON() ([]byte, error) { return []byte(`{"mj":` + rawQuote(m.S) + `}`), nil }

type MJP struct{ S string }

func (m *MJP) MarshalJSON() ([]byte, error) { return []byte(`{"mj":` + rawQuote(m.S) + `}`), nil }

type MTV struct{ S string }

func (m MTV) MarshalText() ([]byte, error) { return []byte("mt:" + m.S), nil }

type MTP struct{ S string }

func (m *MTP) MarshalText() ([]byte, error) { return []byte("mt:" + m.S), nil }

type MTN struct{ S string }

func (m MTN) MarshalText() ([]byte, error) { return []byte("12"), nil }

type MJE struct{ S string }

func (m MJE) MarshalJSON() ([]byte, error) { return nil, fmt.Errorf("mje refuses") }

type MJBad struct{ S string }

func (m MJBad) MarshalJSON() ([]byte, error) { return []byte(`{"a":`), nil }

type MJWS struct{ S string }

func (m MJWS) MarshalJSON() ([]byte, error) { return []byte(" { \"mj\" : [ 7 ,\n\t12 ] } "), nil }

// marshalers with value receivers on types whose interface data word is the value itself (a struct of one pointer, an array of
// one pointer, a map): building the interface for the call has to load the word instead of taking its address
type MTD struct{ P *string }

func (m MTD) MarshalText() ([]byte, error) { return []byte("mt:" + *m.P), nil }

type MJD struct{ P *string }

func (m MJD) MarshalJSON() ([]byte, error) { return []byte(`{"mj":` + rawQuote(*m.P) + `}`), nil }

type MTA [1]*string

func (m MTA) MarshalText() ([]byte, error) { return []byte("mt:" + *m[0]), nil }

type MTM map[string]string

func (m MTM) MarshalText() ([]byte, error) { return []byte("mt:" + m["s"]), nil }

func init() {
	zooTypes["mtd"], zooTypes["mjd"], zooTypes["mta"], zooTypes["mtm"] = reflect.TypeOf(MTD{}), reflect.TypeOf(MJD{}), reflect.TypeOf(MTA{}), reflect.TypeOf(MTM{})
	str := func(v map[string]interface{}) *string { s := strLit[sstr(v["c"])][1]; return &s }
	zooBuild["mtd"] = func(rt reflect.Type, v map[string]interface{}) reflect.Value { return reflect.ValueOf(MTD{str(v)}) }
	zooBuild["mjd"] = func(rt reflect.Type, v map[string]interface{}) reflect.Value { return reflect.ValueOf(MJD{str(v)}) }
	zooBuild["mta"] = func(rt reflect.Type, v map[string]interface{}) reflect.Value { return reflect.ValueOf(MTA{str(v)}) }
	zooBuild["mtm"] = func(rt reflect.Type, v map[string]interface{}) reflect.Value { return reflect.ValueOf(MTM{"s": *str(v)}) }
}

func init() {
	for k, t := range map[string]reflect.Type{"mjv": reflect.TypeOf(MJV{}), "mjp": reflect.TypeOf(MJP{}), "mtv": reflect.TypeOf(MTV{}),
		"mtp": reflect.TypeOf(MTP{}), "mtn": reflect.TypeOf(MTN{}), "mje": reflect.TypeOf(MJE{}), "mjbad": reflect.TypeOf(MJBad{}), "mjws": reflect.TypeOf(MJWS{})} {
		zooTypes[k] = t
		zooBuild[k] = func(rt reflect.Type, v map[string]interface{}) reflect.Value {
			out := reflect.New(rt).Elem()
			out.Field(0).SetString(strLit[sstr(v["c"])][1])
			return out
		}
	}
	numLit["f1e21"], numLit["f1e20"], numLit["f1em6"], numLit["f1em7"] = "1e21", "1e20", "0.000001", "0.0000001"
	numLit["nan"], numLit["inf"], numLit["ninf"] = "NaN", "+Inf", "-Inf"
	xLit["xmjbad"] = `{"a":`
	strLit["sbadfix"] = [2]string{`"a�b"`, "a�b"}
}

// ---- strict tokenizer: the comparison of C03 and the well-formedness of C04 ----

type jtok struct {
	k byte   // { } [ ] : , n s l
	s string // number literal, string content (raw bytes), literal name
}

func jsonTokens(b []byte) ([]jtok, error) {
	var out []jtok
	i := 0
	depth := 0
	for i < len(b) {
		c := b[i]
		switch {
		case c == ' ' || c == '\t' || c == '\n' || c == '\r':
			i++
		case c == '{' || c == '[':
			depth++
			out = append(out, jtok{k: c})
			i++
		case c == '}' || c == ']':
			depth--
			out = append(out, jtok{k: c})
			i++
		case c == ':' || c == ',':
			out = append(out, jtok{k: c})
			i++
		case c == '"':
			s, n, err := unquoteJSON(b[i:])
			if err != nil {
				return nil, fmt.Errorf("at %d: %v", i, err)
			}
			out = append(out, jtok{k: 's', s: s})
			i += n
		case c == '-' || (c >= '0' && c <= '9'):
			j := i
			for j < len(b) && strings.IndexByte("+-0123456789.eE", b[j]) >= 0 {
				j++
			}
			out = append(out, jtok{k: 'n', s: string(b[i:j])})
			i = j
		case c == 't' || c == 'f' || c == 'n':
			j := i
			for j < len(b) && b[j] >= 'a' && b[j] <= 'z' {
				j++
			}
			w := string(b[i:j])
			if w != "true" && w != "false" && w != "null" {
				return nil, fmt.Errorf("at %d: bad literal %q", i, w)
			}
			out = append(out, jtok{k: 'l', s: w})
			i = j
		default:
			return nil, fmt.Errorf("at %d: unexpected byte %q", i, c)
		}
	}
	if depth != 0 {
		return nil, fmt.Errorf("unbalanced")
	}
	return out, nil
}

// unquoteJSON decodes one JSON string literal keeping raw bytes (invalid UTF-8 stays as it is)
func unquoteJSON(b []byte) (string, int, error) {
	var sb []byte
	i := 1
	for i < len(b) {
		c := b[i]
		switch {
		case c == '"':
			return string(sb), i + 1, nil
		case c < 0x20:
			return "", 0, fmt.Errorf("control character in string")
		case c == '\\':
			if i+1 >= len(b) {
				return "", 0, fmt.Errorf("truncated escape")
			}
			i++
			switch b[i] {
			case '"', '\\', '/':
				sb = append(sb, b[i])
			case 'b':
				sb = append(sb, '\b')
			case 'f':
				sb = append(sb, '\f')
			case 'n':
				sb = append(sb, '\n')
			case 'r':
				sb = append(sb, '\r')
			case 't':
				sb = append(sb, '\t')
			case 'u':
				if i+4 >= len(b) {
					return "", 0, fmt.Errorf("truncated \\u")
				}
				r, err := strconv.ParseUint(string(b[i+1:i+5]), 16, 32)
				if err != nil {
					return "", 0, err
				}
				i += 4
				rr := rune(r)
				if utf16.IsSurrogate(rr) && i+6 < len(b) && b[i+1] == '\\' && b[i+2] == 'u' {
					r2, err := strconv.ParseUint(string(b[i+3:i+7]), 16, 32)
					if err == nil {
						if d := utf16.DecodeRune(rr, rune(r2)); d != utf8.RuneError {
							rr = d
							i += 6
						}
					}
				}
				var tmp [4]byte
				n := utf8.EncodeRune(tmp[:], rr)
				sb = append(sb, tmp[:n]...)
			default:
				return "", 0, fmt.Errorf("bad escape \\%c", b[i])
			}
			i++
		default:
			sb = append(sb, c)
			i++
		}
	}
	return "", 0, fmt.Errorf("unterminated string")
}

// canonical form of a token list; unordered sorts the members of every object by key
func tokensEqual(a, b []jtok) bool {
	if len(a) != len(b) {
		return false
	}
	for i := range a {
		if a[i] != b[i] {
			return false
		}
	}
	return true
}

type jnode struct {
	tok  jtok
	kids []*jnode // array elements, or key/value pairs flattened
}

func parseTokens(t []jtok, i int) (*jnode, int, error) {
	if i >= len(t) {
		return nil, i, fmt.Errorf("unexpected end")
	}
	switch t[i].k {
	case '{':
		n := &jnode{tok: t[i]}
		i++
		if i < len(t) && t[i].k == '}' {
			return n, i + 1, nil
		}
		for {
			if i >= len(t) || t[i].k != 's' {
				return nil, i, fmt.Errorf("object key expected")
			}
			key := &jnode{tok: t[i]}
			i++
			if i >= len(t) || t[i].k != ':' {
				return nil, i, fmt.Errorf("colon expected")
			}
			v, j, err := parseTokens(t, i+1)
			if err != nil {
				return nil, j, err
			}
			n.kids = append(n.kids, key, v)
			i = j
			if i < len(t) && t[i].k == ',' {
				i++
				continue
			}
			if i < len(t) && t[i].k == '}' {
				return n, i + 1, nil
			}
			return nil, i, fmt.Errorf("comma or brace expected")
		}
	case '[':
		n := &jnode{tok: t[i]}
		i++
		if i < len(t) && t[i].k == ']' {
			return n, i + 1, nil
		}
		for {
			v, j, err := parseTokens(t, i)
			if err != nil {
				return nil, j, err
			}
			n.kids = append(n.kids, v)
			i = j
			if i < len(t) && t[i].k == ',' {
				i++
				continue
			}
			if i < len(t) && t[i].k == ']' {
				return n, i + 1, nil
			}
			return nil, i, fmt.Errorf("comma or bracket expected")
		}
	case 'n', 's', 'l':
		return &jnode{tok: t[i]}, i + 1, nil
	}
	return nil, i, fmt.Errorf("unexpected token %q", t[i].k)
}

// parseStrict: exactly one well-formed JSON value, nothing after it
func parseStrict(b []byte) (*jnode, error) {
	t, err := jsonTokens(b)
	if err != nil {
		return nil, err
	}
	n, i, err := parseTokens(t, 0)
	if err != nil {
		return nil, err
	}
	if i != len(t) {
		return nil, fmt.Errorf("trailing tokens after the value")
	}
	return n, nil
}

func (n *jnode) canon(sb *strings.Builder, unordered bool) {
	switch n.tok.k {
	case '{':
		type kv struct {
			k string
			v *jnode
		}
		var ms []kv
		for i := 0; i+1 < len(n.kids); i += 2 {
			ms = append(ms, kv{n.kids[i].tok.s, n.kids[i+1]})
		}
		if unordered {
			sort.SliceStable(ms, func(i, j int) bool { return ms[i].k < ms[j].k })
		}
		sb.WriteByte('{')
		for _, m := range ms {
			sb.WriteString(strconv.Quote(m.k))
			sb.WriteByte(':')
			m.v.canon(sb, unordered)
			sb.WriteByte(',')
		}
		sb.WriteByte('}')
	case '[':
		sb.WriteByte('[')
		for _, k := range n.kids {
			k.canon(sb, unordered)
			sb.WriteByte(',')
		}
		sb.WriteByte(']')
	case 's':
		if looseStrings && len(n.tok.s) > 1 && n.tok.s[0] == '"' {
			if in, err := parseStrict([]byte(n.tok.s)); err == nil {
				sb.WriteString("qs:")
				in.canon(sb, unordered)
				return
			}
		}
		sb.WriteString(strconv.Quote(n.tok.s))
	default:
		sb.WriteString(n.tok.s)
	}
}

// looseStrings: a string whose content is itself a JSON text is compared as that JSON value (the spelling of the text inside a
// `,string` literal is fixed only by encoding/json's own behaviour, i.e. for the std-compatible option sets)
var looseStrings = false

func canonJSONText(b []byte, unordered bool) (string, error) {
	n, err := parseStrict(b)
	if err != nil {
		return "", err
	}
	var sb strings.Builder
	n.canon(&sb, unordered)
	return sb.String(), nil
}

// big maps: n keys sharing a prefix of p bytes (digits, so that integer key kinds can hold them), values = index
func bigMapKeys(n, p int, kind string) []string {
	prefix := ""
	for i := 0; i < p; i++ {
		prefix += string(rune('1' + (i*3)%8))
	}
	keys := make([]string, n)
	for i := 0; i < n; i++ {
		suf := fmt.Sprint((i*7919 + 13) % 100003)
		if kind == "str" || kind == "txt" {
			if i%3 == 0 {
				suf = "k" + suf
			}
		}
		keys[i] = prefix + suf
	}
	return keys
}

func init() { bigMapHook = buildBigMap }

func buildBigMap(t, v map[string]interface{}) reflect.Value {
	rt := goType(t)
	kind := sstr(t["key"])
	m := reflect.MakeMap(rt)
	for i, k := range bigMapKeys(intOf(v["n"]), intOf(v["p"]), kind) {
		m.SetMapIndex(buildKey(kind, k), reflect.ValueOf(i))
	}
	return m
}

// ---- expected text from the specification's document ----

func stdScalar(v interface{}, html bool) string {
	var b bytes.Buffer
	e := json.NewEncoder(&b)
	e.SetEscapeHTML(html)
	if err := e.Encode(v); err != nil {
		return "<" + err.Error() + ">"
	}
	return strings.TrimSuffix(b.String(), "\n")
}

func renderOut(sb *strings.Builder, d map[string]interface{}, html bool) {
	switch sstr(d["j"]) {
	case "null":
		sb.WriteString("null")
	case "t":
		sb.WriteString("true")
	case "f":
		sb.WriteString("false")
	case "n":
		lit := numText(sstr(d["c"]))
		switch sstr(d["as"]) {
		case "f32":
			f, _ := strconv.ParseFloat(lit, 32)
			sb.WriteString(stdScalar(float32(f), html))
		case "f64":
			f, _ := strconv.ParseFloat(lit, 64)
			sb.WriteString(stdScalar(f, html))
		default:
			sb.WriteString(lit)
		}
	case "s":
		if sstr(d["c"]) == "sbad" {
			// the invalid byte as it is (no validation was asked for): encoding/json cannot spell this text
			sb.WriteString("\"a\xffb\"")
			break
		}
		sb.WriteString(stdScalar(strLit[sstr(d["c"])][1], html))
	case "ts":
		sb.WriteString(stdScalar("mt:"+strLit[sstr(d["c"])][1], html))
	case "qs":
		var in strings.Builder
		renderOut(&in, rec(d["d"]), html)
		if q := stdScalar(in.String(), html); utf8.ValidString(in.String()) {
			sb.WriteString(q)
		} else {
			// quoting leaves an invalid byte as it is (encoding/json would replace it): quote the valid form and put the byte back
			sb.WriteString(strings.Replace(stdScalar(strings.ToValidUTF8(in.String(), "\x00BAD\x00"), html), `\u0000BAD\u0000`, "\xff", -1))
		}
	case "a":
		sb.WriteByte('[')
		for i, e := range seqOf(d["e"]) {
			if i > 0 {
				sb.WriteByte(',')
			}
			renderOut(sb, rec(e), html)
		}
		sb.WriteByte(']')
	case "o":
		sb.WriteByte('{')
		for i, e := range seqOf(d["m"]) {
			if i > 0 {
				sb.WriteByte(',')
			}
			sb.WriteString(stdScalar(sstr(rec(e)["k"]), html))
			sb.WriteByte(':')
			renderOut(sb, rec(rec(e)["v"]), html)
		}
		sb.WriteByte('}')
	case "bm":
		keys := bigMapKeys(intOf(d["n"]), intOf(d["p"]), sstr(d["key"]))
		idx := map[string]int{}
		for i, k := range keys {
			idx[k] = i
		}
		sort.Strings(keys)
		sb.WriteByte('{')
		for i, k := range keys {
			if i > 0 {
				sb.WriteByte(',')
			}
			sb.WriteString(stdScalar(k, html))
			sb.WriteByte(':')
			sb.WriteString(fmt.Sprint(idx[k]))
		}
		sb.WriteByte('}')
	case "x":
		sb.WriteString(xLit[sstr(d["c"])])
	case "xt":
		sb.WriteString("mt:" + strLit[sstr(d["c"])][1])
	}
}

// ---- the replay ----

type emitBad struct {
	Kind string          `json:"kind"`
	Type string          `json:"type"`
	Val  string          `json:"val"`
	Top  string          `json:"top"`
	Opts string          `json:"opts"`
	Want string          `json:"want"`
	Got  string          `json:"got"`
	Feat map[string]bool `json:"feat"`
	Sig  string          `json:"sig"`
}

type emitRes struct {
	ID     int       `json:"id"`
	DG     uint64    `json:"dg"`
	Evals  int       `json:"evals"`
	Oracle []emitBad `json:"oracle,omitempty"`
	Bad    []emitBad `json:"bad,omitempty"`
	NoStd  int       `json:"nostd"`
	Progs  int       `json:"progs"`
	RT     int       `json:"roundtrips"`
	Detail *emitBad  `json:"detail,omitempty"`
}

func encConfig(o map[string]interface{}) sonic.Config {
	b := func(k string) bool { v, _ := o[k].(bool); return v }
	return sonic.Config{EscapeHTML: b("html"), SortMapKeys: b("sort"), CompactMarshaler: b("compact"), NoQuoteTextMarshaler: b("noquote"),
		NoNullSliceOrMap: b("nonull"), ValidateString: b("vs"), NoValidateJSONMarshaler: b("novalid"), EncodeNullForInfOrNan: b("nanull"),
		CopyString: true}
}

var encAPICache = map[string]sonic.API{}

func encAPI(o map[string]interface{}) sonic.API {
	key := encOptsSig(o)
	if a, ok := encAPICache[key]; ok {
		return a
	}
	a := encConfig(o).Froze()
	encAPICache[key] = a
	return a
}

func encOptsSig(o map[string]interface{}) string {
	var on []string
	for _, k := range []string{"html", "sort", "compact", "noquote", "nonull", "vs", "novalid", "nanull"} {
		if v, _ := o[k].(bool); v {
			on = append(on, k)
		}
	}
	return strings.Join(on, "+")
}

func valSig(v map[string]interface{}) string {
	switch sstr(v["g"]) {
	case "nil":
		return "nil"
	case "b":
		return fmt.Sprint(v["b"])
	case "n", "s", "by", "z":
		return sstr(v["c"])
	case "raw":
		return "raw(" + docSig(rec(v["d"])) + ")"
	case "bm":
		return fmt.Sprintf("bigmap(n=%d,prefix=%d)", intOf(v["n"]), intOf(v["p"]))
	case "p":
		return "&" + valSig(rec(v["e"]))
	case "i":
		return "(" + typeSig(rec(v["t"])) + ")" + valSig(rec(v["v"]))
	case "a":
		var p []string
		for _, e := range seqOf(v["e"]) {
			p = append(p, valSig(rec(e)))
		}
		return "[" + strings.Join(p, " ") + "]"
	case "m":
		var p []string
		for _, e := range seqOf(v["m"]) {
			p = append(p, sstr(rec(e)["k"])+":"+valSig(rec(rec(e)["v"])))
		}
		sort.Strings(p)
		return "{" + strings.Join(p, " ") + "}"
	case "st":
		var p []string
		for _, e := range seqOf(v["f"]) {
			p = append(p, valSig(rec(e)))
		}
		return "<" + strings.Join(p, " ") + ">"
	}
	return "?"
}

func emitFeatures(t, v map[string]interface{}, top string, o map[string]interface{}) map[string]bool {
	f := map[string]bool{"top_" + top: true}
	var walkT func(t map[string]interface{})
	walkT = func(t map[string]interface{}) {
		k := sstr(t["k"])
		switch k {
		case "map":
			f["map"] = true
			f["map_"+sstr(t["key"])] = true
			walkT(rec(t["e"]))
		case "ptr", "slice", "arr":
			f[k] = true
			walkT(rec(t["e"]))
		case "st":
			f["struct"] = true
			for _, fd := range seqOf(t["f"]) {
				fm := rec(fd)
				if tg := sstr(fm["tag"]); tg != "none" {
					f["tag_"+tg] = true
				}
				walkT(rec(fm["t"]))
			}
		default:
			f[k] = true
		}
	}
	var walkV func(v map[string]interface{})
	walkV = func(v map[string]interface{}) {
		switch sstr(v["g"]) {
		case "n", "s", "by", "z":
			f["v_"+sstr(v["c"])] = true
			if sstr(v["c"]) == "slong" {
				// features describe the content: the long class holds HTML-sensitive characters and U+2028 as well
				f["v_shtml"], f["v_sls"] = true, true
			}
		case "nil":
			f["v_nil"] = true
		case "p":
			walkV(rec(v["e"]))
		case "i":
			f["dyn"] = true
			walkT(rec(v["t"]))
			walkV(rec(v["v"]))
		case "a":
			for _, e := range seqOf(v["e"]) {
				walkV(rec(e))
			}
		case "m":
			for _, e := range seqOf(v["m"]) {
				walkV(rec(rec(e)["v"]))
			}
		case "st":
			for _, e := range seqOf(v["f"]) {
				walkV(rec(e))
			}
		case "raw":
			f["v_raw_"+docSig(rec(v["d"]))] = true
		case "bm":
			f["v_bigmap"] = true
		}
	}
	walkT(t)
	walkV(v)
	for _, k := range []string{"html", "sort", "compact", "noquote", "nonull", "vs", "novalid", "nanull"} {
		if b, _ := o[k].(bool); b {
			f["o_"+k] = true
		}
	}
	if f["mjp"] || f["mtp"] {
		f["ptr_receiver_marshaler"] = true
	}
	if f["tag_str"] || f["tag_omitstr"] {
		f["tag_string"] = true
	}
	if f["tag_omit"] || f["tag_omitstr"] {
		f["tag_omitempty"] = true
	}
	if f["mtv"] || f["mtp"] || f["mtd"] || f["mta"] || f["mtm"] {
		f["text_marshaler"] = true
	}
	return f
}

func safeMarshal(f func() ([]byte, error)) (out []byte, err error, panicked string) {
	defer func() {
		if r := recover(); r != nil {
			panicked = fmt.Sprint(r)
		}
	}()
	out, err = f()
	return
}

func clip(s string, n int) string {
	if len(s) > n {
		return s[:n] + "..."
	}
	return s
}

func emitHandle(in []byte) []byte {
	var c map[string]interface{}
	if err := json.Unmarshal(in, &c); err != nil {
		return []byte(`{"error":"bad case"}`)
	}
	res := emitRes{ID: intOf(c["id"])}
	od := obsBegin()
	if c["detail"] == true && od.log == nil {
		od.log = []string{}
	}
	// for the encoder the class "sbad" is a Go string that really holds an invalid UTF-8 byte (the decoding universe, in its
	// own worker processes, uses the same name for what such a literal decodes to)
	strLit["sbad"] = [2]string{"\"a\xffb\"", "a\xffb"}
	T, V, o, E, RV := rec(c["T"]), rec(c["V"]), rec(c["o"]), rec(c["E"]), rec(c["RV"])
	top := sstr(c["top"])
	np := len(programs)
	rt := goType(T)
	buildWS = 0
	tsig, vsig, osig := typeSig(T), valSig(V), encOptsSig(o)
	mk := func(kind, want, got string) emitBad {
		return emitBad{Kind: kind, Type: tsig, Val: vsig, Top: top, Opts: osig, Want: clip(want, 300), Got: clip(got, 300), Feat: emitFeatures(T, V, top, o),
			Sig: kind + "|" + tsig + "|" + vsig + "|" + top}
	}
	bad := func(b emitBad) {
		if len(res.Bad) < 6 {
			res.Bad = append(res.Bad, b)
		}
	}
	mkArg := func() interface{} {
		rv := build(T, V)
		if top == "ptr" {
			p := reflect.New(rt)
			p.Elem().Set(rv)
			return p.Interface()
		}
		return rv.Interface()
	}
	ob := func(k string) bool { v, _ := o[k].(bool); return v }
	api := encAPI(o)
	wantErr := E["err"].(bool)
	var wantText string
	if !wantErr {
		var sb strings.Builder
		renderOut(&sb, rec(E["d"]), ob("html"))
		wantText = sb.String()
	}
	res.Evals++
	malformedExpected := false
	unordered := !ob("sort")
	same := func(a, b []byte) bool {
		if !unordered {
			return bytes.Equal(a, b)
		}
		x, e1 := canonJSONText(a, true)
		y, e2 := canonJSONText(b, true)
		return e1 == nil && e2 == nil && x == y
	}

	// the oracle, where the option set has an encoding/json equivalent
	haveStd := !ob("nonull") && !ob("nanull") && !ob("novalid") && !ob("noquote") && ob("vs") && ob("compact")
	var stdOut []byte
	var stdErr error
	if haveStd {
		var b bytes.Buffer
		e := json.NewEncoder(&b)
		e.SetEscapeHTML(ob("html"))
		stdErr = e.Encode(mkArg())
		stdOut = bytes.TrimSuffix(b.Bytes(), []byte("\n"))
		agree := (stdErr != nil) == wantErr
		if agree && !wantErr {
			a, e1 := canonJSONText(stdOut, !ob("sort"))
			w, e2 := canonJSONText([]byte(wantText), !ob("sort"))
			agree = e1 == nil && e2 == nil && a == w
		}
		if !agree {
			res.Oracle = append(res.Oracle, mk("oracle", fmt.Sprintf("spec err=%v %s", wantErr, wantText), fmt.Sprintf("std err=%v %s", stdErr, stdOut)))
			res.DG = od.sum
			out, _ := json.Marshal(res)
			return out
		}
	} else {
		res.NoStd++
	}

	// sonic
	got, errX, pan := safeMarshal(func() ([]byte, error) { return api.Marshal(mkArg()) })
	if obsText := string(got); unordered {
		// map iteration order is not an observation: digest the key-sorted form
		if c, err := canonJSONText(got, true); err == nil {
			obsText = c
		} else {
			// text that is not JSON (validation disabled on request, or a known finding): the multiset of its bytes
			bs := []byte(obsText)
			sort.Slice(bs, func(i, j int) bool { return bs[i] < bs[j] })
			obsText = string(bs)
		}
		obsAdd(errX == nil, obsText, pan)
	} else {
		obsAdd(errX == nil, obsText, pan)
	}
	switch {
	case pan != "":
		bad(mk("panic", "no panic", pan))
	case wantErr && errX == nil:
		bad(mk("error_required", "an error", string(got)))
	case !wantErr && errX != nil:
		bad(mk("valid_rejected", wantText, firstLine(errX.Error())))
	case !wantErr:
		looseStrings = !haveStd
		g, e1 := canonJSONText(got, !ob("sort"))
		w, e0 := canonJSONText([]byte(wantText), !ob("sort"))
		looseStrings = false
		if e0 != nil {
			// validation disabled on request and the marshaler's text is not JSON: it is passed through as it is
			malformedExpected = true
		} else if e1 != nil {
			bad(mk("malformed_output", wantText, string(got)+"  ("+e1.Error()+")"))
		} else if g != w {
			bad(mk("text_differs", wantText, string(got)))
		} else if !json.Valid(got) {
			bad(mk("malformed_output", "text accepted by encoding/json.Valid", string(got)))
		}
	}
	if p := errWF(errX, 0); p != "" && !strings.Contains(p, "position") {
		bad(mk("error_not_wellformed", "usable error", p))
	}
	if errX == nil && pan == "" && len(res.Bad) == 0 && !malformedExpected {
		// C04: decoding the text again, with both decoders, gives the value the specification computes
		if g := sstr(rec(RV["v"])["g"]); g != "none" && g != "" && !wantErr {
			// (a string holding invalid UTF-8 comes back repaired: the round trip is promised for valid UTF-8 only)
			keep := strLit["sbad"]
			strLit["sbad"] = strLit["sbadfix"]
			want := build(T, rec(RV["v"]))
			strLit["sbad"] = keep
			for di := 0; di < 2; di++ {
				p := reflect.New(rt)
				var derr error
				dpan := ""
				func() {
					defer func() {
						if r := recover(); r != nil {
							dpan = fmt.Sprint(r)
						}
					}()
					if di == 0 {
						derr = sonic.ConfigStd.Unmarshal(got, p.Interface())
					} else {
						derr = json.Unmarshal(got, p.Interface())
					}
				}()
				res.RT++
				name := []string{"sonic", "encoding/json"}[di]
				if dpan != "" || derr != nil {
					bad(mk("roundtrip_fails", showValue(want), fmt.Sprintf("%s cannot decode %s: %v %s", name, got, derr, dpan)))
				} else if !rtEqual(p.Elem(), want) {
					bad(mk("roundtrip_differs", showValue(want), fmt.Sprintf("%s decodes %s to %s", name, got, showValue(p.Elem()))))
				}
			}
		}
		// C18: alternative entry points
		if s, err := api.MarshalToString(mkArg()); err != nil || !same([]byte(s), got) {
			bad(mk("entrypoint_mismatch", string(got), fmt.Sprintf("MarshalToString: %v %s", err, s)))
		}
		if ind, err := api.MarshalIndent(mkArg(), "", "  "); true {
			if !unordered {
				obsAdd("MarshalIndent", err == nil, string(ind)) // (ordered outputs only: map iteration order is not an observation)
			}
			var w bytes.Buffer
			e2 := json.Indent(&w, got, "", "  ")
			if err != nil || e2 != nil || !same(ind, w.Bytes()) || (unordered && len(ind) != w.Len()) {
				bad(mk("entrypoint_mismatch", w.String(), fmt.Sprintf("MarshalIndent: %v %s", err, ind)))
			}
		}
		{
			var w bytes.Buffer
			err := api.NewEncoder(&w).Encode(mkArg())
			if !unordered {
				obsAdd("Encoder.Encode", err == nil, w.String())
			}
			if err != nil || !strings.HasSuffix(w.String(), "\n") || !same(bytes.TrimSuffix(w.Bytes(), []byte("\n")), got) {
				bad(mk("entrypoint_mismatch", string(got)+"\\n", fmt.Sprintf("Encoder.Encode: %v %q", err, w.String())))
			}
		}
		// C18: textual option laws relative to this option set
		flip := func(k string, on bool) ([]byte, error) {
			o2 := map[string]interface{}{}
			for kk, vv := range o {
				o2[kk] = vv
			}
			o2[k] = on
			out, err, p := safeMarshal(func() ([]byte, error) { return encAPI(o2).Marshal(mkArg()) })
			if p != "" {
				return nil, fmt.Errorf("panic: %s", p)
			}
			return out, err
		}
		if off, e1 := flip("html", false); e1 == nil {
			if on, e2 := flip("html", true); e2 != nil {
				bad(mk("html_law", "EscapeHTML changes no error", e2.Error()))
			} else {
				var w bytes.Buffer
				json.HTMLEscape(&w, off)
				if !same(w.Bytes(), on) || len(on) != w.Len() {
					bad(mk("html_law", w.String(), string(on)))
				}
			}
		}
		if off, e1 := flip("sort", false); e1 == nil {
			if on, e2 := flip("sort", true); e2 != nil {
				bad(mk("sort_law", "SortMapKeys changes no error", e2.Error()))
			} else {
				// only the order of map keys may change (that the keys are in byte order when the option is on is the
				// ordered comparison with the specification's document above)
				a, _ := canonJSONText(off, true)
				b, _ := canonJSONText(on, true)
				if a != b || len(off) != len(on) {
					bad(mk("sort_law", a, b))
				}
			}
		}
		if off, e1 := flip("compact", false); e1 == nil && !ob("novalid") {
			if on, e2 := flip("compact", true); e2 != nil {
				bad(mk("compact_law", "CompactMarshaler changes no error", e2.Error()))
			} else {
				var w bytes.Buffer
				if err := json.Compact(&w, off); err != nil || !same(w.Bytes(), on) || len(on) != w.Len() {
					bad(mk("compact_law", w.String(), string(on)))
				}
			}
		}
	}
	if c["detail"] == true {
		d := mk("detail", fmt.Sprintf("err=%v %s", wantErr, wantText), strings.Join(od.log, " ; "))
		res.Detail = &d
	}
	res.Progs = len(programs) - np
	res.DG = od.sum
	out, _ := json.Marshal(res)
	return out
}

var rawMessageType = reflect.TypeOf(json.RawMessage(nil))

// rtEqual is reflect.DeepEqual except that json.RawMessage values are compared as JSON texts
// (the spelling of escapes inside a raw message is not part of its value)
func rtEqual(a, b reflect.Value) bool {
	if a.Type() != b.Type() {
		return false
	}
	if a.Type() == rawMessageType {
		if a.IsNil() || b.IsNil() {
			return a.IsNil() == b.IsNil()
		}
		x, e1 := canonJSONText(a.Bytes(), false)
		y, e2 := canonJSONText(b.Bytes(), false)
		return e1 == nil && e2 == nil && x == y
	}
	switch a.Kind() {
	case reflect.Ptr, reflect.Interface:
		if a.IsNil() || b.IsNil() {
			return a.IsNil() == b.IsNil()
		}
		return rtEqual(a.Elem(), b.Elem())
	case reflect.Slice:
		if a.IsNil() != b.IsNil() {
			return false
		}
		fallthrough
	case reflect.Array:
		if a.Len() != b.Len() {
			return false
		}
		for i := 0; i < a.Len(); i++ {
			if !rtEqual(a.Index(i), b.Index(i)) {
				return false
			}
		}
		return true
	case reflect.Map:
		if a.IsNil() != b.IsNil() || a.Len() != b.Len() {
			return false
		}
		for _, k := range a.MapKeys() {
			bv := b.MapIndex(k)
			if !bv.IsValid() || !rtEqual(a.MapIndex(k), bv) {
				return false
			}
		}
		return true
	case reflect.Struct:
		for i := 0; i < a.NumField(); i++ {
			if !rtEqual(a.Field(i), b.Field(i)) {
				return false
			}
		}
		return true
	}
	return reflect.DeepEqual(a.Interface(), b.Interface())
}

type emitSummary struct {
	Cases     int            `json:"cases"`
	Evals     int            `json:"evals"`
	Programs  int            `json:"programs"`
	NoStd     int            `json:"no_std_oracle"`
	RT        int            `json:"roundtrips"`
	Oracle    int            `json:"oracle_disagreements"`
	OracleEx  []emitBad      `json:"oracle_examples,omitempty"`
	OracleSig map[string]int `json:"oracle_by_sig,omitempty"`
	Bad       []emitBad      `json:"bad"`
	BadBySig  map[string]int `json:"bad_by_sig"`
	Crashes   []string       `json:"crashes"`
	Samples   []string       `json:"samples"`
	Wall      float64        `json:"wall_s"`
}

func emitMain(args []string) int {
	fs := flag.NewFlagSet("emit", flag.ExitOnError)
	dumps := fs.String("dump", "", "comma separated TLC dumps of GenEmit")
	out := fs.String("out", "", "summary")
	seed := fs.Int64("seed", 1, "seed")
	workers := fs.Int("workers", runtime.NumCPU(), "workers")
	envs := fs.String("env", "", "comma separated KEY=VALUE for the workers")
	digests := fs.String("digests", "", "write per-case observation digests to this file")
	only := fs.String("only", "", "file with case ids: replay only these, with observation details")
	detail := fs.String("detail", "", "ndjson output of the per-case details (with -only)")
	fs.Parse(args)
	onlyIDs := map[int]bool{}
	if *only != "" {
		b, _ := os.ReadFile(*only)
		for _, f := range strings.Fields(string(b)) {
			var n int
			fmt.Sscan(f, &n)
			onlyIDs[n] = true
		}
	}
	var details []emitBad
	t0 := time.Now()
	var dgs digestFile
	S := emitSummary{BadBySig: map[string]int{}, OracleSig: map[string]int{}}
	var env []string
	if *envs != "" {
		env = strings.Split(*envs, ",")
	}
	cases := make(chan []byte, 1024)
	var perr error
	go func() {
		defer close(cases)
		id := 0
		for _, d := range strings.Split(*dumps, ",") {
			if d == "" {
				continue
			}
			f, err := os.Open(d)
			if err != nil {
				perr = err
				return
			}
			perr = tlaval.ReadStates(f, func(n int, hdr string, st tlaval.State) error {
				id++
				if *only != "" && !onlyIDs[id] {
					return nil
				}
				m := tlaval.ToJSON(st).(map[string]interface{})
				m["id"], m["seed"] = id, *seed
				if *only != "" {
					m["detail"] = true
				}
				b, _ := json.Marshal(m)
				if len(S.Samples) < 3 {
					S.Samples = append(S.Samples, string(b))
				}
				cases <- b
				return nil
			})
			f.Close()
			if perr != nil {
				return
			}
		}
	}()
	err := workpool.Run(workpool.Options{Kind: "emit", Workers: *workers, Batch: batchFor(*only), Env: env, CaseTimeout: 2 * time.Second,
		OnResult: func(cl, rl []byte) {
			var r emitRes
			if json.Unmarshal(rl, &r) != nil {
				return
			}
			S.Cases++
			S.Evals += r.Evals
			S.Programs += r.Progs
			S.NoStd += r.NoStd
			S.RT += r.RT
			dgs.add(r.ID, r.DG)
			if r.Detail != nil {
				r.Detail.Sig = fmt.Sprint(r.ID)
				details = append(details, *r.Detail)
			}
			for _, b := range r.Oracle {
				S.Oracle++
				S.OracleSig[b.Type+"|"+b.Val]++
				if len(S.OracleEx) < 40 {
					S.OracleEx = append(S.OracleEx, b)
				}
			}
			for _, b := range r.Bad {
				S.BadBySig[b.Sig]++
				if S.BadBySig[b.Sig] <= 1 && len(S.Bad) < 4000 {
					S.Bad = append(S.Bad, b)
				}
			}
		},
		OnCrash: func(c workpool.Crash) {
			S.Crashes = append(S.Crashes, c.Reason+": "+string(c.Case)+"\n"+tailStr(c.Stderr, 1500))
		}}, cases)
	if err != nil || perr != nil {
		fmt.Fprintln(os.Stderr, "emit:", err, perr)
		return 2
	}
	dgs.write(*digests)
	if *detail != "" {
		f, _ := os.Create(*detail)
		for _, d := range details {
			b, _ := json.Marshal(d)
			f.Write(append(b, '\n'))
		}
		f.Close()
	}
	S.Wall = time.Since(t0).Seconds()
	b, _ := json.MarshalIndent(S, "", " ")
	if *out != "" {
		os.WriteFile(*out, b, 0o644)
	}
	fmt.Printf("{\"cases\":%d,\"evals\":%d,\"programs\":%d,\"oracle\":%d,\"bad_sigs\":%d,\"crashes\":%d}\n", S.Cases, S.Evals, S.Programs, S.Oracle, len(S.BadBySig), len(S.Crashes))
	return 0
}

func init() {
	subcmds["emit"] = emitMain
	workpool.Register("emit", emitHandle)
}
