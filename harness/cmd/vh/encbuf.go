package main

// encbuf: binding of spec/EncBuf.tla (property C06, the overrun half).  The initial states of the model are
// (shape, initial capacity, prefix length); here every value of a zoo that reaches each emitting site of the encoder
// (punctuation, keys, every number width, literals, strings whose escaped text is longer than the source, ",string"
// forms, base64, json.Number, RawMessage, marshalers, map keys of every kind, nested containers) is encoded by EncodeInto
// into a buffer of EVERY capacity from the prefix length up to a few bytes beyond what the text needs, with the end of
// the capacity on a PROT_NONE page: a write past the capacity kills the worker (reported by the parent), a result that
// depends on capacity / prefix (reference: the library's own text in an ample ordinary buffer) is reported as such.

import (
	"bytes"
	"encoding/json"
	"flag"
	"fmt"
	"math"
	"os"
	"runtime"
	"strings"
	"time"

	"verifharness/workpool"

	"github.com/bytedance/sonic/encoder"
)

type ebText string

func (t ebText) MarshalText() ([]byte, error) { return []byte("t<" + string(t) + ">\"q\""), nil }

type ebJSON struct{ S string }

func (j ebJSON) MarshalJSON() ([]byte, error) { return json.Marshal(map[string]string{"j": j.S}) }

type ebStruct struct {
	A  string            `json:"a"`
	B  int               `json:"b,omitempty"`
	C  string            `json:"c\"q,omitempty"`
	D  int64             `json:"d,string"`
	E  string            `json:"e,string"`
	F  float64           `json:"f"`
	G  *string           `json:"g"`
	H  []byte            `json:"h"`
	I  interface{}       `json:"i"`
	J  json.Number       `json:"j"`
	K  json.RawMessage   `json:"k"`
	L  map[string]string `json:"l"`
	M  [2]bool           `json:"m"`
	N  ebText            `json:"n"`
	O  ebJSON            `json:"o"`
	P  float32           `json:"p"`
	Q  uint8             `json:"q"`
	R  bool              `json:"r,string"`
	S  struct{}          `json:"s"`
	U  uint64            `json:"u,string"`
	F2 float64           `json:"f2,string"`
}

func encbufZoo() []interface{} {
	s := "x"
	esc := "a\"b"
	return []interface{}{
		"", "x", "a\"b", "\\", "\"\"\"\"", "\n\t\r\b\f", "\x01\x02\x1f", "plain text of some length", "q\"" + strings.Repeat("z", 30) + "\"", "é <&>",
		"\xff\xfe", strings.Repeat("\"", 17), strings.Repeat("ab\"", 11) + "\\",
		0, -1, 1234567890123, int8(-128), uint8(255), int16(-32768), uint16(65535), int32(math.MinInt32), uint32(math.MaxUint32),
		int64(math.MinInt64), uint64(math.MaxUint64), 1.5, -0.0, 1e21, 1e-7, float32(3.4e38), float32(1e-7), 123456789.125, true, false, nil,
		[]string{}, []string{"a\"b"}, []string{"", "\"", "xy"}, []int{1, -22, 333}, [][]int{{}, {1}, nil}, []interface{}{nil, true, "\"", 1.5, []interface{}{}},
		map[string]string{}, map[string]string{"k\"": "v\""}, map[string]int{"a": 1, "b\\": 2}, map[int]string{-5: "\"", 70000: ""}, map[uint8]bool{255: true},
		map[ebText]int{"k": 1}, map[string]interface{}{"n": nil, "s": "\"\"", "m": map[string]interface{}{"\"": 1}},
		[]byte{}, []byte{1}, []byte{1, 2}, []byte{1, 2, 3}, []byte("hello, world<>"),
		json.Number("12e3"), json.RawMessage(`{"r":"\""}`), ebText("x"), ebJSON{"\""}, &s, &esc, []*string{nil, &esc},
		ebStruct{}, ebStruct{A: "\"", B: 7, C: "\\", D: -9, E: "in\"ner", F: 2.5, G: &esc, H: []byte{9}, I: "\"", J: "1", K: json.RawMessage(`"\""`),
			L: map[string]string{"\"": "\""}, M: [2]bool{true, false}, N: "n", O: ebJSON{"o"}, P: 0.5, Q: 200, R: true, U: math.MaxUint64, F2: 1e21},
		struct {
			X string `json:"x"`
		}{"\"\"\""},
		struct{ A, B, C string }{"\"", "\\", "\n"},
	}
}

type encbufCase struct {
	ID  int `json:"id"`
	V   int `json:"v"`
	Cap int `json:"cap"`
	Pre int `json:"pre"`
	Opt int `json:"opt"` // 0: std without HTML escaping, 1: std
}

func encbufWant(v interface{}, html bool) ([]byte, error) {
	var wb bytes.Buffer
	je := json.NewEncoder(&wb)
	je.SetEscapeHTML(html)
	if err := je.Encode(v); err != nil {
		return nil, err
	}
	return bytes.TrimSuffix(wb.Bytes(), []byte("\n")), nil
}

func encbufOpts(opt int) encoder.Options {
	o := encoder.SortMapKeys | encoder.CompactMarshaler | encoder.ValidateString
	if opt == 1 {
		o |= encoder.EscapeHTML
	}
	return o
}

func encbufHandle(in []byte) []byte {
	var c encbufCase
	json.Unmarshal(in, &c)
	res := poolRes{ID: c.ID}
	zoo := encbufZoo()
	v := zoo[c.V%len(zoo)]
	// the reference is the library's own text for the value in an ample ordinary buffer: the property is that capacity and
	// prefix do not matter (whether that text is encoding/json's is C03's business)
	ample := make([]byte, 0, 8192)
	werr := encoder.EncodeInto(&ample, v, encbufOpts(c.Opt))
	want := append([]byte{}, ample...)
	buf, free, err := guardedBuffer(c.Cap)
	if err != nil || werr != nil {
		out, _ := json.Marshal(res)
		return out
	}
	defer free()
	b := buf[:c.Pre]
	for i := range b {
		b[i] = 'P'
	}
	err = encoder.EncodeInto(&b, v, encbufOpts(c.Opt))
	res.Evals++
	full := append(bytes.Repeat([]byte("P"), c.Pre), want...)
	switch {
	case err != nil:
		res.Bad = append(res.Bad, poolBad{Kind: "error", Det: fmt.Sprintf("EncodeInto(zoo %d %T, cap %d, prefix %d): %v", c.V, v, c.Cap, c.Pre, err), Sig: "encbuf_error"})
	case len(b) > cap(b):
		res.Bad = append(res.Bad, poolBad{Kind: "len_beyond_cap", Det: fmt.Sprintf("EncodeInto(zoo %d %T, cap %d, prefix %d): len %d > cap %d", c.V, v, c.Cap, c.Pre, len(b), cap(b)), Sig: "encbuf_len_beyond_cap"})
	case !bytes.Equal(b, full):
		res.Bad = append(res.Bad, poolBad{Kind: "wrong_result", Det: fmt.Sprintf("EncodeInto(zoo %d %T, cap %d, prefix %d): %q want %q", c.V, v, c.Cap, c.Pre, trunc(b), trunc(full)), Sig: "encbuf_wrong_result"})
	}
	out, _ := json.Marshal(res)
	return out
}

// encbufCases: every zoo value x both option sets x every capacity pre..need+3 x prefixes {0, 3}
func encbufCases(seed int64, maxNeed int, emit func([]byte)) int {
	zoo := encbufZoo()
	id := 0
	for vi, v := range zoo {
		for opt := 0; opt < 2; opt++ {
			want, err := encbufWant(v, opt == 1)
			if err != nil {
				continue
			}
			need := len(want)
			if need > maxNeed {
				need = maxNeed
			}
			for _, pre := range []int{0, 3} {
				for cp := pre; cp <= pre+need+3; cp++ {
					id++
					b, _ := json.Marshal(encbufCase{ID: id, V: vi, Cap: cp, Pre: pre, Opt: opt})
					emit(b)
				}
			}
		}
	}
	return id
}

// encbufMain: the EncBuf universe on its own (used by C13 under both instruction sets: the expected bytes come from
// encoding/json, so each environment is judged absolutely, and the buffer growth in the middle of a value - where the
// generated code re-derives its registers - happens at every offset).
func encbufMain(args []string) int {
	fs := flag.NewFlagSet("encbuf", flag.ExitOnError)
	out := fs.String("out", "", "summary")
	seed := fs.Int64("seed", 1, "seed")
	workers := fs.Int("workers", runtime.NumCPU(), "workers")
	encbufMax := fs.Int("encbufmax", 400, "capacities up to min(text length, this) + 3 per value")
	fs.Parse(args)
	t0 := time.Now()
	type sum struct {
		Evals    int            `json:"evals"`
		EncBuf   int            `json:"encbuf_cases"`
		Bad      []poolBad      `json:"bad"`
		BadBySig map[string]int `json:"bad_by_sig"`
		Crashes  []string       `json:"crashes"`
		WallS    float64        `json:"wall_s"`
	}
	S := sum{BadBySig: map[string]int{}}
	ecases := make(chan []byte, 256)
	go func() {
		encbufCases(*seed, *encbufMax, func(b []byte) { ecases <- b })
		close(ecases)
	}()
	err := workpool.Run(workpool.Options{Kind: "encbuf", Workers: *workers, Batch: 64,
		OnResult: func(cl, rl []byte) {
			var r poolRes
			if json.Unmarshal(rl, &r) != nil {
				return
			}
			S.EncBuf++
			S.Evals += r.Evals
			for _, b := range r.Bad {
				S.BadBySig[b.Sig]++
				if S.BadBySig[b.Sig] <= 3 && len(S.Bad) < 60 {
					S.Bad = append(S.Bad, b)
				}
			}
		},
		OnCrash: func(c workpool.Crash) {
			st := c.Stderr
			if len(st) > 1500 {
				st = st[len(st)-1500:]
			}
			S.Crashes = append(S.Crashes, c.Reason+" (guard page, EncBuf): "+string(c.Case)+"\n"+st)
		}}, ecases)
	if err != nil {
		fmt.Fprintln(os.Stderr, "encbuf:", err)
		return 2
	}
	S.WallS = time.Since(t0).Seconds()
	b, _ := json.MarshalIndent(S, "", " ")
	if *out != "" {
		os.WriteFile(*out, b, 0o644)
	} else {
		os.Stdout.Write(b)
	}
	return 0
}

func init() { subcmds["encbuf"] = encbufMain }
