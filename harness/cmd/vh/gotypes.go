package main

// gotypes: the concrete side of the abstract terms of spec/Bind.tla and spec/Emit.tla.
//   spec type  -> reflect.Type (reflect-built, so every distinct type is a fresh codec program)
//   spec value -> reflect.Value of that type
//   document   -> JSON text
// Number and string classes are owned here: one representative literal each, chosen on the
// boundaries the class names say.

import (
	"encoding/base64"
	"encoding/json"
	"fmt"
	"reflect"
	"sort"
	"strconv"
	"strings"
	"sync"
)

// ---- zoo: the types reflect cannot build (methods) ----

// UJ records the exact bytes its pointer-receiver UnmarshalJSON was given.
type UJ struct{ Raw string }

func (u *UJ) UnmarshalJSON(b []byte) error { u.Raw = string(b); return nil }

// UT records the text its pointer-receiver UnmarshalText was given.
type UT struct{ Txt string }

func (u *UT) UnmarshalText(b []byte) error { u.Txt = "T:" + string(b); return nil }

// RecNode is the recursive type of the specification's kind "rec"
type RecNode struct {
	V    int
	Next *RecNode  `json:"next"`
	Kids []RecNode `json:"kids"`
}

// TKey is a map key type with UnmarshalText / MarshalText. It is a struct, not a string kind:
// encoding/json uses the string value of string-kind keys directly and never calls MarshalText on them.
type TKey struct{ K string }

func (k *TKey) UnmarshalText(b []byte) error { k.K = "K:" + string(b); return nil }
func (k TKey) MarshalText() ([]byte, error)  { return []byte(strings.TrimPrefix(k.K, "K:")), nil }

var numLit = map[string]string{
	"z": "0", "nz": "-0", "p7": "7", "p9": "9", "p12": "12", "n3": "-3", "n200": "-200", "p200": "200", "p300": "300", "p40000": "40000", "p70000": "70000",
	"p3e9": "3000000000", "p5e9": "5000000000", "p2_63": "9223372036854775808", "n2_63": "-9223372036854775808",
	"p2_64": "18446744073709551616", "f1_5": "1.5", "f1_0": "1.0", "e1e2": "1e2", "f1e39": "1e39", "big": "1e400",
}

// exact boundaries of every integer width (spec: Bind!BoundLits)
func init() {
	for k, v := range map[string]string{
		"imax16":  "32767",
		"imax32":  "2147483647",
		"imax64":  "9223372036854775807",
		"imax8":   "127",
		"imaxp16": "32768",
		"imaxp32": "2147483648",
		"imaxp8":  "128",
		"imin16":  "-32768",
		"imin32":  "-2147483648",
		"imin8":   "-128",
		"iminm16": "-32769",
		"iminm32": "-2147483649",
		"iminm64": "-9223372036854775809",
		"iminm8":  "-129",
		"umax16":  "65535",
		"umax32":  "4294967295",
		"umax64":  "18446744073709551615",
		"umax8":   "255",
		"umaxp16": "65536",
		"umaxp32": "4294967296",
		"umaxp8":  "256",
	} {
		numLit[k] = v
	}
}

// string classes: JSON literal and the Go string it denotes
var strLit = map[string][2]string{
	"sx": {`"x"`, "x"}, "se": {`""`, ""}, "s12": {`"12"`, "12"}, "sb64": {`"YWI="`, "YWI="}, "sb1": {`"YQ=="`, "YQ=="}, "sb3": {`"YWJj"`, "YWJj"},
	"sesc": {`"a\né\"A\/"`, "a\né\"A/"}, "snull": {`"null"`, "null"}, "strue": {`"true"`, "true"},
	"sq": {`"\"x\""`, `"x"`}, "ssur": {`"\ud800"`, "�"}, "sctl": {"\"a\x01b\"", "a\x01b"}, "sbad": {"\"a\xffb\"", "a�b"},
	"sqe": {`"\"a\\nb\""`, "\"a\\nb\""}, "sanb": {`"a\nb"`, "a\nb"},
	"sqo": {`"\"x"`, `"x`}, "sqbs": {`"\"x\\"`, `"x\`}, "sqt": {`"\"x\"y"`, `"x"y`},
	"old": {`"old"`, "old"}, "none": {`""`, ""},
	"q7": {`"7"`, "7"}, "q200": {`"200"`, "200"}, "q300": {`"300"`, "300"}, "q40000": {`"40000"`, "40000"}, "q70000": {`"70000"`, "70000"},
	"q3e9": {`"3000000000"`, "3000000000"}, "q5e9": {`"5000000000"`, "5000000000"}, "qn3": {`"-3"`, "-3"}, "q1_5": {`"1.5"`, "1.5"},
	"q2_63": {`"9223372036854775808"`, "9223372036854775808"},
	"shtml": {`"<a>&"`, "<a>&"}, "sls": {"\" \"", " "},
}

// "slong": a long string dense in characters that every escaping pass expands (HTML: 1 -> 6 bytes, quoting: 1 -> 2 or 6), so
// that output buffers fill up and grow more than once in the middle of the string
func init() {
	// more than three output bytes per input byte in the HTML pass (two growths of a buffer sized 1.5 x input), then a stretch
	// that expands in the quoting pass
	v := strings.Repeat("<&>\u2028", 500) + strings.Repeat("\x01\"\\", 100)
	b, _ := json.Marshal(v)
	strLit["slong"] = [2]string{string(b), v}
}

var xLit = map[string]string{"x01": "01", "xtru": "tru", "xcomma": "1,", "xnone": ""}

func rec(v interface{}) map[string]interface{} { m, _ := v.(map[string]interface{}); return m }
func sstr(v interface{}) string                { s, _ := v.(string); return s }
func seqOf(v interface{}) []interface{} {
	switch x := v.(type) {
	case []interface{}:
		return x
	case map[string]interface{}:
		if s, ok := x["$set"]; ok {
			a, _ := s.([]interface{})
			return a
		}
	}
	return nil
}
func intOf(v interface{}) int {
	switch x := v.(type) {
	case float64:
		return int(x)
	case int:
		return x
	}
	return 0
}

// ---- documents ----

func renderDoc(sb *strings.Builder, j map[string]interface{}, ws int) {
	sp := func() {
		if ws > 0 {
			sb.WriteString([]string{"", " ", "\n\t", "  "}[ws%4])
		}
	}
	switch sstr(j["j"]) {
	case "null":
		sb.WriteString("null")
	case "t":
		sb.WriteString("true")
	case "f":
		sb.WriteString("false")
	case "n":
		sb.WriteString(numLit[sstr(j["c"])])
	case "s":
		sb.WriteString(strLit[sstr(j["c"])][0])
	case "x", "xs":
		sb.WriteString(xLit[sstr(j["c"])])
	case "a":
		sb.WriteByte('[')
		for i, e := range seqOf(j["e"]) {
			if i > 0 {
				sb.WriteByte(',')
				sp()
			}
			renderDoc(sb, rec(e), ws)
		}
		sb.WriteByte(']')
	case "o":
		sb.WriteByte('{')
		for i, e := range seqOf(j["m"]) {
			if i > 0 {
				sb.WriteByte(',')
				sp()
			}
			m := rec(e)
			if sstr(m["k"]) == "~comma" {
				continue // nothing where a member must stand: the separating comma is all there is
			}
			if sstr(m["k"]) == "~sur" {
				sb.WriteString(`"a\ud800"`) // a key spelled with a lone surrogate escape
			} else {
				sb.WriteString(spellKey(sstr(m["k"])))
			}
			sb.WriteByte(':')
			sp()
			renderDoc(sb, rec(m["v"]), ws)
		}
		sb.WriteByte('}')
	case "none":
	}
}

// keySpelling: how object keys are written (the same key either way): 0 plain, 1 first character as a \uXXXX escape,
// 2 every character as a \uXXXX escape (what an ASCII-only encoder produces)
var keySpelling = 0

func spellKey(k string) string {
	if keySpelling == 0 || k == "" {
		return strconv.Quote(k)
	}
	var sb strings.Builder
	sb.WriteByte('"')
	for i, r := range k {
		if r < 0x10000 && (keySpelling == 2 || i == 0) {
			fmt.Fprintf(&sb, `\u%04x`, r)
		} else {
			q := strconv.Quote(string(r))
			sb.WriteString(q[1 : len(q)-1])
		}
	}
	sb.WriteByte('"')
	return sb.String()
}

func docText(j map[string]interface{}, ws int) string {
	var sb strings.Builder
	renderDoc(&sb, j, ws)
	return sb.String()
}

// compact signature of a document (classes, not literals)
func docSig(j map[string]interface{}) string {
	switch sstr(j["j"]) {
	case "n", "s", "x", "xs":
		return sstr(j["c"])
	case "a":
		var p []string
		for _, e := range seqOf(j["e"]) {
			p = append(p, docSig(rec(e)))
		}
		return "[" + strings.Join(p, ",") + "]"
	case "o":
		var p []string
		for _, e := range seqOf(j["m"]) {
			p = append(p, sstr(rec(e)["k"])+":"+docSig(rec(rec(e)["v"])))
		}
		return "{" + strings.Join(p, ",") + "}"
	}
	return sstr(j["j"])
}

// ---- types ----

var leafTypes = map[string]reflect.Type{
	"bool": reflect.TypeOf(false), "str": reflect.TypeOf(""),
	"i8": reflect.TypeOf(int8(0)), "i16": reflect.TypeOf(int16(0)), "i32": reflect.TypeOf(int32(0)), "i64": reflect.TypeOf(int64(0)), "int": reflect.TypeOf(int(0)),
	"u8": reflect.TypeOf(uint8(0)), "u16": reflect.TypeOf(uint16(0)), "u32": reflect.TypeOf(uint32(0)), "u64": reflect.TypeOf(uint64(0)), "uint": reflect.TypeOf(uint(0)),
	"f32": reflect.TypeOf(float32(0)), "f64": reflect.TypeOf(float64(0)),
	"iface": reflect.TypeOf((*interface{})(nil)).Elem(), "num": reflect.TypeOf(json.Number("")), "raw": reflect.TypeOf(json.RawMessage(nil)),
	"bytes": reflect.TypeOf([]byte(nil)), "uj": reflect.TypeOf(UJ{}), "ut": reflect.TypeOf(UT{}), "rec": reflect.TypeOf(RecNode{}),
}

var keyTypes = map[string]reflect.Type{
	"str": reflect.TypeOf(""), "int": reflect.TypeOf(int(0)), "i8": reflect.TypeOf(int8(0)), "u8": reflect.TypeOf(uint8(0)),
	"i64": reflect.TypeOf(int64(0)), "u32": reflect.TypeOf(uint32(0)), "txt": reflect.TypeOf(TKey{}),
	"i16": reflect.TypeOf(int16(0)), "i32": reflect.TypeOf(int32(0)), "u16": reflect.TypeOf(uint16(0)), "u64": reflect.TypeOf(uint64(0)), "uint": reflect.TypeOf(uint(0)),
}

func typeSig(t map[string]interface{}) string {
	k := sstr(t["k"])
	switch k {
	case "ptr":
		return "*" + typeSig(rec(t["e"]))
	case "slice":
		return "[]" + typeSig(rec(t["e"]))
	case "arr":
		return fmt.Sprintf("[%d]%s", intOf(t["n"]), typeSig(rec(t["e"])))
	case "map":
		return "map[" + sstr(t["key"]) + "]" + typeSig(rec(t["e"]))
	case "rec":
		return fmt.Sprintf("rec%d", intOf(t["d"]))
	case "ifp":
		return "iface(*" + typeSig(rec(t["e"])) + ")"
	case "st":
		var p []string
		for _, f := range seqOf(t["f"]) {
			fm := rec(f)
			p = append(p, sstr(fm["n"])+" "+typeSig(rec(fm["t"]))+" "+sstr(fm["tag"])+":"+sstr(fm["jn"]))
		}
		return "struct{" + strings.Join(p, "; ") + "}"
	}
	return k
}

var (
	typeMu    sync.Mutex
	typeCache = map[string]reflect.Type{}
	// the number of distinct reflect-built types = distinct codec programs exercised
	programs = map[string]bool{}
)

func fieldTag(fm map[string]interface{}) string {
	switch sstr(fm["tag"]) {
	case "ren":
		return `json:"` + sstr(fm["jn"]) + `"`
	case "dash":
		return `json:"-"`
	case "str":
		return `json:",string"`
	case "omit":
		return `json:",omitempty"`
	case "omitstr":
		return `json:",omitempty,string"`
	case "omitzero":
		return `json:",omitzero"`
	}
	return ""
}

func goType(t map[string]interface{}) reflect.Type {
	sig := typeSig(t)
	typeMu.Lock()
	if rt, ok := typeCache[sig]; ok {
		typeMu.Unlock()
		return rt
	}
	typeMu.Unlock()
	var rt reflect.Type
	k := sstr(t["k"])
	switch k {
	case "ptr":
		rt = reflect.PtrTo(goType(rec(t["e"])))
	case "ifp":
		goType(rec(t["e"])) // the pointee type is built (and counted) too
		rt = leafTypes["iface"]
	case "slice":
		rt = reflect.SliceOf(goType(rec(t["e"])))
	case "arr":
		rt = reflect.ArrayOf(intOf(t["n"]), goType(rec(t["e"])))
	case "map":
		rt = reflect.MapOf(keyTypes[sstr(t["key"])], goType(rec(t["e"])))
	case "st":
		var fs []reflect.StructField
		for _, f := range seqOf(t["f"]) {
			fm := rec(f)
			fs = append(fs, reflect.StructField{Name: sstr(fm["n"]), Type: goType(rec(fm["t"])), Tag: reflect.StructTag(fieldTag(fm)),
				Anonymous: sstr(fm["tag"]) == "emb"})
		}
		rt = reflect.StructOf(fs)
	default:
		var ok bool
		if rt, ok = leafTypes[k]; !ok {
			if rt, ok = zooTypes[k]; !ok {
				panic("unknown type kind " + k)
			}
		}
	}
	typeMu.Lock()
	typeCache[sig] = rt
	programs[sig] = true
	typeMu.Unlock()
	return rt
}

// further named types registered by other files (emit zoo)
var zooTypes = map[string]reflect.Type{}

// ---- values ----

func parseNum(rt reflect.Type, lit string) reflect.Value {
	v := reflect.New(rt).Elem()
	switch rt.Kind() {
	case reflect.Int, reflect.Int8, reflect.Int16, reflect.Int32, reflect.Int64:
		n, err := strconv.ParseInt(lit, 10, 64)
		if err != nil {
			f, _ := strconv.ParseFloat(lit, 64)
			n = int64(f)
		}
		v.SetInt(n)
	case reflect.Uint, reflect.Uint8, reflect.Uint16, reflect.Uint32, reflect.Uint64, reflect.Uintptr:
		n, err := strconv.ParseUint(lit, 10, 64)
		if err != nil {
			f, _ := strconv.ParseFloat(lit, 64)
			n = uint64(f)
		}
		v.SetUint(n)
	case reflect.Float32:
		f, _ := strconv.ParseFloat(lit, 32)
		v.SetFloat(f)
	case reflect.Float64:
		f, _ := strconv.ParseFloat(lit, 64)
		v.SetFloat(f)
	}
	return v
}

func numText(c string) string {
	if l, ok := numLit[c]; ok {
		return l
	}
	return strLit[c][1]
}

// buildGeneric builds the value an interface{} holds
func buildGeneric(v map[string]interface{}) interface{} {
	switch sstr(v["g"]) {
	case "nil":
		return nil
	case "b":
		return v["b"].(bool)
	case "n":
		switch sstr(v["as"]) {
		case "num":
			return json.Number(numText(sstr(v["c"])))
		case "i64":
			n, _ := strconv.ParseInt(numLit[sstr(v["c"])], 10, 64)
			return n
		default:
			f, _ := strconv.ParseFloat(numLit[sstr(v["c"])], 64)
			return f
		}
	case "s":
		return strLit[sstr(v["c"])][1]
	case "a":
		out := make([]interface{}, 0)
		for _, e := range seqOf(v["e"]) {
			out = append(out, buildGeneric(rec(e)))
		}
		return out
	case "m":
		out := map[string]interface{}{}
		for _, e := range seqOf(v["m"]) {
			k := sstr(rec(e)["k"])
			if k == "~surfix" {
				k = "a\ufffd"
			}
			out[k] = buildGeneric(rec(rec(e)["v"]))
		}
		return out
	}
	panic("buildGeneric: " + fmt.Sprint(v))
}

func buildKey(kind, k string) reflect.Value {
	if k == "~surfix" {
		k = "a\ufffd"
	}
	rt := keyTypes[kind]
	switch kind {
	case "str":
		return reflect.ValueOf(k)
	case "txt":
		return reflect.ValueOf(TKey{K: "K:" + k})
	}
	return parseNum(rt, k)
}

// build constructs the Go value of spec type t that the spec value v denotes
func build(t, v map[string]interface{}) reflect.Value {
	rt := goType(t)
	g := sstr(v["g"])
	if g == "nil" {
		return reflect.Zero(rt)
	}
	k := sstr(t["k"])
	if k == "slice" && sstr(rec(t["e"])["k"]) == "u8" && g == "by" {
		k = "bytes"
	}
	out := reflect.New(rt).Elem()
	switch k {
	case "iface", "ifp":
		if g == "i" {
			out.Set(build(rec(v["t"]), rec(v["v"])))
			break
		}
		x := buildGeneric(v)
		if x != nil {
			out.Set(reflect.ValueOf(x))
		}
	case "bool":
		out.SetBool(v["b"].(bool))
	case "str":
		out.SetString(strLit[sstr(v["c"])][1])
	case "num":
		out.SetString(numText(sstr(v["c"])))
	case "raw":
		out.SetBytes([]byte(docText(rec(v["d"]), buildWS)))
	case "uj":
		if sstr(rec(v["d"])["j"]) != "none" {
			out.Field(0).SetString(docText(rec(v["d"]), buildWS))
		}
	case "ut":
		if c := sstr(v["c"]); c != "none" {
			out.Field(0).SetString("T:" + strLit[c][1])
		}
	case "bytes":
		if g == "by" {
			if c := sstr(v["c"]); c == "old" {
				out.SetBytes([]byte{9, 9, 9})
			} else {
				b, err := base64.StdEncoding.DecodeString(strLit[c][1])
				if err != nil {
					panic("bad base64 class " + c)
				}
				if b == nil {
					b = []byte{}
				}
				out.SetBytes(b)
			}
		} else {
			es := seqOf(v["e"])
			b := make([]byte, len(es))
			for i, e := range es {
				n, _ := strconv.ParseUint(numLit[sstr(rec(e)["c"])], 10, 8)
				b[i] = byte(n)
			}
			out.SetBytes(b)
		}
	case "ptr":
		p := reflect.New(rt.Elem())
		p.Elem().Set(build(rec(t["e"]), rec(v["e"])))
		out.Set(p)
	case "slice":
		es := seqOf(v["e"])
		spare := seqOf(v["spare"]) // stale elements in the capacity beyond the length (prior value "precap")
		s := reflect.MakeSlice(rt, len(es)+len(spare), len(es)+len(spare))
		for i, e := range append(append([]interface{}{}, es...), spare...) {
			s.Index(i).Set(build(rec(t["e"]), rec(e)))
		}
		out.Set(s.Slice(0, len(es)))
	case "arr":
		for i, e := range seqOf(v["e"]) {
			out.Index(i).Set(build(rec(t["e"]), rec(e)))
		}
	case "map":
		if g == "bm" {
			return bigMapHook(t, v)
		}
		m := reflect.MakeMap(rt)
		for _, e := range seqOf(v["m"]) {
			m.SetMapIndex(buildKey(sstr(t["key"]), sstr(rec(e)["k"])), build(rec(t["e"]), rec(rec(e)["v"])))
		}
		out.Set(m)
	case "st":
		fs := seqOf(t["f"])
		for i, e := range seqOf(v["f"]) {
			out.Field(i).Set(build(rec(rec(fs[i])["t"]), rec(e)))
		}
	case "rec":
		d := intOf(t["d"])
		if d > 0 {
			d--
		}
		sub := map[string]interface{}{"k": "rec", "d": float64(d)}
		fts := []map[string]interface{}{{"k": "int"}, {"k": "ptr", "e": sub}, {"k": "slice", "e": sub}}
		for i, e := range seqOf(v["f"]) {
			out.Field(i).Set(build(fts[i], rec(e)))
		}
	default:
		if _, isNum := numLit[sstr(v["c"])]; isNum && g == "n" {
			return parseNum(rt, numLit[sstr(v["c"])])
		}
		if b, ok := zooBuild[k]; ok {
			return b(rt, v)
		}
		panic("build: kind " + k + " value " + fmt.Sprint(v))
	}
	return out
}

var bigMapHook func(t, v map[string]interface{}) reflect.Value

var zooBuild = map[string]func(rt reflect.Type, v map[string]interface{}) reflect.Value{}

// ---- zero / prior values (mirror of Zero and Pre in spec/Bind.tla) ----

var nilV = map[string]interface{}{"g": "nil"}

func numKind(k string) bool {
	switch k {
	case "i8", "i16", "i32", "i64", "int", "u8", "u16", "u32", "u64", "uint", "f32", "f64":
		return true
	}
	return false
}

func unfoldRec(t map[string]interface{}) map[string]interface{} {
	d := intOf(t["d"])
	fld := func(n, jn string, ft map[string]interface{}) interface{} {
		return map[string]interface{}{"tag": "ren", "n": n, "jn": jn, "t": ft}
	}
	if d > 0 {
		d--
	}
	sub := map[string]interface{}{"k": "rec", "d": float64(d)}
	fs := []interface{}{fld("V", "V", map[string]interface{}{"k": "int"}),
		fld("Next", "next", map[string]interface{}{"k": "ptr", "e": sub}), fld("Kids", "kids", map[string]interface{}{"k": "slice", "e": sub})}
	return map[string]interface{}{"k": "st", "f": fs}
}

func zeroV(t map[string]interface{}) map[string]interface{} {
	k := sstr(t["k"])
	if k == "rec" {
		return zeroV(unfoldRec(t))
	}
	switch {
	case numKind(k):
		return map[string]interface{}{"g": "n", "as": k, "c": "z"}
	case k == "bool":
		return map[string]interface{}{"g": "b", "b": false}
	case k == "str":
		return map[string]interface{}{"g": "s", "c": "se"}
	case k == "num":
		return map[string]interface{}{"g": "n", "as": "num", "c": "se"}
	case k == "uj":
		return map[string]interface{}{"g": "uj", "d": map[string]interface{}{"j": "none"}}
	case k == "ut":
		return map[string]interface{}{"g": "ut", "c": "none"}
	case k == "arr":
		var e []interface{}
		for i := 0; i < intOf(t["n"]); i++ {
			e = append(e, zeroV(rec(t["e"])))
		}
		return map[string]interface{}{"g": "a", "e": e}
	case k == "st":
		var f []interface{}
		for _, fd := range seqOf(t["f"]) {
			f = append(f, zeroV(rec(rec(fd)["t"])))
		}
		return map[string]interface{}{"g": "st", "f": f}
	}
	return nilV
}

// preCapV mirrors PreCap of spec/Bind.tla: slices of one visible element with two stale ones in the spare capacity
func preCapV(t map[string]interface{}) map[string]interface{} {
	k := sstr(t["k"])
	switch {
	case k == "slice" && sstr(rec(t["e"])["k"]) != "u8":
		return map[string]interface{}{"g": "a", "e": []interface{}{preCapV(rec(t["e"]))}, "spare": []interface{}{preV(rec(t["e"])), preV(rec(t["e"]))}}
	case k == "ptr":
		return map[string]interface{}{"g": "p", "e": preCapV(rec(t["e"]))}
	case k == "arr":
		var e []interface{}
		for i := 0; i < intOf(t["n"]); i++ {
			e = append(e, preCapV(rec(t["e"])))
		}
		return map[string]interface{}{"g": "a", "e": e}
	case k == "st":
		var f []interface{}
		for _, fd := range seqOf(t["f"]) {
			f = append(f, preCapV(rec(rec(fd)["t"])))
		}
		return map[string]interface{}{"g": "st", "f": f}
	case k == "rec":
		if intOf(t["d"]) == 0 {
			return preV(t)
		}
		return preCapV(unfoldRec(t))
	}
	return preV(t)
}

func preV(t map[string]interface{}) map[string]interface{} {
	k := sstr(t["k"])
	if k == "rec" {
		if intOf(t["d"]) == 0 {
			return map[string]interface{}{"g": "st", "f": []interface{}{map[string]interface{}{"g": "n", "as": "int", "c": "p9"}, nilV, nilV}}
		}
		return preV(unfoldRec(t))
	}
	p9 := map[string]interface{}{"j": "n", "c": "p9"}
	switch {
	case numKind(k):
		return map[string]interface{}{"g": "n", "as": k, "c": "p9"}
	case k == "bool":
		return map[string]interface{}{"g": "b", "b": true}
	case k == "str", k == "iface":
		return map[string]interface{}{"g": "s", "c": "old"}
	case k == "num":
		return map[string]interface{}{"g": "n", "as": "num", "c": "p9"}
	case k == "raw":
		return map[string]interface{}{"g": "raw", "d": p9}
	case k == "bytes":
		return map[string]interface{}{"g": "by", "c": "old"}
	case k == "uj":
		return map[string]interface{}{"g": "uj", "d": p9}
	case k == "ut":
		return map[string]interface{}{"g": "ut", "c": "old"}
	case k == "ptr":
		return map[string]interface{}{"g": "p", "e": preV(rec(t["e"]))}
	case k == "ifp":
		return map[string]interface{}{"g": "i", "t": map[string]interface{}{"k": "ptr", "e": t["e"]}, "v": map[string]interface{}{"g": "p", "e": preV(rec(t["e"]))}}
	case k == "slice":
		e := preV(rec(t["e"]))
		return map[string]interface{}{"g": "a", "e": []interface{}{e, preV(rec(t["e"])), preV(rec(t["e"]))}}
	case k == "arr":
		var e []interface{}
		for i := 0; i < intOf(t["n"]); i++ {
			e = append(e, preV(rec(t["e"])))
		}
		return map[string]interface{}{"g": "a", "e": e}
	case k == "map":
		key := "9"
		if kk := sstr(t["key"]); kk == "str" || kk == "txt" {
			key = "old"
		}
		return map[string]interface{}{"g": "m", "m": []interface{}{map[string]interface{}{"k": key, "v": preV(rec(t["e"]))}}}
	case k == "st":
		var f []interface{}
		for _, fd := range seqOf(t["f"]) {
			f = append(f, preV(rec(rec(fd)["t"])))
		}
		return map[string]interface{}{"g": "st", "f": f}
	}
	panic("preV: " + k)
}

// ---- deterministic rendering of Go values (messages, digests) ----

func showRV(sb *strings.Builder, v reflect.Value, depth int) {
	if depth > 12 {
		sb.WriteString("...")
		return
	}
	switch v.Kind() {
	case reflect.Invalid:
		sb.WriteString("<invalid>")
	case reflect.Ptr:
		if v.IsNil() {
			sb.WriteString("nil")
		} else {
			sb.WriteByte('&')
			showRV(sb, v.Elem(), depth+1)
		}
	case reflect.Interface:
		if v.IsNil() {
			sb.WriteString("nil")
		} else {
			sb.WriteString("(" + v.Elem().Type().String() + ")")
			showRV(sb, v.Elem(), depth+1)
		}
	case reflect.Slice:
		if v.IsNil() {
			sb.WriteString("nil[]")
			return
		}
		fallthrough
	case reflect.Array:
		sb.WriteByte('[')
		for i := 0; i < v.Len(); i++ {
			if i > 0 {
				sb.WriteByte(' ')
			}
			showRV(sb, v.Index(i), depth+1)
		}
		sb.WriteByte(']')
	case reflect.Map:
		if v.IsNil() {
			sb.WriteString("nil{}")
			return
		}
		var items []string
		for _, k := range v.MapKeys() {
			var kb, vb strings.Builder
			showRV(&kb, k, depth+1)
			showRV(&vb, v.MapIndex(k), depth+1)
			items = append(items, kb.String()+":"+vb.String())
		}
		sort.Strings(items)
		sb.WriteString("{" + strings.Join(items, " ") + "}")
	case reflect.Struct:
		sb.WriteByte('<')
		for i := 0; i < v.NumField(); i++ {
			if i > 0 {
				sb.WriteByte(' ')
			}
			showRV(sb, v.Field(i), depth+1)
		}
		sb.WriteByte('>')
	case reflect.String:
		sb.WriteString(strconv.Quote(v.String()))
	case reflect.Float32, reflect.Float64:
		if v.Float() == 0 {
			sb.WriteString("0") // the sign of zero is C19's subject; DeepEqual does not see it either
		} else {
			sb.WriteString(strconv.FormatFloat(v.Float(), 'g', -1, 64))
		}
	default:
		sb.WriteString(fmt.Sprint(v.Interface()))
	}
}

func showValue(v reflect.Value) string {
	var sb strings.Builder
	showRV(&sb, v, 0)
	s := sb.String()
	if len(s) > 400 {
		s = s[:400] + "..."
	}
	return s
}
