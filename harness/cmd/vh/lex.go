package main

// lex: replay of the GenLex behaviours (byte-class strings with their required verdict)
// against every JSON-consuming API of sonic (property C02; reused by C05/C07/C11/C13).

import (
	"encoding/base64"
	"encoding/json"
	"flag"
	"fmt"
	"math/rand"
	"os"
	"runtime"
	"runtime/debug"
	"sort"
	"strings"
	"syscall"
	"time"
	"unsafe"

	"github.com/bytedance/sonic"
	"github.com/bytedance/sonic/ast"
	"github.com/bytedance/sonic/decoder"

	"verifharness/conc"
	"verifharness/tlaval"
	"verifharness/workpool"
)

// Placement of the input bytes in memory (property C05): the result must not depend on it.
//
//	heap  : a private allocation of exactly the input's length
//	guard : the input ends exactly at a PROT_NONE page (a read past the end faults)
//	adv   : the input is followed in memory by an adversarial continuation (bytes that would
//	        complete or extend the last token)
var lexPlace = os.Getenv("VERIF_PLACE")

// a ring of regions per worker, each [data pages][PROT_NONE page]: a placed input stays valid until
// eight further inputs have been placed
var guardRing [8][]byte
var guardNext int
var guardEnd int

func placeGuard(b []byte) []byte {
	guardNext = (guardNext + 1) % len(guardRing)
	guardRegion := guardRing[guardNext]
	if guardRegion == nil {
		ps := syscall.Getpagesize()
		pages := 64
		mem, err := syscall.Mmap(-1, 0, (pages+1)*ps, syscall.PROT_READ|syscall.PROT_WRITE, syscall.MAP_ANON|syscall.MAP_PRIVATE)
		if err != nil {
			panic(err)
		}
		if err := syscall.Mprotect(mem[pages*ps:], syscall.PROT_NONE); err != nil {
			panic(err)
		}
		guardRegion, guardEnd = mem, pages*ps
		guardRing[guardNext] = mem
	}
	if len(b) > guardEnd {
		return append([]byte(nil), b...)
	}
	dst := guardRegion[guardEnd-len(b) : guardEnd : guardEnd]
	copy(dst, b)
	return dst
}

var advConts = []string{`"`, `]`, `}`, `ull`, `rue`, `alse`, `1`, `e5`, `.5`, `\\"`, `,3]`, `:1}`, `"x"`, ` `, `0000`, "\x00", `u0041"`, `\\`}

func placeAdv(b []byte, k int) []byte {
	cont := advConts[k%len(advConts)]
	big := make([]byte, 0, len(b)+len(cont)+64)
	big = append(big, b...)
	big = append(big, cont...)
	for len(big) < cap(big) {
		big = append(big, cont[len(big)%len(cont)])
	}
	return big[:len(b):len(b)] // the slice header says len(b); the memory behind it continues
}

func placeInput(b []byte, k int) []byte {
	switch lexPlace {
	case "guard":
		return placeGuard(b)
	case "adv":
		return placeAdv(b, k)
	}
	// heap: an exact-length view of a private allocation that is followed by zero bytes (deterministic:
	// what follows an object on the Go heap is otherwise up to the allocator)
	buf := make([]byte, len(b), len(b)+16)
	copy(buf, b)
	return buf[:len(b):len(b)]
}

// strOf gives the string view of placed bytes without copying (string APIs must see the same placement)
func strOf(b []byte) string {
	if len(b) == 0 {
		return ""
	}
	return unsafe.String(&b[0], len(b))
}

type lexCase struct {
	ID     int               `json:"id"`
	S      []string          `json:"s"`
	V      string            `json:"v"`
	Sig    map[string]string `json:"sig"`
	Seed   int64             `json:"seed"`
	M      int               `json:"m"`
	Prefix string            `json:"prefix"` // "", "obj" (the document is `{"x..":` + tail), "arr"
	Gaps   []int             `json:"gaps"`
}

type lexBad struct {
	ID    int               `json:"id"`
	API   string            `json:"api"`
	Kind  string            `json:"kind"` // malformed_accepted | valid_rejected | panic | oracle_disagreement
	V     string            `json:"v"`
	Sig   map[string]string `json:"sig"`
	S     []string          `json:"s"`
	Input string            `json:"input_b64"`
	Text  string            `json:"text"`
	Det   string            `json:"detail,omitempty"`
}

type lexRes struct {
	Tag     string         `json:"tag,omitempty"` // concrete class of the case, for known-finding predicates on digests
	DG      uint64         `json:"dg"`
	Log     []string       `json:"log,omitempty"`
	ID      int            `json:"id"`
	Evals   int            `json:"evals"`
	Skipped int            `json:"skipped"`
	PerAPI  map[string]int `json:"per_api"`
	Bad     []lexBad       `json:"bad,omitempty"`
}

type capture struct{ b []byte }

func (c *capture) UnmarshalJSON(b []byte) error { c.b = append([]byte(nil), b...); return nil }

type skipper struct {
	A int `json:"~a"`
}

type lexAPI struct {
	name string
	// converts: the API also converts the value (numbers into float64); a rejection of a valid
	// document counts only if encoding/json's Unmarshal accepts the same document
	converts bool
	// returns accepted?, detail
	f func(b []byte) (bool, string)
	// std: for typed destinations, whether encoding/json accepts the document into the same type (a valid document of
	// another shape is a type error for both, not a lexical matter)
	std func(b []byte) bool
}

type lexFrame struct {
	A interface{}            `json:"a"`
	B []interface{}          `json:"b"`
	M map[string]interface{} `json:"m"`
}

func errDetail(err error) string {
	if err == nil {
		return ""
	}
	defer func() { recover() }()
	s := err.Error()
	if len(s) > 200 {
		s = s[:200]
	}
	return s
}

var lexAPIs = []lexAPI{
	// typed containers with interface{} elements: the framing code of maps, slices, fixed arrays and structs (commas, colons,
	// closing brackets) sees every string of the universe
	{name: "Unmarshal.map[string]iface", f: func(b []byte) (bool, string) {
		var v map[string]interface{}
		err := sonic.Unmarshal(b, &v)
		return err == nil, errDetail(err)
	}, std: func(b []byte) bool { var v map[string]interface{}; return json.Unmarshal(b, &v) == nil }},
	{name: "Unmarshal.[]iface", f: func(b []byte) (bool, string) {
		var v []interface{}
		err := sonic.Unmarshal(b, &v)
		return err == nil, errDetail(err)
	}, std: func(b []byte) bool { var v []interface{}; return json.Unmarshal(b, &v) == nil }},
	{name: "Unmarshal.[1]iface", f: func(b []byte) (bool, string) {
		var v [1]interface{}
		err := sonic.Unmarshal(b, &v)
		return err == nil, errDetail(err)
	}, std: func(b []byte) bool { var v [1]interface{}; return json.Unmarshal(b, &v) == nil }},
	{name: "Unmarshal.struct", f: func(b []byte) (bool, string) {
		var v lexFrame
		err := sonic.Unmarshal(b, &v)
		return err == nil, errDetail(err)
	}, std: func(b []byte) bool { var v lexFrame; return json.Unmarshal(b, &v) == nil }},
	{name: "Unmarshal.map[string]map[string]iface", f: func(b []byte) (bool, string) {
		var v map[string]map[string]interface{}
		err := sonic.Unmarshal(b, &v)
		return err == nil, errDetail(err)
	}, std: func(b []byte) bool { var v map[string]map[string]interface{}; return json.Unmarshal(b, &v) == nil }},
	{name: "Valid", converts: false, f: func(b []byte) (bool, string) { return sonic.Valid(b), "" }},
	{name: "ValidString", converts: false, f: func(b []byte) (bool, string) { return sonic.ValidString(strOf(b)), "" }},
	{name: "ConfigStd.Valid", converts: false, f: func(b []byte) (bool, string) { return sonic.ConfigStd.Valid(b), "" }},
	{name: "Unmarshal.iface", converts: true, f: func(b []byte) (bool, string) {
		var v interface{}
		err := sonic.Unmarshal(b, &v)
		return err == nil, errDetail(err)
	}},
	{name: "ConfigStd.Unmarshal.iface", converts: true, f: func(b []byte) (bool, string) {
		var v interface{}
		err := sonic.ConfigStd.Unmarshal(b, &v)
		return err == nil, errDetail(err)
	}},
	{name: "UnmarshalString.iface", converts: true, f: func(b []byte) (bool, string) {
		var v interface{}
		err := sonic.UnmarshalString(strOf(b), &v)
		return err == nil, errDetail(err)
	}},
	{name: "Unmarshal.RawMessage", converts: false, f: func(b []byte) (bool, string) {
		var v json.RawMessage
		err := sonic.Unmarshal(b, &v)
		return err == nil, errDetail(err)
	}},
	{name: "Unmarshal.Unmarshaler", converts: false, f: func(b []byte) (bool, string) {
		var v capture
		err := sonic.Unmarshal(b, &v)
		return err == nil, errDetail(err)
	}},
	{name: "Get", converts: false, f: func(b []byte) (bool, string) {
		n, err := sonic.Get(b)
		if err != nil {
			return false, errDetail(err)
		}
		if err := n.Check(); err != nil {
			return false, errDetail(err)
		}
		return true, ""
	}},
	{name: "GetFromString", converts: false, f: func(b []byte) (bool, string) {
		n, err := sonic.GetFromString(strOf(b))
		if err != nil {
			return false, errDetail(err)
		}
		if err := n.Check(); err != nil {
			return false, errDetail(err)
		}
		return true, ""
	}},
	{name: "NewRaw.Check", converts: false, f: func(b []byte) (bool, string) {
		n := ast.NewRaw(strOf(b))
		err := n.Check()
		return err == nil, errDetail(err)
	}},
	{name: "NewSearcher.GetByPath", converts: false, f: func(b []byte) (bool, string) {
		s := ast.NewSearcher(strOf(b))
		n, err := s.GetByPath()
		if err != nil {
			return false, errDetail(err)
		}
		err = n.Check()
		return err == nil, errDetail(err)
	}},
	{name: "decoder.Skip", converts: false, f: func(b []byte) (bool, string) {
		st, end := decoder.Skip(b)
		if st < 0 {
			return false, fmt.Sprint("code ", -st)
		}
		if end < 0 || end > len(b) {
			return false, fmt.Sprint("end out of range ", end)
		}
		for _, c := range b[end:] {
			if c != ' ' && c != '\t' && c != '\n' && c != '\r' {
				return false, "trailing"
			}
		}
		return true, ""
	}},
	{name: "Node.UnmarshalJSON.LoadAll", converts: false, f: func(b []byte) (bool, string) {
		var n ast.Node
		if err := n.UnmarshalJSON(b); err != nil {
			return false, errDetail(err)
		}
		if err := n.LoadAll(); err != nil {
			return false, errDetail(err)
		}
		if err := n.Check(); err != nil {
			return false, errDetail(err)
		}
		return true, ""
	}},
	{name: "Decoder.Decode.iface", converts: true, f: func(b []byte) (bool, string) {
		d := decoder.NewDecoder(strOf(b))
		var v interface{}
		err := d.Decode(&v)
		if err != nil {
			return false, errDetail(err)
		}
		if p := d.CheckTrailings(); p != nil {
			return false, "trailing"
		}
		return true, ""
	}},
}

// APIs applicable only to documents generated under the "obj" prefix: the whole document is an
// object whose only key does not match the destination's field, i.e. the tail is a skipped value.
var lexSkipAPIs = []lexAPI{
	{name: "Unmarshal.skipfield", converts: false, f: func(b []byte) (bool, string) {
		var v skipper
		err := sonic.Unmarshal(b, &v)
		return err == nil, errDetail(err)
	}},
	{name: "ConfigStd.Unmarshal.skipfield", converts: false, f: func(b []byte) (bool, string) {
		var v skipper
		err := sonic.ConfigStd.Unmarshal(b, &v)
		return err == nil, errDetail(err)
	}},
}

func stdConverts(b []byte) bool {
	var v interface{}
	return json.Unmarshal(b, &v) == nil
}

func callLex(a lexAPI, b []byte) (acc bool, det string, panicked bool) {
	defer func() {
		if r := recover(); r != nil {
			acc, det, panicked = false, fmt.Sprint("panic: ", r), true
		}
	}()
	acc, det = a.f(b)
	return
}

func lexVariants(c *lexCase, k int, r *rand.Rand) conc.Plan {
	switch {
	case k == 0:
		return conc.Plan{}
	case k%3 == 1:
		return conc.Plan{Lead: conc.PadLens[r.Intn(len(conc.PadLens))], Trail: conc.PadLens[r.Intn(len(conc.PadLens))]}
	case k%3 == 2:
		return conc.Plan{Stretch: true}
	default:
		return conc.Plan{Stretch: true, Lead: conc.PadLens[r.Intn(len(conc.PadLens))], Trail: conc.PadLens[r.Intn(len(conc.PadLens))]}
	}
}

func lexHandle(in []byte) []byte {
	var c lexCase
	if err := json.Unmarshal(in, &c); err != nil {
		return []byte(`{"error":"bad case"}`)
	}
	res := lexRes{ID: c.ID, PerAPI: map[string]int{}}
	od := obsBegin()
	debug.SetPanicOnFault(true) // a read past a guard page becomes a recoverable panic, attributed to the API that did it
	if c.V == "deep" {
		res.Skipped++
		out, _ := json.Marshal(res)
		return out
	}
	apis := lexAPIs
	if c.Prefix == "obj" {
		apis = append(append([]lexAPI{}, lexAPIs...), lexSkipAPIs...)
	}
	seen := map[string]bool{}
	for k := 0; k < c.M; k++ {
		r := rand.New(rand.NewSource(c.Seed*1000003 + int64(c.ID)*131 + int64(k)))
		plan := lexVariants(&c, k, r)
		plan.Gaps = c.Gaps
		b, _ := conc.Concrete(c.S, plan, r)
		if seen[string(b)] {
			continue
		}
		seen[string(b)] = true
		// reference oracle: encoding/json.Valid must agree with the specification's strict verdict
		if cs := concreteSig(c.Sig, b); cs["short_literal_at_end"] == "yes" {
			res.Tag = "short_literal_at_end"
		} else if cs["leading_zero_at_end"] == "yes" && res.Tag == "" {
			res.Tag = "leading_zero_at_end"
		}
		std := json.Valid(b)
		if (c.V == "accept") != std {
			res.Skipped++
			res.Bad = append(res.Bad, lexBad{ID: c.ID, API: "encoding/json.Valid", Kind: "oracle_disagreement", V: c.V, Sig: c.Sig, S: c.S,
				Input: base64.StdEncoding.EncodeToString(b), Text: printable(b)})
			continue
		}
		for _, a := range apis {
			// every API sees a private buffer of exact length, placed as the environment says
			bb := placeInput(b, k+len(res.PerAPI))
			acc, det, pan := callLex(a, bb)
			obsAdd(a.name, acc, det, pan)
			res.Evals++
			res.PerAPI[a.name]++
			kind := ""
			switch {
			case pan && strings.Contains(det, "invalid memory address"):
				kind = "fault" // the API touched memory outside the input (guard page)
			case pan:
				kind = "panic"
			case c.V == "accept" && !acc:
				if a.converts && !stdConverts(b) {
					break // a conversion error (1e999 into float64), shared with encoding/json: C01/C19's business
				}
				if a.std != nil && !a.std(b) {
					break // a valid document of another shape than the typed destination: a type error for both
				}
				kind = "valid_rejected"
			case c.V == "reject" && acc:
				kind = "malformed_accepted"
			}
			if kind != "" {
				res.Bad = append(res.Bad, lexBad{ID: c.ID, API: a.name, Kind: kind, V: c.V, Sig: concreteSig(c.Sig, b), S: c.S,
					Input: base64.StdEncoding.EncodeToString(b), Text: printable(b), Det: det})
			}
		}
	}
	res.DG, res.Log = od.sum, od.log
	out, _ := json.Marshal(res)
	return out
}

// concreteSig adds the concrete facts a known-finding predicate may need to the abstract
// signature: for an input that ends inside a string literal, whether at least 32 bytes follow
// the opening quote (the native string scanner's vector width).
func concreteSig(sig map[string]string, b []byte) map[string]string {
	out := map[string]string{}
	for k, v := range sig {
		out[k] = v
	}
	// a literal (true / false / null) that begins so close to the end of the input that its full length
	// would not fit: the native literal matcher loads four bytes at once
	{
		in, esc := false, false
		for i, ch := range b {
			switch {
			case !in && ch == '"':
				in = true
			case in && esc:
				esc = false
			case in && ch == '\\':
				esc = true
			case in && ch == '"':
				in = false
			case !in && ((ch == 't' || ch == 'n') && i+4 > len(b) || ch == 'f' && i+5 > len(b)):
				out["short_literal_at_end"] = "yes"
			}
		}
	}
	// the digit 0 as the first digit of a number at the very end of the input: the native number scanner
	// looks at the byte after a leading zero without checking that there is one
	if n := len(b); n > 0 && b[n-1] == '0' {
		k := n - 1
		for k > 0 && b[k-1] >= '0' && b[k-1] <= '9' {
			k--
		}
		inStr := false
		esc := false
		for _, ch := range b[:n-1] {
			switch {
			case !inStr && ch == '"':
				inStr = true
			case inStr && esc:
				esc = false
			case inStr && ch == '\\':
				esc = true
			case inStr && ch == '"':
				inStr = false
			}
		}
		if !inStr && (k == n-1 || b[k] == '0') {
			out["leading_zero_at_end"] = "yes"
		}
	}
	if sig["st"] == "run" && (sig["lx"] == "str" || sig["lx"] == "esc" || strings.HasPrefix(sig["lx"], "u")) {
		// find the opening quote of the unterminated literal: scan forward tracking string state
		open, in, esc := -1, false, false
		for i, ch := range b {
			switch {
			case !in && ch == '"':
				in, open = true, i
			case in && esc:
				esc = false
			case in && ch == '\\':
				esc = true
			case in && ch == '"':
				in = false
			}
		}
		n := len(b) - open - 1
		// The native scanner restarts its 32-byte vector loop after every escape sequence, so the exact
		// lengths that trigger the defect depend on where escapes fall; the predicate is kept coarse and
		// robust: at least one full vector block fits into the unterminated literal.
		if in {
			out["lx"] = "str" // trailing padding becomes string content: normalise the lexical state
		}
		if in && n >= 32 {
			out["tail"] = "ge32"
		} else {
			out["tail"] = "other"
		}
	}
	return out
}

func printable(b []byte) string {
	s := fmt.Sprintf("%q", b)
	if len(s) > 160 {
		s = s[:160] + "..."
	}
	return s
}

type lexSummary struct {
	Cases      int            `json:"cases"`
	Evals      int            `json:"evals"`
	Skipped    int            `json:"skipped"`
	ByVerdict  map[string]int `json:"by_verdict"`
	PerAPI     map[string]int `json:"per_api"`
	Bad        []lexBad       `json:"bad"`
	BadTotal   int            `json:"bad_total"`
	BadBySig   map[string]int `json:"bad_by_sig"`
	Crashes    []string       `json:"crashes"`
	Samples    []interface{}  `json:"samples"`
	NonTrivial int            `json:"distinct_nontrivial"`
	WallS      float64        `json:"wall_s"`
	Env        []string       `json:"env"`
}

func lexSigKey(b *lexBad) string {
	keys := make([]string, 0, len(b.Sig))
	for k := range b.Sig {
		keys = append(keys, k)
	}
	sort.Strings(keys)
	var sb strings.Builder
	sb.WriteString(b.API + "|" + b.Kind)
	for _, k := range keys {
		sb.WriteString("|" + k + "=" + b.Sig[k])
	}
	return sb.String()
}

func lexMain(args []string) int {
	fs := flag.NewFlagSet("lex", flag.ExitOnError)
	dump := fs.String("dump", "", "TLC dump file of GenLex")
	out := fs.String("out", "", "summary output (json)")
	seed := fs.Int64("seed", 1, "seed")
	m := fs.Int("m", 4, "concretisations per string")
	prefix := fs.String("prefix", "", "prefix kind of the configuration (obj|arr|\"\")")
	workers := fs.Int("workers", runtime.NumCPU(), "worker processes")
	envs := fs.String("env", "", "comma separated KEY=VALUE for the workers")
	maxBad := fs.Int("maxbad", 400, "max disagreement records kept")
	digests := fs.String("digests", "", "write per-case observation digests to this file")
	fs.Parse(args)
	t0 := time.Now()
	f, err := os.Open(*dump)
	if err != nil {
		fmt.Fprintln(os.Stderr, err)
		return 2
	}
	defer f.Close()
	sum := lexSummary{ByVerdict: map[string]int{}, PerAPI: map[string]int{}, BadBySig: map[string]int{}}
	if *envs != "" {
		sum.Env = strings.Split(*envs, ",")
	}
	var dgs digestFile
	cases := make(chan []byte, 1024)
	var perr error
	go func() {
		defer close(cases)
		perr = tlaval.ReadStates(f, func(n int, hdr string, st tlaval.State) error {
			c := lexCase{ID: n, V: tlaval.Str(st["v"]), Seed: *seed, M: *m, Prefix: *prefix}
			for _, x := range tlaval.Seq(st["s"]) {
				c.S = append(c.S, tlaval.Str(x))
			}
			for _, g := range tlaval.Seq(st["gaps"]) {
				c.Gaps = append(c.Gaps, tlaval.Int(g))
			}
			ms := tlaval.Rec(st["ms"])
			c.Sig = map[string]string{"st": tlaval.Str(ms["st"]), "exp": tlaval.Str(ms["exp"]), "lx": tlaval.Str(ms["lx"]),
				"depth": fmt.Sprint(len(tlaval.Seq(ms["stk"])))}
			if v, ok := st["ins"]; ok && tlaval.Int(v) == 1 {
				// one offending byte inserted earlier: the signature is that of the point of the error, as for a minimal rejected string
				c.Sig["st"], c.Sig["exp"], c.Sig["ins"] = "err", tlaval.Str(st["insexp"]), "1"
				c.Sig["ins_nested"] = "no" // the offending byte lies inside a container that is itself inside a container
				if tlaval.Int(st["insdepth"]) >= 2 {
					c.Sig["ins_nested"] = "yes"
				}
			}
			b, _ := json.Marshal(c)
			cases <- b
			return nil
		})
	}()
	err = workpool.Run(workpool.Options{
		Kind: "lex", Workers: *workers, Batch: 256, Env: sum.Env,
		OnResult: func(cl, rl []byte) {
			var r lexRes
			if json.Unmarshal(rl, &r) != nil {
				return
			}
			var c lexCase
			json.Unmarshal(cl, &c)
			sum.Cases++
			dgs.add(r.ID, r.DG)
			if r.Tag != "" {
				dgs.addTag(r.ID, r.Tag)
			} else {
				dgs.addTag(r.ID, "end="+c.Sig["st"]+"/"+c.Sig["lx"])
			}
			sum.ByVerdict[c.V]++
			sum.Evals += r.Evals
			sum.Skipped += r.Skipped
			if c.V == "accept" || (c.V == "reject" && len(c.S) > 0) {
				sum.NonTrivial++
			}
			for k, v := range r.PerAPI {
				sum.PerAPI[k] += v
			}
			for i := range r.Bad {
				sum.BadTotal++
				key := lexSigKey(&r.Bad[i])
				sum.BadBySig[key]++
				if sum.BadBySig[key] <= 3 && len(sum.Bad) < *maxBad {
					sum.Bad = append(sum.Bad, r.Bad[i])
				}
			}
			if len(sum.Samples) < 6 && sum.Cases%997 == 1 {
				sum.Samples = append(sum.Samples, map[string]interface{}{"classes": c.S, "verdict": c.V})
			}
		},
		OnCrash: func(c workpool.Crash) {
			st := c.Stderr
			if len(st) > 1500 {
				st = st[len(st)-1500:]
			}
			sum.Crashes = append(sum.Crashes, c.Reason+": "+string(c.Case)+"\n"+st)
		},
	}, cases)
	if err != nil || perr != nil {
		fmt.Fprintln(os.Stderr, "lex:", err, perr)
		return 2
	}
	sum.WallS = time.Since(t0).Seconds()
	dgs.write(*digests)
	b, _ := json.MarshalIndent(sum, "", " ")
	if *out != "" {
		os.WriteFile(*out, b, 0o644)
	} else {
		os.Stdout.Write(b)
	}
	return 0
}

func init() {
	subcmds["lex"] = lexMain
	subcmds["worker"] = func(args []string) int { return workpool.WorkerMain(args[0]) }
	workpool.Register("lex", lexHandle)
}
