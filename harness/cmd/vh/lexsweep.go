package main

// lexsweep: the byte-level concretisation of GenLex's Recover mode (invariant InsertedIsInvalid: one offending byte
// inserted anywhere in a document that goes on is invalid) over ALL 256 byte values: at every gap between two tokens of
// a document that exercises the typed decoder's framing code (struct fields, slices, maps, RawMessage capture, nested
// struct, interface{}), after 0..5 real blanks, each byte value is inserted; the document must be accepted exactly when
// encoding/json accepts it (it does for the four blanks and for the few bytes that extend a neighbouring token).

import (
	"encoding/json"
	"flag"
	"fmt"
	"os"
	"time"

	"github.com/bytedance/sonic"
)

type sweepT struct {
	A int             `json:"a"`
	S string          `json:"s"`
	L []int           `json:"l"`
	M map[string]bool `json:"m"`
	R json.RawMessage `json:"r"`
	N struct {
		B float64 `json:"b"`
	} `json:"n"`
	I interface{} `json:"i"`
	P *[2]int     `json:"p"`
}

type sweepAPI struct {
	name string
	f    func(b []byte) bool
	std  func(b []byte) bool
}

var sweepAPIs = []sweepAPI{
	{"Unmarshal.struct", func(b []byte) bool { var v sweepT; return sonic.Unmarshal(b, &v) == nil }, func(b []byte) bool { var v sweepT; return json.Unmarshal(b, &v) == nil }},
	{"ConfigStd.Unmarshal.struct", func(b []byte) bool { var v sweepT; return sonic.ConfigStd.Unmarshal(b, &v) == nil }, func(b []byte) bool { var v sweepT; return json.Unmarshal(b, &v) == nil }},
	{"UnmarshalString.struct", func(b []byte) bool { var v sweepT; return sonic.UnmarshalString(string(b), &v) == nil }, func(b []byte) bool { var v sweepT; return json.Unmarshal(b, &v) == nil }},
	{"Unmarshal.map[string]RawMessage", func(b []byte) bool { var v map[string]json.RawMessage; return sonic.Unmarshal(b, &v) == nil },
		func(b []byte) bool { var v map[string]json.RawMessage; return json.Unmarshal(b, &v) == nil }},
	{"Unmarshal.iface", func(b []byte) bool { var v interface{}; return sonic.Unmarshal(b, &v) == nil }, func(b []byte) bool { var v interface{}; return json.Unmarshal(b, &v) == nil }},
	{"Unmarshal.map[string]iface", func(b []byte) bool { var v map[string]interface{}; return sonic.Unmarshal(b, &v) == nil },
		func(b []byte) bool { var v map[string]interface{}; return json.Unmarshal(b, &v) == nil }},
	{"Valid", func(b []byte) bool { return sonic.Valid(b) }, json.Valid},
}

var sweepDocs = []string{
	`{"a":1,"s":"x","l":[1,2],"m":{"k":true},"r":{"q":[null]},"n":{"b":2.5},"i":[{"z":1}],"p":[3,4]}`,
	`{"l":[],"m":{},"r":[],"i":null,"a":-7}`,
}

type sweepBad struct {
	Kind string `json:"kind"`
	API  string `json:"api"`
	Text string `json:"text"`
	Byte int    `json:"byte"`
	Lead int    `json:"lead"`
	Sig  string `json:"sig"`
}

func lexsweepMain(args []string) int {
	fs := flag.NewFlagSet("lexsweep", flag.ExitOnError)
	out := fs.String("out", "", "summary")
	seed := fs.Int64("seed", 1, "seed")
	fs.Parse(args)
	t0 := time.Now()
	type sum struct {
		Cases    int            `json:"cases"`
		Evals    int            `json:"evals"`
		Gaps     int            `json:"gaps"`
		Valid    int            `json:"valid_variants"`
		Bad      []sweepBad     `json:"bad"`
		BadBySig map[string]int `json:"bad_by_sig"`
		WallS    float64        `json:"wall_s"`
	}
	S := sum{BadBySig: map[string]int{}}
	blanks := " \t\n\r"
	for di, doc := range sweepDocs {
		inStr := make([]bool, len(doc)+1) // inStr[p]: position p lies inside a string literal
		for i, in := 0, false; i < len(doc); i++ {
			if doc[i] == '"' {
				in = !in
			}
			inStr[i+1] = in
		}
		for p := 0; p <= len(doc); p++ {
			// a gap: between two tokens (a blank inserted here leaves the document valid, and it is not inside a string)
			if inStr[p] || !json.Valid([]byte(doc[:p]+" "+doc[p:])) {
				continue
			}
			S.Gaps++
			for lead := 0; lead <= 5; lead++ {
				pad := ""
				for i := 0; i < lead; i++ {
					pad += string(blanks[(i+p+di+int(*seed))%4])
				}
				for bv := 0; bv < 256; bv++ {
					text := []byte(doc[:p] + pad + string([]byte{byte(bv)}) + doc[p:])
					S.Cases++
					for _, a := range sweepAPIs {
						want := a.std(text)
						if want {
							S.Valid++
						}
						got, panicked := false, ""
						func() {
							defer func() {
								if r := recover(); r != nil {
									panicked = fmt.Sprint(r)
								}
							}()
							got = a.f(append([]byte{}, text...))
						}()
						S.Evals++
						kind := ""
						switch {
						case panicked != "":
							kind = "panic"
						case got && !want:
							kind = "malformed_accepted"
						case !got && want:
							kind = "valid_rejected"
						}
						if kind != "" {
							sig := kind + "|" + a.name
							S.BadBySig[sig]++
							if S.BadBySig[sig] <= 3 && len(S.Bad) < 60 {
								S.Bad = append(S.Bad, sweepBad{Kind: kind, API: a.name, Text: string(text), Byte: bv, Lead: lead, Sig: sig})
							}
						}
					}
				}
			}
		}
	}
	S.WallS = time.Since(t0).Seconds()
	b, _ := json.MarshalIndent(S, "", " ")
	if *out != "" {
		os.WriteFile(*out, b, 0o644)
	} else {
		os.Stdout.Write(b)
	}
	return 0
}

func init() { subcmds["lexsweep"] = lexsweepMain }
