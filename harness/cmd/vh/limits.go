package main

// limits: replay for property C07 (no input can crash, hang or panic the process; every error value
// is usable).  Cases come from spec/GenLimits.tla: (entry point, nesting shape, depth, closed or
// truncated) with the outcome class the depth-bounded machine of spec/Limits.tla requires.
// Every case runs in a worker process under a watchdog: a crash (fatal error, SIGSEGV), an
// unrecovered panic or a timeout is attributed to the case by the worker pool.  Every error
// returned is passed through the error monitor: Error() and Description() terminate without panic,
// the message is bounded, a reported position lies inside the input.

import (
	"bytes"
	"encoding/json"
	"flag"
	"fmt"
	"io"
	"os"
	"reflect"
	"runtime"
	"strings"
	"time"
	"unicode/utf8"

	"github.com/bytedance/sonic"
	"github.com/bytedance/sonic/ast"
	"github.com/bytedance/sonic/decoder"

	"verifharness/tlaval"
	"verifharness/workpool"
)

type limCase struct {
	ID     int    `json:"id"`
	API    string `json:"api"`
	Shape  string `json:"shape"`
	Depth  int    `json:"depth"`
	Closed bool   `json:"closed"`
	Expect string `json:"expect"` // value | error | any
}

type limRes struct {
	ID      int    `json:"id"`
	Outcome string `json:"outcome"` // value | error | panic
	Detail  string `json:"detail,omitempty"`
	ErrWF   string `json:"errwf,omitempty"`
	MsgLen  int    `json:"msglen"`
	Millis  int64  `json:"ms"`
}

func nestedDoc(shape string, depth int, closed bool) string {
	if strings.HasSuffix(shape, "sib") {
		// the root container gets one more member after the deep chain: what the traversal touches after
		// it has come back from the bound
		base := strings.TrimSuffix(shape, "sib")
		d := nestedDoc(base, depth, closed)
		if !closed || depth == 0 {
			return d
		}
		if d[len(d)-1] == ']' {
			return d[:len(d)-1] + ",1]"
		}
		return d[:len(d)-1] + `,"b":1}`
	}
	var sb strings.Builder
	sb.Grow(depth*8 + 16)
	open := func(i int) {
		switch {
		case shape == "arr" || (shape == "mixed" && i%2 == 0):
			sb.WriteByte('[')
		default:
			sb.WriteString(`{"a":`)
		}
	}
	closeB := func(i int) {
		switch {
		case shape == "arr" || (shape == "mixed" && i%2 == 0):
			sb.WriteByte(']')
		default:
			sb.WriteByte('}')
		}
	}
	for i := 0; i < depth; i++ {
		open(i)
	}
	sb.WriteString("1")
	if closed {
		for i := depth - 1; i >= 0; i-- {
			closeB(i)
		}
	}
	return sb.String()
}

type limSkip struct {
	A int `json:"keep"`
}
type limRaw struct {
	R json.RawMessage `json:"r"`
}
type limNode struct {
	Next *limNode `json:"n,omitempty"`
}

type limNode2 struct {
	N *limNode2 `json:"n"`
	V int       `json:"v"`
	W int       `json:"w"`
}

// a non-empty interface type and a non-pointer value that implements it (a destination holding one cannot be decoded into:
// encoding/json and sonic report a type mismatch and skip the value)
type limNamed interface{ LimM() }
type limByValue struct{ N int }

func (limByValue) LimM() {}

type limNode3 struct {
	V   int       `json:"v"`
	Dyn limNamed  `json:"dyn"`
	N   *limNode2 `json:"n"`
	W   int       `json:"w"`
}
type limTree struct {
	C []limTree `json:"c"`
	V int       `json:"v"`
	W int       `json:"w"`
}

type limVisitor struct{ n int }

func (v *limVisitor) OnNull() error                        { v.n++; return nil }
func (v *limVisitor) OnBool(bool) error                    { v.n++; return nil }
func (v *limVisitor) OnString(string) error                { v.n++; return nil }
func (v *limVisitor) OnInt64(int64, json.Number) error     { v.n++; return nil }
func (v *limVisitor) OnFloat64(float64, json.Number) error { v.n++; return nil }
func (v *limVisitor) OnObjectBegin(int) error              { v.n++; return nil }
func (v *limVisitor) OnObjectKey(string) error             { v.n++; return nil }
func (v *limVisitor) OnObjectEnd() error                   { v.n++; return nil }
func (v *limVisitor) OnArrayBegin(int) error               { v.n++; return nil }
func (v *limVisitor) OnArrayEnd() error                    { v.n++; return nil }

// monitor for error values with a larger bound than the decode replays use: limit paths excerpt the input
func errWFBounded(err error, inputLen int) (string, int) {
	if err == nil {
		return "", 0
	}
	problem := ""
	n := 0
	func() {
		defer func() {
			if r := recover(); r != nil {
				problem = fmt.Sprintf("formatting the error panics: %v", r)
			}
		}()
		msg := err.Error()
		n = len(msg)
		if t := strings.TrimSpace(msg); t == "" || strings.HasSuffix(t, ":") || !utf8.ValidString(msg) || strings.ContainsRune(msg, 0) {
			problem = fmt.Sprintf("error message without a reason or with garbage: %q", clip(msg, 120))
		}
		if d, ok := err.(interface{ Description() string }); ok {
			if l := len(d.Description()); l > n {
				n = l
			}
		}
	}()
	if problem != "" {
		return problem, n
	}
	if n > 2048 {
		return fmt.Sprintf("error message of %d bytes (input %d bytes): not bounded", n, inputLen), n
	}
	rv := reflect.ValueOf(err)
	if rv.Kind() == reflect.Ptr && !rv.IsNil() {
		rv = rv.Elem()
	}
	if rv.Kind() == reflect.Struct {
		if f := rv.FieldByName("Pos"); f.IsValid() && f.Kind() == reflect.Int {
			if p := int(f.Int()); p < 0 || p > inputLen {
				return fmt.Sprintf("error position %d outside the input of %d bytes", p, inputLen), n
			}
		}
	}
	return "", n
}

func limRun(c *limCase) (outcome, detail string, err error, inLen int) {
	doc := ""
	if c.API != "marshal_deep" && c.API != "marshal_cycle" {
		doc = nestedDoc(c.Shape, c.Depth, c.Closed)
	}
	inLen = len(doc)
	defer func() {
		if r := recover(); r != nil {
			outcome, detail = "panic", fmt.Sprint(r)
		}
	}()
	switch c.API {
	case "unmarshal_iface":
		var v interface{}
		err = sonic.UnmarshalString(doc, &v)
	case "unmarshal_std_iface":
		var v interface{}
		err = sonic.ConfigStd.UnmarshalFromString(doc, &v)
	case "unmarshal_skip":
		var v limSkip
		full := `{"x":` + doc + `,"keep":1}`
		inLen = len(full)
		err = sonic.UnmarshalString(full, &v)
	case "unmarshal_raw":
		var v limRaw
		full := `{"r":` + doc + `}`
		inLen = len(full)
		err = sonic.UnmarshalString(full, &v)
	case "unmarshal_typed":
		var d string
		switch c.Shape {
		case "objskip", "objbad":
			// depth objects; the innermost one has a value to skip (unknown key / wrong type) and then two known fields
			inner := `{"zz":[1,{"q":2}],"v":1,"w":2}`
			if c.Shape == "objbad" {
				inner = `{"v":"not a number","w":2,"v":3}`
			}
			n := c.Depth - 1
			if n < 0 {
				n = 0
			}
			d = strings.Repeat(`{"n":`, n) + inner
			if c.Closed {
				d += strings.Repeat("}", n)
			} else {
				d = d[:len(d)-1]
			}
			var v limNode2
			inLen = len(d)
			err = sonic.UnmarshalString(d, &v)
		case "objdyn":
			n := c.Depth - 1
			if n < 0 {
				n = 0
			}
			d = `{"v":"not a number","dyn":{"N":1},"n":` + strings.Repeat(`{"n":`, n) + `{"v":1,"w":2}`
			if c.Closed {
				d += strings.Repeat("}", n) + `,"w":2}`
			}
			v := limNode3{Dyn: limByValue{}}
			inLen = len(d)
			err = sonic.UnmarshalString(d, &v)
		case "tree":
			n := c.Depth - 1
			if n < 0 {
				n = 0
			}
			d = strings.Repeat(`{"c":[`, n) + `{"zz":0,"v":1,"w":2}`
			if c.Closed {
				d += strings.Repeat("]}", n)
			} else {
				d = d[:len(d)-1]
			}
			var v limTree
			inLen = len(d)
			err = sonic.UnmarshalString(d, &v)
		default:
			var v limNode
			d = strings.Repeat(`{"n":`, c.Depth) + "null"
			if c.Closed {
				d += strings.Repeat("}", c.Depth)
			}
			inLen = len(d)
			err = sonic.UnmarshalString(d, &v)
		}
	case "valid":
		if !sonic.ValidString(doc) {
			err = fmt.Errorf("invalid")
		}
	case "get":
		_, err = sonic.GetFromString(doc)
	case "get_path":
		if strings.HasPrefix(c.Shape, "obj") {
			_, err = sonic.GetFromString(doc, "a")
		} else {
			_, err = sonic.GetFromString(doc, 0)
		}
	case "node_load":
		n := ast.NewRaw(doc)
		err = n.LoadAll()
		if err == nil {
			err = n.Check()
		}
	case "node_interface":
		n := ast.NewRaw(doc)
		_, err = n.Interface()
	case "searcher_novalidate_interface":
		s := ast.NewSearcher(doc)
		s.ValidateJSON = false
		var n ast.Node
		n, err = s.GetByPath()
		if err == nil {
			_, err = n.Interface()
		}
	case "node_marshal":
		n := ast.NewRaw(doc)
		_, err = n.MarshalJSON()
	case "preorder":
		err = ast.Preorder(doc, &limVisitor{}, nil)
	case "stream":
		d := decoder.NewStreamDecoder(strings.NewReader(doc))
		var v interface{}
		err = d.Decode(&v)
		if err == io.EOF {
			err = fmt.Errorf("eof")
		}
	case "marshal_deep":
		var root interface{} = 1
		for i := 0; i < c.Depth; i++ {
			if strings.HasPrefix(c.Shape, "obj") || (strings.HasPrefix(c.Shape, "mixed") && i%2 == 1) {
				root = map[string]interface{}{"a": root}
			} else {
				root = []interface{}{root}
			}
		}
		var b []byte
		b, err = sonic.Marshal(root)
		inLen = len(b)
	case "marshal_cycle":
		n := &limNode{}
		n.Next = n
		var b []byte
		b, err = sonic.Marshal(n)
		inLen = len(b)
		if err == nil {
			err = nil
		}
	default:
		return "panic", "unknown api " + c.API, nil, 0
	}
	if err != nil {
		return "error", firstLine(errString(err)), err, inLen
	}
	return "value", "", nil, inLen
}

func errString(err error) (s string) {
	defer func() {
		if r := recover(); r != nil {
			s = fmt.Sprint("<Error() panics: ", r, ">")
		}
	}()
	return err.Error()
}

func limHandle(in []byte) []byte {
	var c limCase
	if err := json.Unmarshal(in, &c); err != nil {
		return []byte(`{"error":"bad case"}`)
	}
	t0 := time.Now()
	res := limRes{ID: c.ID}
	var err error
	var n int
	res.Outcome, res.Detail, err, n = limRun(&c)
	if err != nil {
		res.ErrWF, res.MsgLen = errWFBounded(err, n)
	}
	res.Millis = time.Since(t0).Milliseconds()
	runtime.GC()
	out, _ := json.Marshal(res)
	return out
}

type limBad struct {
	Kind   string  `json:"kind"`
	Case   limCase `json:"case"`
	Detail string  `json:"detail"`
	Sig    string  `json:"sig"`
}

type limSummary struct {
	Cases    int            `json:"cases"`
	Outcomes map[string]int `json:"outcomes"`
	Bad      []limBad       `json:"bad"`
	BadBySig map[string]int `json:"bad_by_sig"`
	Table    []string       `json:"table"`
	MaxMs    int64          `json:"max_ms"`
	MaxMsg   int            `json:"max_msglen"`
	Wall     float64        `json:"wall_s"`
}

func limitsMain(args []string) int {
	fs := flag.NewFlagSet("limits", flag.ExitOnError)
	dump := fs.String("dump", "", "TLC dump of GenLimits")
	out := fs.String("out", "", "summary")
	workers := fs.Int("workers", 4, "workers (deep inputs need memory: keep this small)")
	envs := fs.String("env", "", "comma separated KEY=VALUE for the workers")
	fs.Parse(args)
	t0 := time.Now()
	S := limSummary{Outcomes: map[string]int{}, BadBySig: map[string]int{}}
	byID := map[int]limCase{}
	var env []string
	if *envs != "" {
		env = strings.Split(*envs, ",")
	}
	add := func(b limBad) {
		S.BadBySig[b.Sig]++
		if S.BadBySig[b.Sig] <= 2 && len(S.Bad) < 300 {
			S.Bad = append(S.Bad, b)
		}
	}
	cases := make(chan []byte, 64)
	var perr error
	go func() {
		defer close(cases)
		f, err := os.Open(*dump)
		if err != nil {
			perr = err
			return
		}
		defer f.Close()
		id := 0
		perr = tlaval.ReadStates(f, func(n int, hdr string, st tlaval.State) error {
			id++
			c := limCase{ID: id, API: tlaval.Str(st["api"]), Shape: tlaval.Str(st["shape"]), Depth: tlaval.Int(st["depth"]),
				Closed: tlaval.Bool(st["closed"]), Expect: tlaval.Str(st["expect"])}
			byID[id] = c
			b, _ := json.Marshal(c)
			cases <- b
			return nil
		})
	}()
	err := workpool.Run(workpool.Options{Kind: "limits", Workers: *workers, Batch: 1, Env: env, CaseTimeout: 12 * time.Second,
		OnResult: func(cl, rl []byte) {
			var r limRes
			if json.Unmarshal(rl, &r) != nil {
				return
			}
			var c limCase
			json.Unmarshal(cl, &c)
			S.Cases++
			S.Outcomes[r.Outcome]++
			if r.Millis > S.MaxMs {
				S.MaxMs = r.Millis
			}
			if r.MsgLen > S.MaxMsg {
				S.MaxMsg = r.MsgLen
			}
			S.Table = append(S.Table, fmt.Sprintf("%s %s %d closed=%v -> %s (%d ms) %s", c.API, c.Shape, c.Depth, c.Closed, r.Outcome, r.Millis, clip(r.Detail, 80)))
			cls := fmt.Sprintf("%s|%s|closed=%v", c.API, c.Shape, c.Closed)
			if r.Outcome == "panic" {
				add(limBad{Kind: "panic", Case: c, Detail: r.Detail, Sig: "panic|" + cls})
			} else if c.Expect != "any" && r.Outcome != c.Expect {
				add(limBad{Kind: "wrong_outcome", Case: c, Detail: fmt.Sprintf("the depth-bounded machine requires %s, got %s %s", c.Expect, r.Outcome, r.Detail), Sig: "wrong_outcome|" + cls})
			}
			if r.ErrWF != "" {
				add(limBad{Kind: "error_not_wellformed", Case: c, Detail: r.ErrWF, Sig: "error_not_wellformed|" + cls})
			}
		},
		OnCrash: func(cr workpool.Crash) {
			var c limCase
			json.Unmarshal(cr.Case, &c)
			kind := "crash"
			if cr.Reason == "timeout" {
				kind = "hang"
			}
			first := firstFatal(cr.Stderr)
			add(limBad{Kind: kind, Case: c, Detail: cr.Reason + ": " + first, Sig: kind + "|" + fmt.Sprintf("%s|%s|closed=%v", c.API, c.Shape, c.Closed)})
			S.Outcomes[kind]++
			S.Table = append(S.Table, fmt.Sprintf("%s %s %d closed=%v -> %s %s", c.API, c.Shape, c.Depth, c.Closed, kind, clip(first, 80)))
		}}, cases)
	if err != nil || perr != nil {
		fmt.Fprintln(os.Stderr, "limits:", err, perr)
		return 2
	}
	S.Wall = time.Since(t0).Seconds()
	b, _ := json.MarshalIndent(S, "", " ")
	if *out != "" {
		os.WriteFile(*out, b, 0o644)
	}
	fmt.Printf("{\"cases\":%d,\"bad_sigs\":%d}\n", S.Cases, len(S.BadBySig))
	return 0
}

func firstFatal(stderr string) string {
	for _, l := range strings.Split(stderr, "\n") {
		if strings.HasPrefix(l, "fatal error") || strings.HasPrefix(l, "panic:") || strings.Contains(l, "SIGSEGV") || strings.HasPrefix(l, "runtime: goroutine stack exceeds") {
			return l
		}
	}
	return clip(strings.TrimSpace(stderr), 200)
}

var _ = bytes.NewReader

func init() {
	subcmds["limits"] = limitsMain
	workpool.Register("limits", limHandle)
}
