// Command vh is the conformance harness binding the TLA+ specification to bytedance/sonic.
package main

import (
	"fmt"
	"os"
)

type subcmd func(args []string) int

var subcmds = map[string]subcmd{}

func main() {
	if len(os.Args) < 2 {
		fmt.Fprintln(os.Stderr, "usage: vh <subcommand> ...")
		os.Exit(2)
	}
	f, ok := subcmds[os.Args[1]]
	if !ok {
		fmt.Fprintln(os.Stderr, "unknown subcommand", os.Args[1])
		os.Exit(2)
	}
	os.Exit(f(os.Args[2:]))
}
