package main

// num: replay for property C19 (numbers convert exactly in both directions).
// (A) literal shapes of GenNum with the rule each destination must apply, three-way against
//     encoding/json; (B) integer magnitudes sign*(2^k+delta) with the specification's range verdict,
//     values built with math/big; (C) float boundary classes built with math/big (halfway cases,
//     subnormals, thresholds, long mantissas), judged by strconv.ParseFloat; (D) printing of floats
//     and integers against encoding/json and the specification's notation rule.

import (
	"encoding/json"
	"flag"
	"fmt"
	"math"
	"math/big"
	"math/rand"
	"os"
	"reflect"
	"runtime"
	"sort"
	"strconv"
	"strings"
	"time"

	"github.com/bytedance/sonic"

	"verifharness/tlaval"
	"verifharness/workpool"
)

type numCase struct {
	ID    int               `json:"id"`
	Kind  string            `json:"kind"` // shape | mag | lits
	S     []string          `json:"s,omitempty"`
	Rules map[string]string `json:"rules,omitempty"`
	Neg   bool              `json:"neg,omitempty"`
	K     int               `json:"k,omitempty"`
	Delta int               `json:"delta,omitempty"`
	In    map[string]bool   `json:"inrange,omitempty"`
	Lits  []string          `json:"lits,omitempty"`
	Class string            `json:"class,omitempty"`
	Seed  int64             `json:"seed"`
}

type numBad struct {
	Kind  string `json:"kind"`
	Dest  string `json:"dest"`
	Lit   string `json:"lit"`
	Class string `json:"class"`
	Want  string `json:"want"`
	Got   string `json:"got"`
	Sig   string `json:"sig"`
}

type numRes struct {
	DG     uint64   `json:"dg"`
	ID     int      `json:"id"`
	Evals  int      `json:"evals"`
	Oracle int      `json:"oracle_disagreements"`
	Bad    []numBad `json:"bad,omitempty"`
}

var numDests = map[string]func() interface{}{
	"int8": func() interface{} { return new(int8) }, "int16": func() interface{} { return new(int16) },
	"int32": func() interface{} { return new(int32) }, "int64": func() interface{} { return new(int64) }, "int": func() interface{} { return new(int) },
	"uint8": func() interface{} { return new(uint8) }, "uint16": func() interface{} { return new(uint16) },
	"uint32": func() interface{} { return new(uint32) }, "uint64": func() interface{} { return new(uint64) }, "uint": func() interface{} { return new(uint) },
	"float32": func() interface{} { return new(float32) }, "float64": func() interface{} { return new(float64) },
	"Number": func() interface{} { return new(json.Number) }, "iface": func() interface{} { return new(interface{}) },
	"string": func() interface{} { return new(string) }, "bool": func() interface{} { return new(bool) },
}

func showVal(p interface{}) string {
	v := reflect.ValueOf(p).Elem().Interface()
	switch x := v.(type) {
	case float64:
		return fmt.Sprintf("f64:%016x", math.Float64bits(x))
	case float32:
		return fmt.Sprintf("f32:%08x", math.Float32bits(x))
	case interface{}:
		if f, ok := x.(float64); ok {
			return fmt.Sprintf("f64:%016x", math.Float64bits(f))
		}
	}
	return fmt.Sprintf("%T:%v", v, v)
}

func (res *numRes) bad(kind, dest, lit, class, want, got string) {
	if len(res.Bad) < 8 {
		cl := class
		if len(lit) > 60 {
			lit = lit[:60] + "..."
		}
		res.Bad = append(res.Bad, numBad{Kind: kind, Dest: dest, Lit: lit, Class: cl, Want: want, Got: got, Sig: kind + "|" + dest + "|" + class})
	}
}

// decodeBoth decodes lit into a fresh destination with encoding/json and with sonic (ConfigStd).
func decodeBoth(dest, lit string, api sonic.API) (stdVal string, stdErr bool, sVal string, sErr bool) {
	ps, pg := numDests[dest](), numDests[dest]()
	e1 := json.Unmarshal([]byte(lit), ps)
	var e2 error
	func() {
		defer func() {
			if r := recover(); r != nil {
				e2 = fmt.Errorf("panic: %v", r)
			}
		}()
		e2 = api.UnmarshalFromString(lit, pg)
	}()
	obsAdd(dest, lit, showVal(pg), e2)
	return showVal(ps), e1 != nil, showVal(pg), e2 != nil
}

var numDestNames = func() []string {
	var out []string
	for d := range numDests {
		out = append(out, d)
	}
	sort.Strings(out)
	return out
}()

func numCheckLit(res *numRes, lit, class string, rules map[string]string) {
	for _, dest := range numDestNames {
		stdVal, stdErr, sVal, sErr := decodeBoth(dest, lit, sonic.ConfigStd)
		res.Evals++
		if rules != nil {
			// oracle agreement: the deterministic rules of the specification must be what encoding/json does
			switch rules[dest] {
			case "syntax", "mismatch":
				if !stdErr {
					res.Oracle++
					continue
				}
			case "text":
				if stdErr {
					res.Oracle++
					continue
				}
			}
		}
		cl := class
		if dest == "float32" && (stdErr != sErr || stdVal != sVal) {
			// deviation signature: the result is what rounding to float64 first and then to float32 gives
			if f64, err := strconv.ParseFloat(lit, 64); err == nil || math.IsInf(f64, 0) {
				via := float32(f64)
				if (math.IsInf(float64(via), 0) && sErr) || (!sErr && sVal == fmt.Sprintf("f32:%08x", math.Float32bits(via))) {
					cl = "float32_via_float64"
				}
			}
		}
		if (dest == "float64" || dest == "float32" || dest == "iface") && !stdErr && !sErr && stdVal != sVal && isNegZeroInt(lit) {
			cl = "negative_zero_integer_literal"
		}
		if stdErr != sErr {
			res.bad("error_mismatch", dest, lit, cl, fmt.Sprint("err=", stdErr, " ", stdVal), fmt.Sprint("err=", sErr, " ", sVal))
		} else if !stdErr && stdVal != sVal {
			res.bad("wrong_value", dest, lit, cl, stdVal, sVal)
		}
	}
	// the number options for interface{}
	for _, o := range []struct {
		name string
		cfg  sonic.Config
		std  func(d *json.Decoder)
	}{{"iface_number", sonic.Config{UseNumber: true}, func(d *json.Decoder) { d.UseNumber() }}} {
		var a, b interface{}
		d := json.NewDecoder(strings.NewReader(lit))
		o.std(d)
		e1 := d.Decode(&a)
		if e1 == nil && d.More() {
			e1 = fmt.Errorf("trailing")
		}
		e2 := o.cfg.Froze().UnmarshalFromString(lit, &b)
		res.Evals++
		if (e1 != nil) != (e2 != nil) {
			res.bad("error_mismatch", o.name, lit, class, fmt.Sprint(e1), fmt.Sprint(e2))
		} else if e1 == nil && !reflect.DeepEqual(a, b) {
			res.bad("wrong_value", o.name, lit, class, fmt.Sprintf("%T:%v", a, a), fmt.Sprintf("%T:%v", b, b))
		}
	}
	// UseInt64: an int64 when the literal is an integer in range, the float64 otherwise
	{
		var b interface{}
		e2 := sonic.Config{UseInt64: true}.Froze().UnmarshalFromString(lit, &b)
		var a interface{}
		e1 := json.Unmarshal([]byte(lit), &a)
		res.Evals++
		if (e1 != nil) != (e2 != nil) {
			res.bad("error_mismatch", "iface_int64", lit, class, fmt.Sprint(e1), fmt.Sprint(e2))
		} else if e1 == nil {
			if iv, err := strconv.ParseInt(lit, 10, 64); err == nil {
				if got, ok := b.(int64); !ok || got != iv {
					res.bad("wrong_value", "iface_int64", lit, class, fmt.Sprint("int64:", iv), fmt.Sprintf("%T:%v", b, b))
				}
			} else if got, ok := b.(float64); !ok || math.Float64bits(got) != math.Float64bits(a.(float64)) {
				res.bad("wrong_value", "iface_int64", lit, class, fmt.Sprintf("%T:%v", a, a), fmt.Sprintf("%T:%v", b, b))
			}
		}
	}
	// ast.Node accessors on valid literals
	if json.Valid([]byte(lit)) {
		if n, err := sonic.GetFromString(lit); err == nil {
			if f, err := n.Float64(); err == nil {
				want, werr := strconv.ParseFloat(lit, 64)
				res.Evals++
				if werr == nil && math.Float64bits(f) != math.Float64bits(want) {
					res.bad("wrong_value", "Node.Float64", lit, class, fmt.Sprintf("%016x", math.Float64bits(want)), fmt.Sprintf("%016x", math.Float64bits(f)))
				}
			}
			if num, err := n.Number(); err == nil && string(num) != lit {
				res.bad("wrong_value", "Node.Number", lit, class, lit, string(num))
			}
		}
	}
}

// isNegZeroInt: "-0", "-00"... : a negative integer literal whose digits are all zero
func isNegZeroInt(lit string) bool {
	if len(lit) < 2 || lit[0] != '-' {
		return false
	}
	for _, c := range lit[1:] {
		if c != '0' {
			return false
		}
	}
	return true
}

func numConcretise(s []string, r *rand.Rand, digits bool) string {
	var sb strings.Builder
	for _, c := range s {
		switch c {
		case "mi":
			sb.WriteByte('-')
		case "d0":
			sb.WriteByte('0')
		case "d1":
			sb.WriteByte(byte('1' + r.Intn(9)))
			if digits {
				for k := r.Intn(3); k > 0; k-- {
					sb.WriteByte(byte('0' + r.Intn(10)))
				}
			}
		case "dt":
			sb.WriteByte('.')
		case "le":
			sb.WriteByte('e')
		case "ue":
			sb.WriteByte('E')
		case "pl":
			sb.WriteByte('+')
		}
	}
	return sb.String()
}

func numHandle(in []byte) []byte {
	var c numCase
	if err := json.Unmarshal(in, &c); err != nil {
		return []byte(`{"error":"bad case"}`)
	}
	res := numRes{ID: c.ID}
	od := obsBegin()
	defer func() {}()
	r := rand.New(rand.NewSource(c.Seed*1000003 + int64(c.ID)))
	switch c.Kind {
	case "shape":
		for k := 0; k < 2; k++ {
			lit := numConcretise(c.S, r, k == 1)
			// exponent digits were not multiplied: values stay in float range unless the shape itself says otherwise
			numCheckLit(&res, lit, "shape", c.Rules)
		}
	case "mag":
		v := new(big.Int).Lsh(big.NewInt(1), uint(c.K))
		v.Add(v, big.NewInt(int64(c.Delta)))
		if c.Neg {
			v.Neg(v)
		}
		lit := v.String()
		class := fmt.Sprintf("2^%d%+d", c.K, c.Delta)
		var inDests []string
		for d := range c.In {
			inDests = append(inDests, d)
		}
		sort.Strings(inDests)
		for _, dest := range inDests {
			in := c.In[dest]
			stdVal, stdErr, sVal, sErr := decodeBoth(dest, lit, sonic.ConfigStd)
			res.Evals++
			if stdErr == in { // encoding/json must agree with the specification's range verdict
				res.Oracle++
				continue
			}
			if sErr == in {
				res.bad("range_verdict", dest, lit, class, fmt.Sprint("in range=", in, " ", stdVal), fmt.Sprint("err=", sErr, " ", sVal))
			} else if in && stdVal != sVal {
				res.bad("wrong_value", dest, lit, class, stdVal, sVal)
			}
		}
		// as map keys too (integer-keyed maps parse their keys with the same width)
		for _, mk := range []struct {
			dest string
			mk   func() interface{}
		}{{"map[int8]", func() interface{} { return new(map[int8]int) }}, {"map[uint32]", func() interface{} { return new(map[uint32]int) }},
			{"map[int64]", func() interface{} { return new(map[int64]int) }}, {"map[uint64]", func() interface{} { return new(map[uint64]int) }}} {
			doc := `{"` + lit + `":1}`
			a, b := mk.mk(), mk.mk()
			e1 := json.Unmarshal([]byte(doc), a)
			e2 := sonic.ConfigStd.UnmarshalFromString(doc, b)
			res.Evals++
			if (e1 != nil) != (e2 != nil) {
				res.bad("error_mismatch", mk.dest, lit, class, fmt.Sprint(e1), fmt.Sprint(e2))
			} else if e1 == nil && !reflect.DeepEqual(a, b) {
				res.bad("wrong_value", mk.dest, lit, class, fmt.Sprint(reflect.ValueOf(a).Elem()), fmt.Sprint(reflect.ValueOf(b).Elem()))
			}
		}
	case "lits":
		for _, lit := range c.Lits {
			numCheckLit(&res, lit, c.Class, nil)
		}
	}
	res.DG = od.sum
	out, _ := json.Marshal(res)
	return out
}

// ---- float boundary classes, built exactly with math/big ----

func ratDecimal(x *big.Rat, digits int) string {
	return x.FloatString(digits)
}

// halfway between f and the next float64 above it, as an exact decimal
func halfway64(f float64) *big.Rat {
	a := new(big.Rat).SetFloat64(f)
	b := new(big.Rat).SetFloat64(math.Nextafter(f, math.Inf(1)))
	return a.Add(a, b).Quo(a, big.NewRat(2, 1))
}

func halfway32(f float32) *big.Rat {
	a := new(big.Rat).SetFloat64(float64(f))
	b := new(big.Rat).SetFloat64(float64(math.Nextafter32(f, float32(math.Inf(1)))))
	return a.Add(a, b).Quo(a, big.NewRat(2, 1))
}

func trimZeros(s string) string {
	if strings.Contains(s, ".") {
		s = strings.TrimRight(s, "0")
		s = strings.TrimSuffix(s, ".")
	}
	return s
}

func floatClasses(r *rand.Rand, n int) map[string][]string {
	out := map[string][]string{}
	add := func(class, lit string) { out[class] = append(out[class], lit) }
	// halfway cases of float64 and a hair above / below
	for i := 0; i < n; i++ {
		f := math.Float64frombits(r.Uint64() &^ (1 << 63))
		if math.IsNaN(f) || math.IsInf(f, 0) || f > 1e300 || f < 1e-300 {
			f = r.Float64() * math.Pow(10, float64(r.Intn(40)-20))
		}
		h := halfway64(f)
		d := trimZeros(ratDecimal(h, 1100))
		add("halfway64", d)
		add("halfway64_above", d+"0000000000000000000000001")
		if len(d) > 3 && strings.Contains(d, ".") {
			add("halfway64_below", d[:len(d)-1]+"49999999999999999999")
		}
		if i%3 == 0 {
			add("halfway64", "-"+d)
		}
	}
	// halfway cases of float32 (double rounding traps when going through float64)
	for i := 0; i < n; i++ {
		f := math.Float32frombits(r.Uint32() &^ (1 << 31))
		if f != f || math.IsInf(float64(f), 0) || f > 1e30 || f < 1e-30 {
			f = float32(r.Float64() * math.Pow(10, float64(r.Intn(20)-10)))
		}
		h := halfway32(f)
		d := trimZeros(ratDecimal(h, 200))
		add("halfway32", d)
		add("halfway32_above", d+"0000000000000000000000000000000000000001")
		if len(d) > 3 && strings.Contains(d, ".") {
			add("halfway32_below", d[:len(d)-1]+"4999999999999999999999999999999999")
		}
	}
	add("halfway32_above", "1.00000005960464477539062500000000000000000001")
	// zeros
	for _, z := range []string{"0", "-0", "0.0", "-0.0", "0e5", "-0e5", "0.000e-10", "-0.0E+7", "0e0"} {
		add("zero", z)
	}
	// subnormal boundaries, extremes, overflow threshold
	for _, s := range []string{"5e-324", "4.9e-324", "2.4703282292062327e-324", "2.4703282292062328e-324", "2.47e-324", "1e-324", "3e-324",
		"2.2250738585072014e-308", "2.2250738585072011e-308", "2.225073858507201e-308", "1.7976931348623157e308", "1.7976931348623158e308",
		"1.797693134862315807e308", "1.797693134862315808e308", "1.8e308", "1e308", "1e309", "-1e309", "1e400", "1e-400", "1e-10000", "1e10000",
		"1.401298464324817e-45", "7e-46", "3.4028234663852886e38", "3.4028235677973366e38", "3.4028235677973367e38", "3.5e38", "1e39",
		"1.1754943508222875e-38", "1.17549421e-38",
		// between MaxFloat32 and the halfway point to 2^128: rounds down to MaxFloat32 (not an overflow)
		"3.4028235e+38", "3.40282347e+38", "3.4028235677973362e+38", "3.40282351e38", "340282350000000000000000000000000000000",
		// just below / above the smallest float32 subnormal's halfway point
		"7.006492321624085e-46", "7.0064923216240854e-46", "7.006492321624086e-46", "1.4e-45", "2.1e-45", "2.2e-45"} {
		add("extreme", s)
		add("extreme", "-"+s)
	}
	// long mantissas and exponent spellings
	for i := 0; i < 12; i++ {
		digits := make([]byte, []int{19, 20, 21, 30, 100, 400, 801, 1000}[i%8])
		for j := range digits {
			digits[j] = byte('0' + r.Intn(10))
		}
		if digits[0] == '0' {
			digits[0] = '7'
		}
		d := string(digits)
		add("long_mantissa", d)
		add("long_mantissa", d[:1]+"."+d[1:])
		add("long_mantissa", "0."+d+"e"+fmt.Sprint(r.Intn(40)))
		add("long_mantissa", d+"e-"+fmt.Sprint(len(d)+r.Intn(30)))
	}
	for _, s := range []string{"1e+5", "1E5", "1e005", "1e-005", "1.5e+0", "100e-2", "0.1e1", "123456789012345678", "9007199254740993", "9007199254740992",
		"9007199254740991", "0.1", "0.2", "0.3", "1.1", "2.2250738585072012e-308", "4.35", "0.000001", "0.0000001", "1e21", "1e20", "123456789e-9"} {
		add("spelling", s)
	}
	return out
}

// ---- printing ----

type numPrintBad = numBad

func numPrintCheck(r *rand.Rand, n int) (evals int, bads []numBad) {
	bad := func(kind, dest, val, want, got string) {
		if len(bads) < 30 {
			bads = append(bads, numBad{Kind: kind, Dest: dest, Lit: val, Class: "print", Want: want, Got: got, Sig: kind + "|" + dest + "|print"})
		}
	}
	check := func(dest string, v interface{}, name string) {
		want, e1 := json.Marshal(v)
		got, e2 := sonic.ConfigStd.Marshal(v)
		evals++
		if (e1 != nil) != (e2 != nil) {
			bad("print_error_mismatch", dest, name, fmt.Sprint(e1), fmt.Sprint(e2))
		} else if e1 == nil && string(want) != string(got) {
			bad("print_differs", dest, name, string(want), string(got))
		}
		got2, e3 := sonic.Marshal(v)
		if e1 == nil && (e3 != nil || string(got2) != string(want)) {
			bad("print_differs_default", dest, name, string(want), string(got2))
		}
	}
	var f64s []float64
	for e := -12; e <= 25; e++ {
		p := math.Pow(10, float64(e))
		f64s = append(f64s, p, math.Nextafter(p, 0), math.Nextafter(p, math.Inf(1)), -p, 1.5*p, 9.999999999999999*p/10)
	}
	f64s = append(f64s, 0, math.Copysign(0, -1), math.MaxFloat64, math.SmallestNonzeroFloat64, 5e-324, 2.2250738585072014e-308, 1e-7, 1e-6, 9.9e-7,
		1e21, 1e20, 123456789012345678, 0.1, 0.2, 0.3, 1.0/3, 2.0/3, 100, 1e15, 1e16, 1e17, 4.35, 0.000001, 0.0000001)
	for i := 0; i < n; i++ {
		f := math.Float64frombits(r.Uint64())
		if !math.IsNaN(f) && !math.IsInf(f, 0) {
			f64s = append(f64s, f)
		}
		f64s = append(f64s, float64(r.Int63())/math.Pow(10, float64(r.Intn(18))))
	}
	for _, f := range f64s {
		check("float64", f, strconv.FormatFloat(f, 'g', -1, 64))
		check("*float64", &f, strconv.FormatFloat(f, 'g', -1, 64))
		// the specification's notation rule, on the reference's own shortest digits
		es := strconv.FormatFloat(math.Abs(f), 'e', -1, 64)
		if f != 0 {
			x, _ := strconv.Atoi(es[strings.IndexByte(es, 'e')+1:])
			wantExp := x < -6 || x >= 21
			got, err := sonic.ConfigStd.Marshal(f)
			if err == nil && strings.ContainsAny(string(got), "eE") != wantExp {
				bad("notation", "float64", es, fmt.Sprint("exp form=", wantExp), string(got))
			}
		}
	}
	var f32s []float32
	for e := -10; e <= 22; e++ {
		p := float32(math.Pow(10, float64(e)))
		f32s = append(f32s, p, math.Nextafter32(p, 0), math.Nextafter32(p, float32(math.Inf(1))), -p)
	}
	f32s = append(f32s, 0, float32(math.Copysign(0, -1)), math.MaxFloat32, math.SmallestNonzeroFloat32, 0.1, 0.2, 1e-7, 1e21, 16777216, 16777217)
	for i := 0; i < n; i++ {
		f := math.Float32frombits(r.Uint32())
		if f == f && !math.IsInf(float64(f), 0) {
			f32s = append(f32s, f)
		}
	}
	for _, f := range f32s {
		check("float32", f, strconv.FormatFloat(float64(f), 'g', -1, 32))
	}
	ints := []interface{}{int8(math.MinInt8), int8(math.MaxInt8), int16(math.MinInt16), int16(math.MaxInt16), int32(math.MinInt32), int32(math.MaxInt32),
		int64(math.MinInt64), int64(math.MaxInt64), int(math.MinInt64), uint8(math.MaxUint8), uint16(math.MaxUint16), uint32(math.MaxUint32),
		uint64(math.MaxUint64), uint(math.MaxUint64), int64(0), int64(-1), uint64(0), uintptr(12345)}
	for i := 0; i < n/4; i++ {
		ints = append(ints, r.Int63(), -r.Int63(), r.Uint64(), int32(r.Int31()), uint32(r.Uint32()), int64(r.Intn(2000)-1000))
	}
	for _, v := range ints {
		check(fmt.Sprintf("%T", v), v, fmt.Sprint(v))
	}
	// every width in every position that has its own opcode or key renderer: map key (sorted and unsorted paths), slice element,
	// struct field, `,string` field, pointer, interface
	for _, v := range ints[:18] {
		rv := reflect.ValueOf(v)
		t := rv.Type()
		name := fmt.Sprintf("%T(%v)", v, v)
		m := reflect.MakeMap(reflect.MapOf(t, reflect.TypeOf(0)))
		m.SetMapIndex(rv, reflect.ValueOf(1))
		check("map["+t.String()+"]int key", m.Interface(), name)
		sl := reflect.MakeSlice(reflect.SliceOf(t), 2, 2)
		sl.Index(0).Set(rv)
		sl.Index(1).Set(rv)
		check("[]"+t.String(), sl.Interface(), name)
		st := reflect.New(reflect.StructOf([]reflect.StructField{{Name: "A", Type: t}, {Name: "S", Type: t, Tag: `json:",string"`},
			{Name: "P", Type: reflect.PtrTo(t)}, {Name: "I", Type: reflect.TypeOf((*interface{})(nil)).Elem()}})).Elem()
		st.Field(0).Set(rv)
		st.Field(1).Set(rv)
		p := reflect.New(t)
		p.Elem().Set(rv)
		st.Field(2).Set(p)
		st.Field(3).Set(rv)
		check("struct{"+t.String()+" fields}", st.Interface(), name)
	}
	return
}

type numSummary struct {
	Cases      int            `json:"cases"`
	Evals      int            `json:"evals"`
	Oracle     int            `json:"oracle_disagreements"`
	BadBySig   map[string]int `json:"bad_by_sig"`
	Bad        []numBad       `json:"bad"`
	Crashes    []string       `json:"crashes"`
	Samples    []interface{}  `json:"samples"`
	NonTrivial int            `json:"distinct_nontrivial"`
	Classes    map[string]int `json:"float_classes"`
	WallS      float64        `json:"wall_s"`
}

func numMain(args []string) int {
	fs := flag.NewFlagSet("num", flag.ExitOnError)
	dump := fs.String("dump", "", "TLC dump of GenNum (shapes)")
	dumpMag := fs.String("dumpmag", "", "TLC dump of GenNum (mags)")
	out := fs.String("out", "", "summary")
	seed := fs.Int64("seed", 1, "seed")
	nfl := fs.Int("floats", 150, "random floats per boundary class")
	workers := fs.Int("workers", runtime.NumCPU(), "workers")
	envs := fs.String("env", "", "comma separated KEY=VALUE for the workers")
	digests := fs.String("digests", "", "write per-case observation digests to this file")
	fs.Parse(args)
	t0 := time.Now()
	var dgs digestFile
	S := numSummary{BadBySig: map[string]int{}, Classes: map[string]int{}}
	var env []string
	if *envs != "" {
		env = strings.Split(*envs, ",")
	}
	add := func(b numBad) {
		S.BadBySig[b.Sig]++
		if S.BadBySig[b.Sig] <= 3 && len(S.Bad) < 300 {
			S.Bad = append(S.Bad, b)
		}
	}
	cases := make(chan []byte, 1024)
	var perr error
	go func() {
		defer close(cases)
		id := 0
		for _, d := range []string{*dump, *dumpMag} {
			if d == "" {
				continue
			}
			f, err := os.Open(d)
			if err != nil {
				perr = err
				return
			}
			perr = tlaval.ReadStates(f, func(n int, hdr string, st tlaval.State) error {
				id++
				e := tlaval.Rec(st["e"])
				c := numCase{ID: id, Seed: *seed}
				if _, ok := e["inrange"]; ok {
					c.Kind, c.Neg, c.K, c.Delta = "mag", tlaval.Bool(e["neg"]), tlaval.Int(e["k"]), tlaval.Int(e["delta"])
					c.In = map[string]bool{}
					for k, v := range tlaval.Rec(e["inrange"]) {
						c.In[k] = tlaval.Bool(v)
					}
				} else {
					c.Kind = "shape"
					c.S = tokensOf(st["s"])
					if len(c.S) == 0 {
						return nil
					}
					c.Rules = map[string]string{}
					for k, v := range tlaval.Rec(e["rules"]) {
						c.Rules[k] = tlaval.Str(v)
					}
				}
				b, _ := json.Marshal(c)
				cases <- b
				return nil
			})
			f.Close()
			if perr != nil {
				return
			}
		}
		r := rand.New(rand.NewSource(*seed))
		fc := floatClasses(r, *nfl)
		var classNames []string
		for class := range fc {
			classNames = append(classNames, class)
		}
		sort.Strings(classNames)
		for _, class := range classNames {
			lits := fc[class]
			S.Classes[class] = len(lits)
			for i := 0; i < len(lits); i += 20 {
				j := i + 20
				if j > len(lits) {
					j = len(lits)
				}
				id++
				b, _ := json.Marshal(numCase{ID: id, Kind: "lits", Lits: lits[i:j], Class: class, Seed: *seed})
				cases <- b
			}
		}
	}()
	err := workpool.Run(workpool.Options{Kind: "num", Workers: *workers, Batch: 64, Env: env,
		OnResult: func(cl, rl []byte) {
			var r numRes
			if json.Unmarshal(rl, &r) != nil {
				return
			}
			S.Cases++
			dgs.add(r.ID, r.DG)
			S.NonTrivial++
			S.Evals += r.Evals
			S.Oracle += r.Oracle
			for _, b := range r.Bad {
				add(b)
			}
			if len(S.Samples) < 5 && S.Cases%2003 == 9 {
				var c numCase
				json.Unmarshal(cl, &c)
				S.Samples = append(S.Samples, c)
			}
		},
		OnCrash: func(c workpool.Crash) {
			st := c.Stderr
			if len(st) > 1500 {
				st = st[len(st)-1500:]
			}
			S.Crashes = append(S.Crashes, c.Reason+": "+string(c.Case)+"\n"+st)
		}}, cases)
	if err != nil || perr != nil {
		fmt.Fprintln(os.Stderr, "num:", err, perr)
		return 2
	}
	if len(env) == 0 {
		ev, bads := numPrintCheck(rand.New(rand.NewSource(*seed+7)), *nfl*20)
		S.Evals += ev
		for _, b := range bads {
			add(b)
		}
	}
	S.WallS = time.Since(t0).Seconds()
	dgs.write(*digests)
	b, _ := json.MarshalIndent(S, "", " ")
	if *out != "" {
		os.WriteFile(*out, b, 0o644)
	} else {
		os.Stdout.Write(b)
	}
	return 0
}

func init() {
	subcmds["num"] = numMain
	workpool.Register("num", numHandle)
}
