package main

// opts: replay of spec/Options.tla (property C18).
//  wiring: every Config of the 2^16 lattice -> the flag sets the specification requires, compared
//          with the option words the real Froze produces (hook VerifFrozeOpts, build tag verif).
//  laws:   for a switch s, a probe input and a sampled setting of the other switches, the real
//          result with s off and with s on must be related by the law the specification names
//          ("same" = identical bytes / values / error status).
// Entry points: the decoder / encoder objects configured through their setter methods must give
// the result of the frozen Config.

import (
	"bytes"
	"encoding/json"
	"flag"
	"fmt"
	"math"
	"os"
	"reflect"
	"sort"
	"strings"
	"time"

	"github.com/bytedance/sonic"
	"github.com/bytedance/sonic/decoder"
	"github.com/bytedance/sonic/encoder"

	"verifharness/tlaval"
)

var encFlagBits = map[string]uint64{
	"EscapeHTML": uint64(encoder.EscapeHTML), "SortMapKeys": uint64(encoder.SortMapKeys), "CompactMarshaler": uint64(encoder.CompactMarshaler),
	"NoQuoteTextMarshaler": uint64(encoder.NoQuoteTextMarshaler), "NoNullSliceOrMap": uint64(encoder.NoNullSliceOrMap),
	"ValidateString": uint64(encoder.ValidateString), "NoValidateJSONMarshaler": uint64(encoder.NoValidateJSONMarshaler),
	"NoEncoderNewline": uint64(encoder.NoEncoderNewline), "EncodeNullForInfOrNan": uint64(encoder.EncodeNullForInfOrNan),
}

var decFlagBits = map[string]uint64{
	"OptionUseInt64": uint64(decoder.OptionUseInt64), "OptionUseNumber": uint64(decoder.OptionUseNumber),
	"OptionUseUnicodeErrors": uint64(decoder.OptionUseUnicodeErrors), "OptionDisableUnknown": uint64(decoder.OptionDisableUnknown),
	"OptionCopyString": uint64(decoder.OptionCopyString), "OptionValidateString": uint64(decoder.OptionValidateString),
	"OptionNoValidateJSON": uint64(decoder.OptionNoValidateJSON), "OptionCaseSensitive": uint64(decoder.OptionCaseSensitive),
}

func configOf(on map[string]bool) sonic.Config {
	c := sonic.Config{}
	rv := reflect.ValueOf(&c).Elem()
	for k, v := range on {
		f := rv.FieldByName(k)
		if !f.IsValid() {
			panic("no Config field " + k)
		}
		f.SetBool(v)
	}
	return c
}

func setOf(v interface{}) map[string]bool {
	out := map[string]bool{}
	for _, e := range tlaval.Seq(v) {
		out[tlaval.Str(e)] = true
	}
	return out
}

type optBad struct {
	Kind   string   `json:"kind"`
	Switch string   `json:"switch"`
	Probe  string   `json:"probe"`
	Others []string `json:"others"`
	Law    string   `json:"law"`
	Off    string   `json:"off"`
	On     string   `json:"on"`
	Detail string   `json:"detail"`
}

type optSummary struct {
	Configs   int            `json:"configs"`
	Pairs     int            `json:"pairs"`
	Evals     int            `json:"evals"`
	Sensitive int            `json:"sensitive_pairs"`
	Bad       []optBad       `json:"bad"`
	BadBySig  map[string]int `json:"bad_by_sig"`
	LawsSeen  map[string]int `json:"laws_seen"`
	Samples   []string       `json:"samples"`
	Wall      float64        `json:"wall_s"`
}

// ---- probes ----

type probeRes struct {
	err  bool
	text string // output bytes, or a rendering of the decoded value
}

type tKeyMap = map[string]int

type encProbeStruct struct {
	A int    `json:"a"`
	B string `json:"b"`
}

type decProbeStruct struct {
	A int `json:"A"`
	B string
}

func sortedKeys(m map[string]bool) []string {
	var out []string
	for k, v := range m {
		if v {
			out = append(out, k)
		}
	}
	sort.Strings(out)
	return out
}

// optRec / optDeep carry a probe value into the second level of a recursive type / four structs deep
type optRec struct {
	V    interface{}
	Next *optRec
}
type optD3 struct{ V interface{} }
type optD2 struct{ C optD3 }
type optD1 struct{ B optD2 }
type optD0 struct{ A optD1 }

func probeValue(probe string) interface{} {
	switch probe {
	case "plain_struct":
		return encProbeStruct{7, "x"}
	case "str_html":
		return map[string]string{"k<": "<a>& "}
	case "map3":
		return map[string]int{"x": 1, "k": 2, "a": 3, "b": 4, "zz": 5, "m": 6}
	case "mjws":
		return struct{ M MJWS }{}
	case "mtn":
		return []interface{}{MTN{}, "12"}
	case "nil_slice":
		return struct {
			S []int
			T []int
		}{nil, []int{}}
	case "nil_map":
		return struct {
			M map[string]int
			N map[string]int
		}{nil, map[string]int{}}
	case "nan":
		return []float64{1.5, math.NaN(), math.Inf(-1)}
	case "str_badutf8":
		return "a\xffb"
	case "mjbad":
		return []interface{}{1, MJBad{}}
	}
	return nil
}

func runProbe(probe string, on map[string]bool) (res probeRes) {
	if strings.HasPrefix(probe, "rec:") || strings.HasPrefix(probe, "deep:") {
		base := probe[strings.IndexByte(probe, ':')+1:]
		var v interface{}
		var pre, suf string
		if strings.HasPrefix(probe, "rec:") {
			v, pre, suf = optRec{V: 0, Next: &optRec{V: probeValue(base)}}, `{"V":0,"Next":{"V":`, `,"Next":null}}`
		} else {
			v, pre, suf = optD0{optD1{optD2{optD3{probeValue(base)}}}}, `{"A":{"B":{"C":{"V":`, `}}}}`
		}
		b, err := func() (b []byte, err error) {
			defer func() {
				if r := recover(); r != nil {
					err = fmt.Errorf("panic: %v", r)
				}
			}()
			return configOf(on).Froze().Marshal(v)
		}()
		if err != nil {
			return probeRes{err: true}
		}
		t := string(b)
		if !strings.HasPrefix(t, pre) || !strings.HasSuffix(t, suf) {
			return probeRes{text: "unexpected wrapper: " + t}
		}
		t = t[len(pre) : len(t)-len(suf)]
		if base == "map3" && !on["SortMapKeys"] {
			if c, err := canonJSONText([]byte(t), true); err == nil {
				t = "unordered:" + c
			}
		}
		return probeRes{text: t}
	}
	defer func() {
		if r := recover(); r != nil {
			res = probeRes{err: true, text: fmt.Sprint("panic: ", r)}
		}
	}()
	api := configOf(on).Froze()
	enc := func(v interface{}) probeRes {
		b, err := api.Marshal(v)
		if err != nil {
			return probeRes{err: true}
		}
		return probeRes{text: string(b)}
	}
	dec := func(doc string, p interface{}) probeRes {
		err := api.UnmarshalFromString(doc, p)
		if err != nil {
			return probeRes{err: true}
		}
		return probeRes{text: showValue(reflect.ValueOf(p).Elem())}
	}
	switch probe {
	case "plain_struct":
		return enc(encProbeStruct{7, "x"})
	case "str_html":
		return enc(map[string]string{"k<": "<a>& "})
	case "map3":
		r := enc(map[string]int{"x": 1, "k": 2, "a": 3, "b": 4, "zz": 5, "m": 6})
		if !on["SortMapKeys"] && !r.err {
			// without the switch the order is the map's iteration order: not an observation
			if c, err := canonJSONText([]byte(r.text), true); err == nil {
				r.text = "unordered:" + c
			}
		}
		return r
	case "mjws":
		return enc(struct{ M MJWS }{})
	case "mtn":
		return enc([]interface{}{MTN{}, "12"})
	case "nil_slice":
		return enc(struct {
			S []int
			T []int
		}{nil, []int{}})
	case "nil_map":
		return enc(struct {
			M map[string]int
			N map[string]int
		}{nil, map[string]int{}})
	case "nan":
		return enc([]float64{1.5, math.NaN(), math.Inf(-1)})
	case "str_badutf8":
		return enc("a\xffb")
	case "mjbad":
		return enc([]interface{}{1, MJBad{}})
	case "stream":
		var w bytes.Buffer
		e := api.NewEncoder(&w)
		if err := e.Encode(encProbeStruct{1, "y"}); err != nil {
			return probeRes{err: true}
		}
		if err := e.Encode(2); err != nil {
			return probeRes{err: true}
		}
		return probeRes{text: w.String()}
	case "stream_indent":
		// each value into its own writer through one encoder; parts joined by NUL
		var parts []string
		var w bytes.Buffer
		e := api.NewEncoder(&w)
		e.SetIndent(">", " ")
		for _, v := range []interface{}{encProbeStruct{1, "y"}, []int{2}} {
			w.Reset()
			if err := e.Encode(v); err != nil {
				return probeRes{err: true}
			}
			// entry-point equivalence: the stream encoder writes what MarshalIndent returns (plus the newline, if any)
			mi, err := api.MarshalIndent(v, ">", " ")
			if err != nil || strings.TrimSuffix(w.String(), "\n") != string(mi) {
				return probeRes{text: "STREAM-DIFFERS-FROM-MARSHALINDENT:" + w.String() + " vs " + string(mi)}
			}
			parts = append(parts, w.String())
		}
		return probeRes{text: strings.Join(parts, "\x00")}
	case "doc_plain":
		return dec(`{"A":3,"B":"héllo"}`, new(decProbeStruct))
	case "doc_num_iface":
		return dec(`[12, -7, 1.5, 1e3, 9223372036854775808]`, new(interface{}))
	case "doc_surrogate":
		return dec(`"a\ud800b"`, new(string))
	case "doc_unknown_field":
		return dec(`{"A":1,"Zzz":[true]}`, new(decProbeStruct))
	case "doc_case_key":
		return dec(`{"a":5,"b":"lower"}`, new(decProbeStruct))
	case "doc_ctl":
		return dec("\"a\x01b\"", new(string))
	case "doc_badutf8":
		return dec("\"a\xffb\"", new(string))
	}
	panic("unknown probe " + probe)
}

// lawHolds checks the relation the specification names between the result without and with the switch
func lawHolds(law string, probe string, off, on probeRes) (bool, string) {
	if i := strings.IndexByte(probe, ':'); i >= 0 {
		probe = probe[i+1:]
	}
	same := off.err == on.err && off.text == on.text
	switch law {
	case "same":
		return same, "results must be identical"
	case "EscapeHTML":
		var w bytes.Buffer
		json.HTMLEscape(&w, []byte(off.text))
		return !off.err && !on.err && w.String() == on.text && !same, "on = encoding/json.HTMLEscape(off)"
	case "SortMapKeys":
		b, e2 := canonJSONText([]byte(on.text), false)
		return e2 == nil && off.text == "unordered:"+b, "on = off with the keys of every map in byte order"
	case "CompactMarshaler":
		if probe == "mjbad" {
			return !off.err && on.err, "text that is not JSON passes unvalidated only while nothing has to parse it; compaction does"
		}
		var w bytes.Buffer
		err := json.Compact(&w, []byte(off.text))
		return err == nil && w.String() == on.text && !same, "on = encoding/json.Compact(off)"
	case "NoQuoteTextMarshaler":
		return !off.err && !on.err && strings.Replace(off.text, `"12"`, `12`, 1) == on.text && !same, "the TextMarshaler's text loses its quotes, nothing else changes"
	case "NoNullSliceOrMap":
		want := strings.Replace(strings.Replace(off.text, `"S":null`, `"S":[]`, 1), `"M":null`, `"M":{}`, 1)
		return !off.err && !on.err && want == on.text && !same, "nil slice / map become [] / {}, nothing else changes"
	case "EncodeNullForInfOrNan":
		return off.err && !on.err && on.text == "[1.5,null,null]", "NaN / Inf are an error without the switch and null with it"
	case "ValidateString":
		switch probe {
		case "str_badutf8":
			return !off.err && !on.err && on.text == "\"a\\ufffdb\"" && off.text == "\"a\xffb\"", "invalid UTF-8 is written as U+FFFD with the switch, untouched without"
		case "doc_ctl":
			return !off.err && on.err, "a raw control character in a string is an error with the switch"
		case "doc_badutf8":
			return !off.err && !on.err && on.text == `"a�b"`, "invalid UTF-8 in a string decodes to U+FFFD with the switch"
		}
	case "NoValidateJSONMarshaler":
		return off.err && !on.err, "invalid marshaler output is an error unless validation is disabled"
	case "NoEncoderNewline":
		if probe == "stream_indent" {
			offp, onp := strings.Split(off.text, "\x00"), strings.Split(on.text, "\x00")
			ok := !off.err && !on.err && len(offp) == 2 && len(onp) == 2
			for i := 0; ok && i < 2; i++ {
				ok = offp[i] == onp[i]+"\n" && !strings.HasSuffix(onp[i], "\n")
			}
			return ok, "the indenting stream encoder's newline after each value disappears, nothing else changes"
		}
		return !off.err && !on.err && strings.Replace(off.text, "\n", "", -1) == on.text && strings.Count(off.text, "\n") == 2, "the stream encoder's newline after each value disappears"
	case "UseNumber":
		return !off.err && !on.err && strings.Contains(on.text, "json.Number") && !strings.Contains(off.text, "json.Number"), "numbers in interface{} become json.Number"
	case "UseInt64":
		return !off.err && !on.err && on.text == `([]interface {})[(int64)12 (int64)-7 (float64)1.5 (float64)1000 (float64)9.223372036854776e+18]`, "integer literals in range become int64 in interface{}, the others stay float64"
	case "UseUnicodeErrors":
		return !off.err && on.err && off.text == `"a�b"`, "a lone surrogate escape is U+FFFD without the switch and an error with it"
	case "DisallowUnknownFields":
		return !off.err && on.err, "an unknown field is an error with the switch"
	case "CaseSensitive":
		return !off.err && !on.err && off.text == `<5 "lower">` && on.text == `<0 "">`, "keys that differ in case only stop matching"
	}
	return false, "unknown law " + law
}

func optsMain(args []string) int {
	fs := flag.NewFlagSet("opts", flag.ExitOnError)
	dumpW := fs.String("wiring", "", "TLC dump of Options (Fam = wiring)")
	dumpL := fs.String("laws", "", "TLC dump of Options (Fam = laws)")
	out := fs.String("out", "", "summary")
	fs.Parse(args)
	t0 := time.Now()
	S := optSummary{BadBySig: map[string]int{}, LawsSeen: map[string]int{}}
	add := func(b optBad) {
		sig := b.Kind + "|" + b.Switch + "|" + b.Probe
		S.BadBySig[sig]++
		if S.BadBySig[sig] <= 2 && len(S.Bad) < 200 {
			S.Bad = append(S.Bad, b)
		}
	}
	if *dumpW != "" {
		f, err := os.Open(*dumpW)
		if err != nil {
			fmt.Fprintln(os.Stderr, err)
			return 2
		}
		err = tlaval.ReadStates(f, func(n int, hdr string, st tlaval.State) error {
			on := setOf(st["cfg"])
			exp := tlaval.Rec(st["exp"])
			var wantEnc, wantDec uint64
			for k := range setOf(exp["enc"]) {
				wantEnc |= encFlagBits[k]
			}
			for k := range setOf(exp["dec"]) {
				wantDec |= decFlagBits[k]
			}
			gotEnc, gotDec := sonic.VerifFrozeOpts(configOf(on))
			S.Configs++
			S.Evals++
			if len(S.Samples) < 3 {
				S.Samples = append(S.Samples, fmt.Sprintf("wiring %v -> enc %#x dec %#x", sortedKeys(on), gotEnc, gotDec))
			}
			if gotEnc != wantEnc || gotDec != wantDec {
				// name the switches whose flag is missing or extra
				var miss []string
				for name, bit := range encFlagBits {
					if (gotEnc^wantEnc)&bit != 0 {
						miss = append(miss, "enc:"+name)
					}
				}
				for name, bit := range decFlagBits {
					if (gotDec^wantDec)&bit != 0 {
						miss = append(miss, "dec:"+name)
					}
				}
				sort.Strings(miss)
				add(optBad{Kind: "wiring", Switch: strings.Join(miss, ","), Others: sortedKeys(on),
					Detail: fmt.Sprintf("Froze gives enc=%#x dec=%#x, required enc=%#x dec=%#x", gotEnc, gotDec, wantEnc, wantDec)})
			}
			return nil
		})
		f.Close()
		if err != nil {
			fmt.Fprintln(os.Stderr, err)
			return 2
		}
	}
	if *dumpL != "" {
		f, err := os.Open(*dumpL)
		if err != nil {
			fmt.Fprintln(os.Stderr, err)
			return 2
		}
		err = tlaval.ReadStates(f, func(n int, hdr string, st tlaval.State) error {
			others := setOf(st["cfg"])
			sw, probe := tlaval.Str(st["s"]), tlaval.Str(st["probe"])
			law := tlaval.Str(tlaval.Rec(st["exp"])["law"])
			off := runProbe(probe, others)
			with := map[string]bool{sw: true}
			for k := range others {
				with[k] = true
			}
			on := runProbe(probe, with)
			S.Pairs++
			S.Evals += 2
			S.LawsSeen[law]++
			if law != "same" {
				S.Sensitive++
			}
			if len(S.Samples) < 6 && law != "same" {
				S.Samples = append(S.Samples, fmt.Sprintf("law %s on %s with %v: off=%q on=%q", law, probe, sortedKeys(others), clip(off.text, 60), clip(on.text, 60)))
			}
			if ok, why := lawHolds(law, probe, off, on); !ok {
				add(optBad{Kind: "law", Switch: sw, Probe: probe, Others: sortedKeys(others), Law: law,
					Off: fmt.Sprintf("err=%v %s", off.err, clip(off.text, 200)), On: fmt.Sprintf("err=%v %s", on.err, clip(on.text, 200)), Detail: why})
			}
			// entry points: objects configured through setters against the frozen Config
			if sw == "UseNumber" || sw == "UseInt64" || sw == "DisallowUnknownFields" || sw == "CopyString" || sw == "ValidateString" {
				if msg := decoderSetterCheck(probe, with); msg != "" {
					add(optBad{Kind: "entrypoint", Switch: sw, Probe: probe, Others: sortedKeys(others), Detail: msg})
				}
			}
			if msg := streamSetterCheck(probe, with); msg != "" {
				add(optBad{Kind: "entrypoint", Switch: sw, Probe: probe, Others: sortedKeys(others), Detail: msg})
			}
			if sw == "EscapeHTML" || sw == "SortMapKeys" || sw == "CompactMarshaler" || sw == "NoNullSliceOrMap" || sw == "ValidateString" {
				if msg := encoderSetterCheck(probe, with); msg != "" {
					add(optBad{Kind: "entrypoint", Switch: sw, Probe: probe, Others: sortedKeys(others), Detail: msg})
				}
			}
			return nil
		})
		f.Close()
		if err != nil {
			fmt.Fprintln(os.Stderr, err)
			return 2
		}
	}
	S.Wall = time.Since(t0).Seconds()
	b, _ := json.MarshalIndent(S, "", " ")
	if *out != "" {
		os.WriteFile(*out, b, 0o644)
	}
	fmt.Printf("{\"configs\":%d,\"pairs\":%d,\"bad_sigs\":%d}\n", S.Configs, S.Pairs, len(S.BadBySig))
	return 0
}

var decProbeDocs = map[string]string{
	"doc_plain": `{"A":3,"B":"héllo"}`, "doc_num_iface": `[12, -7, 1.5, 1e3, 9223372036854775808]`,
	"doc_unknown_field": `{"A":1,"Zzz":[true]}`, "doc_ctl": "\"a\x01b\"", "doc_badutf8": "\"a\xffb\"",
}

func decProbeDest(probe string) interface{} {
	switch probe {
	case "doc_num_iface":
		return new(interface{})
	case "doc_ctl", "doc_badutf8":
		return new(string)
	}
	return new(decProbeStruct)
}

// decoder.Decoder with its setter methods, and the stream decoder of the API, against Config.UnmarshalFromString
func decoderSetterCheck(probe string, on map[string]bool) (msg string) {
	doc, ok := decProbeDocs[probe]
	if !ok {
		return ""
	}
	if on["NoValidateJSONSkip"] || on["CaseSensitive"] {
		return "" // no setter for these switches: the comparison needs a configuration the setters can express
	}
	defer func() {
		if r := recover(); r != nil {
			msg = fmt.Sprint("panic: ", r)
		}
	}()
	ref := decProbeDest(probe)
	refErr := configOf(on).Froze().UnmarshalFromString(doc, ref)
	d := decoder.NewDecoder(doc)
	if on["UseNumber"] {
		d.UseNumber()
	}
	if on["UseInt64"] {
		d.UseInt64()
	}
	if on["DisallowUnknownFields"] {
		d.DisallowUnknownFields()
	}
	if on["CopyString"] {
		d.CopyString()
	}
	if on["UseUnicodeErrors"] {
		d.UseUnicodeErrors()
	}
	if on["ValidateString"] {
		d.ValidateString()
	}
	got := decProbeDest(probe)
	err := d.Decode(got)
	if (err != nil) != (refErr != nil) || (err == nil && !reflect.DeepEqual(ref, got)) {
		return fmt.Sprintf("decoder.Decoder with setters %v: err=%v value %s; frozen Config: err=%v value %s", sortedKeys(on), err, showValue(reflect.ValueOf(got).Elem()), refErr, showValue(reflect.ValueOf(ref).Elem()))
	}
	return ""
}

// encoder.StreamEncoder configured through its setter methods against the frozen Config's NewEncoder
func streamSetterCheck(probe string, on map[string]bool) (msg string) {
	if probe != "stream" && probe != "stream_indent" {
		return ""
	}
	defer func() {
		if r := recover(); r != nil {
			msg = fmt.Sprint("panic: ", r)
		}
	}()
	vals := []interface{}{encProbeStruct{1, "y<"}, map[string]interface{}{"b": []int(nil), "a": "\xff"}, 2}
	var w1, w2 bytes.Buffer
	ref := configOf(on).Froze().NewEncoder(&w1)
	se := encoder.NewStreamEncoder(&w2)
	se.SetEscapeHTML(on["EscapeHTML"])
	if on["SortMapKeys"] {
		se.SortKeys()
	}
	se.SetCompactMarshaler(on["CompactMarshaler"])
	if on["NoNullSliceOrMap"] {
		se.Opts |= encoder.NoNullSliceOrMap
	}
	if on["EncodeNullForInfOrNan"] {
		se.Opts |= encoder.EncodeNullForInfOrNan
	}
	se.SetValidateString(on["ValidateString"])
	se.SetNoQuoteTextMarshaler(on["NoQuoteTextMarshaler"])
	se.SetNoValidateJSONMarshaler(on["NoValidateJSONMarshaler"])
	se.SetNoEncoderNewline(on["NoEncoderNewline"])
	if probe == "stream_indent" {
		ref.SetIndent("\t", "  ")
		se.SetIndent("\t", "  ")
	}
	for _, v := range vals {
		e1, e2 := ref.Encode(v), se.Encode(v)
		if (e1 != nil) != (e2 != nil) {
			return fmt.Sprintf("StreamEncoder with setters %v: err=%v; frozen Config's encoder: err=%v", sortedKeys(on), e2, e1)
		}
	}
	a, b := w1.String(), w2.String()
	if !on["SortMapKeys"] {
		a, b = sortedBytes(a), sortedBytes(b)
	}
	if a != b {
		return fmt.Sprintf("StreamEncoder with setters %v wrote %q; frozen Config's encoder wrote %q", sortedKeys(on), w2.String(), w1.String())
	}
	return ""
}

func sortedBytes(s string) string {
	b := []byte(s)
	sort.Slice(b, func(i, j int) bool { return b[i] < b[j] })
	return string(b)
}

// encoder.Encoder with its setter methods against Config.Marshal
func encoderSetterCheck(probe string, on map[string]bool) (msg string) {
	var v interface{}
	switch probe {
	case "plain_struct":
		v = encProbeStruct{7, "x"}
	case "str_html":
		v = map[string]string{"k<": "<a>& "}
	case "mjws":
		v = struct{ M MJWS }{}
	case "nil_slice":
		v = struct {
			S []int
			T []int
		}{nil, []int{}}
	case "str_badutf8":
		v = "a\xffb"
	default:
		return ""
	}
	for k, b := range on {
		if b && encFlagBits[k] != 0 {
			switch k {
			}
		}
	}
	defer func() {
		if r := recover(); r != nil {
			msg = fmt.Sprint("panic: ", r)
		}
	}()
	ref, refErr := configOf(on).Froze().Marshal(v)
	var e encoder.Encoder
	e.SetEscapeHTML(on["EscapeHTML"])
	if on["SortMapKeys"] {
		e.SortKeys()
	}
	e.SetCompactMarshaler(on["CompactMarshaler"])
	if on["NoNullSliceOrMap"] {
		e.Opts |= encoder.NoNullSliceOrMap
	}
	if on["EncodeNullForInfOrNan"] {
		e.Opts |= encoder.EncodeNullForInfOrNan
	}
	e.SetValidateString(on["ValidateString"])
	e.SetNoQuoteTextMarshaler(on["NoQuoteTextMarshaler"])
	e.SetNoValidateJSONMarshaler(on["NoValidateJSONMarshaler"])
	e.SetNoEncoderNewline(on["NoEncoderNewline"])
	got, err := e.Encode(v)
	if (err != nil) != (refErr != nil) || (err == nil && string(got) != string(ref)) {
		return fmt.Sprintf("encoder.Encoder with setters %v: err=%v %s; frozen Config: err=%v %s", sortedKeys(on), err, got, refErr, ref)
	}
	return ""
}

func init() { subcmds["opts"] = optsMain }
