package main

// pcache: replay of Cache schedules on the real RCU program cache (internal/caching through the
// verifhook bridge) with gated goroutines, plus stress across the real rehash point and through the
// public API with freshly built types (properties C08, C09). Built with -race for the race verdict.

import (
	"runtime"
	"bytes"
	"encoding/json"
	"flag"
	"fmt"
	"math/rand"
	"os"
	"reflect"
	"strings"
	"sync"
	"sync/atomic"
	"time"

	"github.com/bytedance/sonic"
	"github.com/bytedance/sonic/verifhook"

	"verifharness/gate"
	"verifharness/tlaval"
)

type pcBad struct {
	Kind  string   `json:"kind"`
	Sched []string `json:"sched,omitempty"`
	Det   string   `json:"detail"`
	Sig   string   `json:"sig"`
}

var pcExpect = map[string]string{"get": "pcache.get", "lock": "pcache.lock", "recheck": "pcache.get", "compile": "pcache.computed",
	"publish": "pcache.publish", "unlock": "pcache.get"}

// a panic that escapes from the library inside a stress goroutine is an observation (C07 / C08), not a reason for the
// harness to die: it is recorded and reported as a disagreement
var pcPanicMu sync.Mutex
var pcPanics []pcBad

func pcRecover(where string) {
	if r := recover(); r != nil {
		buf := make([]byte, 4096)
		buf = buf[:runtime.Stack(buf, false)]
		pcPanicMu.Lock()
		if len(pcPanics) < 20 {
			pcPanics = append(pcPanics, pcBad{Kind: "panic", Det: fmt.Sprintf("panic in %s: %v\n%s", where, r, buf), Sig: "panic_escaped_" + where})
		}
		pcPanicMu.Unlock()
	}
}

func pcacheMain(args []string) int {
	fs := flag.NewFlagSet("pcache", flag.ExitOnError)
	dump := fs.String("dump", "", "TLC dump of Cache (generation config)")
	out := fs.String("out", "", "summary")
	seed := fs.Int64("seed", 1, "seed")
	stride := fs.Int("stride", 1, "replay every stride-th complete schedule")
	limit := fs.Int("limit", 0, "max schedules")
	stressN := fs.Int("stress", 0, "fake types per stress round (crosses the 2048-entry rehash when > 2048)")
	apiN := fs.Int("api", 0, "fresh reflect-built types for the public API stress")
	encScale := fs.Int("encscale", 1, "rounds multiplier of the concurrent-encode stress (1 under the race detector)")
	fs.Parse(args)
	t0 := time.Now()
	type sum struct {
		Schedules int            `json:"schedules"`
		Evals     int            `json:"evals"`
		Blocked   int            `json:"blocked_steps"`
		Bad       []pcBad        `json:"bad"`
		BadBySig  map[string]int `json:"bad_by_sig"`
		Samples   []interface{}  `json:"samples"`
		Stress    map[string]int `json:"stress"`
		WallS     float64        `json:"wall_s"`
	}
	S := sum{BadBySig: map[string]int{}, Stress: map[string]int{}}
	addBad := func(b pcBad) {
		S.BadBySig[b.Sig]++
		if S.BadBySig[b.Sig] <= 3 && len(S.Bad) < 40 {
			S.Bad = append(S.Bad, b)
		}
	}
	if *dump != "" {
		f, err := os.Open(*dump)
		if err != nil {
			fmt.Fprintln(os.Stderr, err)
			return 2
		}
		perr := tlaval.ReadStates(f, func(n int, hdr string, st tlaval.State) error {
			pcs := tlaval.Seq(st["pc"])
			idx := tlaval.Seq(st["idx"])
			ret := tlaval.Seq(st["ret"])
			for i, p := range pcs {
				// complete behaviours only: every goroutine idle and all its calls returned
				if tlaval.Str(p) != "idle" || tlaval.Int(idx[i]) <= len(tlaval.Seq(ret[i])) && false {
					return nil
				}
			}
			total := 0
			for i := range ret {
				total += len(tlaval.Seq(ret[i]))
			}
			var sched [][2]string
			for _, e := range tlaval.Seq(st["sched"]) {
				p := tlaval.Seq(e)
				sched = append(sched, [2]string{fmt.Sprint(tlaval.Int(p[0])), tlaval.Str(p[1])})
			}
			// a complete schedule ends every call: count "get" starts
			starts := 0
			for _, s := range sched {
				if s[1] == "get" {
					starts++
				}
			}
			if starts != total || total == 0 {
				return nil
			}
			// all wanted calls done? (Want is a constant: every proc has 2 calls in the generation configs)
			for i := range ret {
				if len(tlaval.Seq(ret[i])) != 2 {
					return nil
				}
			}
			if *stride > 1 && (n+int(*seed))%*stride != 0 {
				return nil
			}
			if *limit > 0 && S.Schedules >= *limit {
				return nil
			}
			S.Schedules++
			// the calls of each proc, from ret (type ids in call order)
			nproc := len(ret)
			want := make([][]int, nproc)
			for i := range ret {
				for _, r := range tlaval.Seq(ret[i]) {
					want[i] = append(want[i], tlaval.Int(tlaval.Seq(r)[0]))
				}
			}
			cache := verifhook.NewProgramCache()
			// hashes as in MCCache!HashDef: collide in a table of 2, spread later
			hash := map[int]uint32{1: 0, 2: 2, 3: 4}
			types := map[int]*verifhook.FakeType{}
			for id, h := range hash {
				types[id] = verifhook.NewFakeType(h)
			}
			var compiles [4]int32
			got := make([][]string, nproc)
			eng := gate.New()
			eng.Wait = 200 * time.Millisecond // publishing copies a 4096-slot table: slow under the race detector
			eng.Filter = func(point string, a uintptr) bool { return strings.HasPrefix(point, "pcache.") }
			for i := 0; i < nproc; i++ {
				i := i
				eng.Add(i+1, func() {
					for _, tid := range want[i] {
						t := types[tid]
						v := cache.Get(t)
						if v == nil {
							var err error
							v, err = cache.Compute(t, func(ft *verifhook.FakeType) (interface{}, error) {
								for id, x := range types {
									if x == ft {
										atomic.AddInt32(&compiles[id], 1)
										return fmt.Sprint("codec-", id), nil
									}
								}
								return "codec-unknown", nil
							})
							if err != nil {
								v = "ERR:" + err.Error()
							}
						}
						got[i] = append(got[i], fmt.Sprint(v))
					}
				})
			}
			skipGet := map[int]bool{}
			var schedStr []string
			for _, s := range sched {
				schedStr = append(schedStr, s[0]+":"+s[1])
				var id int
				fmt.Sscan(s[0], &id)
				if s[1] == "probe" {
					continue
				}
				if s[1] == "get" && skipGet[id] {
					skipGet[id] = false
					continue
				}
				wantPoint := pcExpect[s[1]]
				var r string
				for k := 0; k < 3; k++ {
					r = eng.Advance(id)
					if r == wantPoint || r == "" || r == "blocked" {
						break
					}
				}
				if r == "blocked" {
					S.Blocked++
					if os.Getenv("VERIF_DEBUG") != "" && S.Blocked < 4 {
						fmt.Fprintln(os.Stderr, "BLOCKED at", s, "in", schedStr, "trace", eng.Trace)
					}
				}
				if s[1] == "unlock" && r == "pcache.get" {
					skipGet[id] = true
				}
			}
			finished := eng.Drain(5 * time.Second)
			eng.Close()
			S.Evals += total
			if len(S.Samples) < 4 && S.Schedules%211 == 1 {
				S.Samples = append(S.Samples, map[string]interface{}{"calls": want, "schedule": schedStr})
			}
			if !finished {
				addBad(pcBad{Kind: "hang", Sched: schedStr, Det: "goroutines did not finish", Sig: "hang"})
				return nil
			}
			for i := range want {
				for k, tid := range want[i] {
					exp := fmt.Sprint("codec-", tid)
					if k >= len(got[i]) || got[i][k] != exp {
						addBad(pcBad{Kind: "wrong_codec", Sched: schedStr, Det: fmt.Sprintf("goroutine %d call %d type %d: got %v want %s", i+1, k, tid, got[i], exp), Sig: "wrong_codec"})
					}
				}
			}
			for id := 1; id <= 3; id++ {
				if c := atomic.LoadInt32(&compiles[id]); c > 1 {
					addBad(pcBad{Kind: "compiled_twice", Sched: schedStr, Det: fmt.Sprintf("type %d compiled %d times", id, c), Sig: "compiled_twice"})
				}
			}
			for id, t := range types {
				used := false
				for i := range want {
					for _, x := range want[i] {
						used = used || x == id
					}
				}
				if used && fmt.Sprint(cache.Get(t)) != fmt.Sprint("codec-", id) {
					addBad(pcBad{Kind: "lost_entry", Sched: schedStr, Det: fmt.Sprintf("type %d not in the cache afterwards: %v", id, cache.Get(t)), Sig: "lost_entry"})
				}
			}
			return nil
		})
		f.Close()
		if perr != nil {
			fmt.Fprintln(os.Stderr, perr)
			return 2
		}
	}
	// ---- stress 1: private cache, fake types with clustered hashes, across the real rehash ----
	if *stressN > 0 {
		r := rand.New(rand.NewSource(*seed))
		cache := verifhook.NewProgramCache()
		types := make([]*verifhook.FakeType, *stressN)
		for i := range types {
			h := uint32(r.Intn(64)) // heavy clustering: long probe sequences
			if i%3 == 0 {
				h = r.Uint32()
			}
			if i%7 == 0 {
				h = uint32(4095) + uint32(r.Intn(3))*4096 // same slot modulo 4096, different after growth
			}
			types[i] = verifhook.NewFakeType(h)
		}
		index := map[*verifhook.FakeType]int{}
		for i, t := range types {
			index[t] = i
		}
		compiled := make([]int32, len(types))
		var wg sync.WaitGroup
		var mu sync.Mutex
		G := 8
		for g := 0; g < G; g++ {
			g := g
			wg.Add(1)
			go func() {
				defer wg.Done()
				defer pcRecover("stress1")
				rr := rand.New(rand.NewSource(*seed*100 + int64(g)))
				for k := 0; k < len(types)*2; k++ {
					i := rr.Intn(len(types))
					if k < len(types) {
						i = (k + g*len(types)/G) % len(types)
					}
					t := types[i]
					v := cache.Get(t)
					if v == nil {
						v, _ = cache.Compute(t, func(ft *verifhook.FakeType) (interface{}, error) {
							atomic.AddInt32(&compiled[index[ft]], 1)
							return index[ft], nil
						})
					}
					if vi, ok := v.(int); !ok || vi != i {
						mu.Lock()
						addBad(pcBad{Kind: "wrong_codec", Det: fmt.Sprintf("stress: type %d got %v", i, v), Sig: "stress_wrong_codec"})
						mu.Unlock()
					}
				}
			}()
		}
		wg.Wait()
		for i, c := range compiled {
			if c != 1 {
				addBad(pcBad{Kind: "compiled_twice", Det: fmt.Sprintf("stress: type %d compiled %d times", i, c), Sig: "stress_compile_count"})
			}
			if v := cache.Get(types[i]); v != i {
				addBad(pcBad{Kind: "lost_entry", Det: fmt.Sprintf("stress: type %d -> %v", i, v), Sig: "stress_lost_entry"})
			}
		}
		S.Stress["fake_types"] = len(types)
		S.Stress["goroutines"] = G
	}
	// ---- stress 2: public API, first use of fresh types from many goroutines, racing Pretouch ----
	if *apiN > 0 {
		r := rand.New(rand.NewSource(*seed))
		kinds := []reflect.Type{reflect.TypeOf(0), reflect.TypeOf(""), reflect.TypeOf(1.5), reflect.TypeOf(true), reflect.TypeOf([]int{}),
			reflect.TypeOf(map[string]int{}), reflect.TypeOf((*int)(nil)), reflect.TypeOf(uint8(0))}
		var tys []reflect.Type
		for i := 0; i < *apiN; i++ {
			nf := 1 + r.Intn(4)
			var fields []reflect.StructField
			for j := 0; j < nf; j++ {
				fields = append(fields, reflect.StructField{Name: fmt.Sprintf("F%d_%d", i, j), Type: kinds[r.Intn(len(kinds))],
					Tag: reflect.StructTag(fmt.Sprintf(`json:"f%d"`, j))})
			}
			tys = append(tys, reflect.StructOf(fields))
		}
		docs := make([][]byte, len(tys))
		for i, t := range tys {
			v := reflect.New(t).Elem()
			for j := 0; j < t.NumField(); j++ {
				f := v.Field(j)
				switch f.Kind() {
				case reflect.Int:
					f.SetInt(int64(i*10 + j))
				case reflect.String:
					f.SetString(fmt.Sprint("s", i, j))
				case reflect.Float64:
					f.SetFloat(float64(i) + 0.5)
				case reflect.Bool:
					f.SetBool(i%2 == 0)
				case reflect.Slice:
					f.Set(reflect.ValueOf([]int{i, j}))
				case reflect.Map:
					f.Set(reflect.ValueOf(map[string]int{"k": i}))
				case reflect.Uint8:
					f.SetUint(uint64(i % 200))
				}
			}
			docs[i], _ = json.Marshal(v.Interface())
		}
		var wg sync.WaitGroup
		var mu sync.Mutex
		G := 8
		for g := 0; g < G; g++ {
			g := g
			wg.Add(1)
			go func() {
				defer wg.Done()
				defer pcRecover("first_use")
				for k := range tys {
					i := (k + g*len(tys)/G) % len(tys)
					if g == G-1 && k%5 == 0 {
						sonic.Pretouch(tys[i])
						continue
					}
					p := reflect.New(tys[i])
					if !sonic.Valid(docs[i]) {
						mu.Lock()
						addBad(pcBad{Kind: "api_error", Det: fmt.Sprintf("Valid(%s) = false", docs[i]), Sig: "api_valid_false"})
						mu.Unlock()
					}
					if nd, err := sonic.Get(docs[i], "f0"); err != nil || !nd.Exists() {
						mu.Lock()
						addBad(pcBad{Kind: "api_error", Det: fmt.Sprintf("Get(%s, f0): %v", docs[i], err), Sig: "api_get_error"})
						mu.Unlock()
					}
					if err := sonic.ConfigStd.Unmarshal(docs[i], p.Interface()); err != nil {
						mu.Lock()
						addBad(pcBad{Kind: "api_error", Det: fmt.Sprintf("Unmarshal type %d: %v", i, err), Sig: "api_unmarshal_error"})
						mu.Unlock()
						continue
					}
					outb, err := sonic.ConfigStd.Marshal(p.Interface())
					if err != nil || !bytes.Equal(outb, docs[i]) {
						mu.Lock()
						addBad(pcBad{Kind: "api_mismatch", Det: fmt.Sprintf("type %d: %s vs %s (%v)", i, outb, docs[i], err), Sig: "api_roundtrip_mismatch"})
						mu.Unlock()
					}
				}
			}()
		}
		wg.Wait()
		S.Stress["api_types"] = len(tys)
		// ---- stress 3: every goroutine decodes the SAME warmed types at once, through the slow paths of the field lookup:
		// keys that match only case-insensitively (a different spelling per goroutine and round), unknown keys, duplicates
		variant := func(doc []byte, g, round int) []byte {
			s := string(doc)
			for j := 0; j < 4; j++ {
				lower := fmt.Sprintf(`"f%d"`, j)
				switch (g + round + j) % 3 {
				case 0:
					s = strings.Replace(s, lower, fmt.Sprintf(`"F%d"`, j), 1)
				case 1:
					s = strings.Replace(s, lower, fmt.Sprintf(`"f%d"`, j), 1)
				}
			}
			if (g+round)%2 == 0 {
				s = `{"zz_unknown":[1,{"a":null}],` + s[1:]
			}
			return []byte(s)
		}
		step := len(tys)/60 + 1
		for round := 0; round < 3; round++ {
			for i := 0; i < len(tys); i += step {
				want := reflect.New(tys[i])
				if err := json.Unmarshal(docs[i], want.Interface()); err != nil {
					continue
				}
				var wg2 sync.WaitGroup
				start := make(chan struct{})
				for g := 0; g < G; g++ {
					g := g
					wg2.Add(1)
					go func() {
						defer wg2.Done()
						defer pcRecover("same_type_decode")
						<-start
						p := reflect.New(tys[i])
						err := sonic.Unmarshal(variant(docs[i], g, round), p.Interface())
						if err != nil || !reflect.DeepEqual(p.Interface(), want.Interface()) {
							mu.Lock()
							addBad(pcBad{Kind: "api_mismatch", Det: fmt.Sprintf("type %d, case-variant keys: %v", i, err), Sig: "api_case_variant_mismatch"})
							mu.Unlock()
						}
					}()
				}
				close(start)
				wg2.Wait()
			}
		}
		S.Stress["same_type_rounds"] = 3
		// ---- stress 4: concurrent ENCODES of one warmed type whose content differs per goroutine, through every pooled helper of
		// the encoder (compaction of marshaler output, HTML escaping pass, sorted-map iterator, TextMarshaler keys, buffers on both
		// sides of the pool's size limit): each result must be what the same call returns alone
		type encDoc struct {
			ID    int                        `json:"id"`
			Pad   string                     `json:"pad"`
			Raw   []json.RawMessage          `json:"raw"`
			M     map[string]json.RawMessage `json:"m"`
			TK    map[pcTextKey]int          `json:"tk"`
			Items []pcMarsh                  `json:"items"`
		}
		mkDoc := func(g, size int) *encDoc {
			letter := string(rune('a' + g%26))
			d := &encDoc{ID: g, Pad: strings.Repeat(letter+"<&>", size/16), M: map[string]json.RawMessage{}, TK: map[pcTextKey]int{}}
			for i := 0; i < 6; i++ {
				d.Raw = append(d.Raw, json.RawMessage(fmt.Sprintf("{ \"id\" : %d ,\n \"body\" : %q }", g, strings.Repeat(letter, size/8))))
				d.M[fmt.Sprintf("k%d_%d", g, i)] = json.RawMessage(fmt.Sprintf("[ %d , %d ]", g, i))
				d.TK[pcTextKey{fmt.Sprintf("t%d_%d", g, i)}] = g
				d.Items = append(d.Items, pcMarsh{g, strings.Repeat(letter, size/32)})
			}
			return d
		}
		for _, plan := range []struct{ size, rounds int }{{256, 40 * *encScale}, {16 << 10, 6 * *encScale}, {160 << 10, 2 * *encScale}} {
			var docsE []*encDoc
			var wantE [][]byte
			for g := 0; g < G; g++ {
				d := mkDoc(g, plan.size)
				w, err := sonic.ConfigStd.Marshal(d)
				if sb, _ := json.Marshal(d); err != nil || !bytes.Equal(w, sb) {
					addBad(pcBad{Kind: "api_mismatch", Det: fmt.Sprintf("sequential encode differs from encoding/json (size %d): %v", plan.size, err), Sig: "api_encode_sequential"})
				}
				docsE, wantE = append(docsE, d), append(wantE, w)
			}
			var wg3 sync.WaitGroup
			for g := 0; g < G; g++ {
				g := g
				wg3.Add(1)
				go func() {
					defer wg3.Done()
					defer pcRecover("same_type_encode")
					for r := 0; r < plan.rounds; r++ {
						got, err := sonic.ConfigStd.Marshal(docsE[g])
						if err != nil || !bytes.Equal(got, wantE[g]) {
							mu.Lock()
							addBad(pcBad{Kind: "api_mismatch", Det: fmt.Sprintf("concurrent encode, goroutine %d round %d (size %d): result differs from the call alone (%v)", g, r, plan.size, err),
								Sig: "api_concurrent_encode_mismatch"})
							mu.Unlock()
							return
						}
					}
				}()
			}
			wg3.Wait()
		}
		S.Stress["concurrent_encode_sizes"] = 3
	}
	for _, pb := range pcPanics {
		addBad(pb)
	}
	S.WallS = time.Since(t0).Seconds()
	b, _ := json.MarshalIndent(S, "", " ")
	if *out != "" {
		os.WriteFile(*out, b, 0o644)
	} else {
		os.Stdout.Write(b)
	}
	return 0
}

type pcTextKey struct{ K string }

func (k pcTextKey) MarshalText() ([]byte, error) { return []byte("key:" + k.K), nil }

type pcMarsh struct {
	G int
	S string
}

func (m pcMarsh) MarshalJSON() ([]byte, error) {
	return []byte(fmt.Sprintf(" { \"g\" : %d , \"s\" : %q } ", m.G, m.S)), nil
}

func init() { subcmds["pcache"] = pcacheMain }
