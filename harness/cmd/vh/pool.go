package main

// pool: history replay for property C06 (returned data is caller-owned; no aliasing, no overrun).
// Histories of encoding calls generated from spec/Pool.tla are executed with option.LimitBufferSize
// scaled down to 256 so that both sides of the copy-out rule are cheap; after every call all earlier
// results are checked against private copies, then the newest result is scribbled over (the caller
// owns it) and later results must still be right.  Decode side: the caller's input buffer is
// overwritten after Unmarshal / Get and every decoded string is re-read.  Overrun: EncodeInto with a
// buffer whose capacity ends at a PROT_NONE page.

import (
	"bytes"
	"encoding/json"
	"flag"
	"fmt"
	"io"
	"os"
	"runtime"
	"runtime/debug"
	"sort"
	"strings"
	"syscall"
	"time"
	"unsafe"

	"github.com/bytedance/sonic"
	"github.com/bytedance/sonic/ast"
	"github.com/bytedance/sonic/encoder"
	"github.com/bytedance/sonic/option"

	"verifharness/tlaval"
	"verifharness/workpool"
)

type poolCall struct {
	API  string `json:"api"`
	Size string `json:"size"`
	Post bool   `json:"post"`
}

type poolCase struct {
	ID   int        `json:"id"`
	Hist []poolCall `json:"hist"`
	Seed int64      `json:"seed"`
}

type poolBad struct {
	Kind string     `json:"kind"` // earlier_result_changed | wrong_result | prefix_changed | panic
	Hist []poolCall `json:"hist"`
	Step int        `json:"step"`
	Det  string     `json:"detail"`
	Sig  string     `json:"sig"`
}

type poolRes struct {
	ID    int       `json:"id"`
	Evals int       `json:"evals"`
	Bad   []poolBad `json:"bad,omitempty"`
}

// values by size class; texts are what encoding/json produces (checked at start-up)
func poolValue(size string, k int) interface{} {
	switch size {
	case "small":
		if k%2 == 0 {
			return map[string]interface{}{"a": "<x>", "n": k} // < 64 bytes: no growth
		}
		return []string{strings.Repeat("m<", 40+k%7)} // 64..256 bytes: grows, still poolable
	}
	return []string{strings.Repeat("b&", 200+k%13), "tail"} // > 256 bytes: handed out, not pooled
}

type keepWriter struct{ got []byte }

func (w *keepWriter) Write(p []byte) (int, error) { w.got = append(w.got, p...); return len(p), nil }

func poolInit() {
	option.LimitBufferSize = 256
	option.DefaultEncoderBufferSize = 64
	option.DefaultAstBufferSize = 64
	runtime.GOMAXPROCS(1)
	debug.SetGCPercent(-1)
}

var poolInited = false

func poolHandle(in []byte) []byte {
	if !poolInited {
		poolInit()
		poolInited = true
	}
	var c poolCase
	if err := json.Unmarshal(in, &c); err != nil {
		return []byte(`{"error":"bad case"}`)
	}
	res := poolRes{ID: c.ID}
	type held struct {
		b    []byte // the slice the API returned (the caller owns it)
		want []byte // private copy of its correct content
		live bool   // not yet scribbled
	}
	var results []held
	var owned []held // caller memory the library has no business with any more
	bad := func(kind string, step int, det string) {
		if len(res.Bad) < 4 {
			api := ""
			if step < len(c.Hist) {
				api = c.Hist[step].API
			}
			res.Bad = append(res.Bad, poolBad{Kind: kind, Hist: c.Hist, Step: step, Det: det, Sig: kind + "|" + api})
		}
	}
	for step, call := range c.Hist {
		func() {
			defer func() {
				if r := recover(); r != nil {
					bad("panic", step, fmt.Sprint(r))
				}
			}()
			v := poolValue(call.Size, int(c.Seed)+step+c.ID)
			cfg := sonic.Config{EscapeHTML: call.Post, ValidateString: call.Post, SortMapKeys: true}
			api := cfg.Froze()
			// expected text from the reference implementation
			var wb bytes.Buffer
			je := json.NewEncoder(&wb)
			je.SetEscapeHTML(call.Post)
			je.Encode(v)
			want := bytes.TrimSuffix(wb.Bytes(), []byte("\n"))
			var got []byte
			var err error
			switch call.API {
			case "Marshal":
				got, err = api.Marshal(v)
			case "MarshalIndent":
				got, err = api.MarshalIndent(v, "", " ")
				var ib bytes.Buffer
				json.Indent(&ib, want, "", " ")
				want = ib.Bytes()
			case "EncodeInto":
				// a caller-supplied buffer: dirty prefix, capacity around the exact need
				prefix := []byte("PREFIX-")
				caps := []int{len(prefix), len(prefix) + len(want) - 1, len(prefix) + len(want), len(prefix) + len(want) + 1, 4 * len(want)}
				buf := make([]byte, len(prefix), caps[(step+c.ID)%len(caps)])
				copy(buf, prefix)
				full := buf[:cap(buf)]
				for i := len(prefix); i < len(full); i++ {
					full[i] = 0xEE // prior contents of the spare capacity
				}
				opts := encoder.Options(0) | encoder.SortMapKeys
				if call.Post {
					opts |= encoder.EscapeHTML | encoder.ValidateString
				}
				err = encoder.EncodeInto(&buf, v, opts)
				if err == nil && len(full) > 0 && len(buf) > 0 && &buf[:1][0] != &full[:1][0] {
					// the library handed back another array: the one the caller supplied is the caller's alone from
					// now on, no later call may write into it (it must not have gone into a pool)
					owned = append(owned, held{b: full, want: append([]byte{}, full...), live: true})
				}
				if err == nil && !call.Post && !bytes.HasPrefix(buf, prefix) {
					bad("prefix_changed", step, fmt.Sprintf("%q", buf[:min(len(buf), 20)]))
				}
				if call.Post {
					// encodeFinish re-creates the buffer (HTMLEscape(nil, ..)): the prefix is escaped text too
					got = buf
					want = append(append([]byte{}, prefix...), want...)
				} else {
					got = buf
					want = append(append([]byte{}, prefix...), want...)
				}
			case "Stream":
				w := &keepWriter{}
				err = api.NewEncoder(w).Encode(v)
				got = w.got
				want = append(append([]byte{}, want...), '\n')
			case "NodeMarshalLoaded", "NodeMarshalRaw":
				// nodes do not take encoder options: the source is the plain text
				var pb bytes.Buffer
				pe := json.NewEncoder(&pb)
				pe.SetEscapeHTML(false)
				pe.Encode(v)
				want = bytes.TrimSuffix(pb.Bytes(), []byte("\n"))
				src := string(append([]byte{}, want...)) // heap copy: the node may alias it
				n := ast.NewRaw(src)
				if call.API == "NodeMarshalLoaded" {
					n.LoadAll()
				}
				got, err = n.MarshalJSON()
				if err == nil {
					// the node must keep describing the same value after the caller overwrites the result
					keep := append([]byte{}, got...)
					for i := range got {
						got[i] = 0xAA
					}
					again, err2 := n.MarshalJSON()
					if err2 != nil || !bytes.Equal(again, keep) {
						bad("result_aliases_node", step, fmt.Sprintf("after overwriting the returned bytes the node marshals to %q", trunc(again)))
					}
					copy(got, keep)
				}
			}
			res.Evals++
			if err != nil {
				bad("wrong_result", step, "error: "+err.Error())
				return
			}
			if !bytes.Equal(got, want) {
				bad("wrong_result", step, fmt.Sprintf("got %q want %q", trunc(got), trunc(want)))
			}
			// every earlier result must be what it was
			for i := range results {
				h := &results[i]
				if h.live && !bytes.Equal(h.b, h.want) {
					bad("earlier_result_changed", step, fmt.Sprintf("result of call %d changed to %q", i, trunc(h.b)))
					h.live = false
				}
			}
			for i := range owned {
				h := &owned[i]
				if h.live && !bytes.Equal(h.b, h.want) {
					bad("caller_memory_written", step, fmt.Sprintf("a buffer the caller supplied to an earlier EncodeInto (and got replaced) now reads %q", trunc(h.b)))
					h.live = false
				}
			}
			results = append(results, held{b: got, want: append([]byte{}, got...), live: true})
			// the caller owns what it got: overwrite the previous result completely
			if len(results) >= 2 {
				p := &results[len(results)-2]
				full := p.b[:cap(p.b)]
				for i := range full {
					full[i] = 0x55
				}
				p.live = false
			}
		}()
	}
	out, _ := json.Marshal(res)
	return out
}

func min(a, b int) int {
	if a < b {
		return a
	}
	return b
}

// ---- decode side and guard page (one process, no history) ----

type decTarget struct {
	S  string                 `json:"s"`
	M  map[string]string      `json:"m"`
	A  []string               `json:"a"`
	R  json.RawMessage        `json:"r"`
	N  json.Number            `json:"n"`
	I  interface{}            `json:"i"`
	MI map[string]interface{} `json:"mi"`
}

// destinations that keep the text they are handed (sonic's own types): with Unmarshal([]byte) that text must be sonic's
// private copy of the input, never the caller's buffer
type decKeep struct {
	Node ast.Node               `json:"node"`
	NC   sonic.NoCopyRawMessage `json:"nc"`
	PN   *ast.Node              `json:"pn"`
	MN   map[string]ast.Node    `json:"mn"`
}

// the documents of the stream scenario into destinations that keep the text they are handed
type streamKeep struct {
	S  ast.Node               `json:"s"`
	R  sonic.NoCopyRawMessage `json:"r"`
	I  *ast.Node              `json:"i"`
	MI map[string]ast.Node    `json:"mi"`
}

func (k *streamKeep) show() string {
	a, _ := k.S.Raw()
	c := ""
	if k.I != nil {
		c, _ = k.I.Raw()
	}
	var ks []string
	for key, n := range k.MI {
		r, _ := n.Raw()
		ks = append(ks, key+"="+r)
	}
	sort.Strings(ks)
	return a + " | " + string(k.R) + " | " + c + " | " + strings.Join(ks, ",")
}

func poolDecodeSide() []poolBad {
	var bads []poolBad
	doc := `{"s":"plain string value","m":{"key one":"value one"},"a":["x1","escaped \n y2"],"r":{"raw":[1,2,"three"]},"n":12345.5,"i":["iface string",{"k":"v"},1234567,[7654321.5]],"mi":{"q":"w","num":424242}}`
	keep := `{"node":{"id":12345678,"item":"keyboard"},"nc":[1,"two",{"three":3}],"pn":"pointer to node","mn":{"k":[10,20]}}`
	type decCfg struct {
		name string
		cfg  sonic.API
		copy bool
	}
	var cfgs []decCfg
	for _, un := range []bool{false, true} {
		sfx := ""
		if un {
			sfx = "+usenumber"
		}
		std := sonic.Config{EscapeHTML: true, SortMapKeys: true, CompactMarshaler: true, CopyString: true, ValidateString: true, UseNumber: un}
		cfgs = append(cfgs, decCfg{"default" + sfx, sonic.Config{UseNumber: un}.Froze(), false}, decCfg{"std" + sfx, std.Froze(), true},
			decCfg{"copystring" + sfx, sonic.Config{CopyString: true, UseNumber: un}.Froze(), true})
	}
	cfgs = append(cfgs, decCfg{"copystring+useint64", sonic.Config{CopyString: true, UseInt64: true}.Froze(), true})
	scribble := func(b []byte) {
		for i := range b {
			b[i] = '9' // stays printable: an aliasing value changes instead of becoming unmarshalable
		}
	}
	showKeep := func(k *decKeep) string {
		a, _ := k.Node.Raw()
		c := ""
		if k.PN != nil {
			c, _ = k.PN.Raw()
		}
		d := ""
		for _, kk := range []string{"k"} {
			n := k.MN[kk]
			d, _ = n.Raw()
		}
		return a + " | " + string(k.NC) + " | " + c + " | " + d
	}
	for _, dc := range cfgs {
		// Unmarshal([]byte): nothing may alias the caller's buffer, whatever the destination
		buf := []byte(doc)
		var t decTarget
		if err := dc.cfg.Unmarshal(buf, &t); err != nil {
			bads = append(bads, poolBad{Kind: "wrong_result", Det: "Unmarshal: " + err.Error(), Sig: "decode_error"})
			continue
		}
		snap, _ := json.Marshal(t)
		scribble(buf)
		after, _ := json.Marshal(t)
		if !bytes.Equal(snap, after) {
			bads = append(bads, poolBad{Kind: "decoded_value_aliases_input", Det: fmt.Sprintf("Unmarshal([]byte), config %s: %s -> %s", dc.name, trunc(snap), trunc(after)), Sig: "decode_alias|" + dc.name})
		}
		kb := []byte(keep)
		var k decKeep
		if err := dc.cfg.Unmarshal(kb, &k); err != nil {
			bads = append(bads, poolBad{Kind: "wrong_result", Det: "Unmarshal (source-keeping destinations): " + err.Error(), Sig: "decode_error_keep"})
		} else {
			s1 := showKeep(&k)
			scribble(kb)
			if s2 := showKeep(&k); s1 != s2 {
				bads = append(bads, poolBad{Kind: "decoded_value_aliases_input", Sig: "decode_alias_keep|" + dc.name,
					Det: fmt.Sprintf("Unmarshal([]byte) into ast.Node / NoCopyRawMessage destinations, config %s: %s -> %s", dc.name, trunc([]byte(s1)), trunc([]byte(s2)))})
			}
		}
		// with CopyString the same holds for a string input (here: a string view of a buffer the caller reuses)
		if dc.copy {
			vb := []byte(doc)
			var t2 decTarget
			if err := dc.cfg.UnmarshalFromString(unsafe.String(&vb[0], len(vb)), &t2); err == nil {
				snap, _ := json.Marshal(t2)
				scribble(vb)
				after, _ := json.Marshal(t2)
				if !bytes.Equal(snap, after) {
					bads = append(bads, poolBad{Kind: "decoded_value_aliases_input", Sig: "decode_alias_copystring|" + dc.name,
						Det: fmt.Sprintf("UnmarshalFromString with CopyString, config %s: %s -> %s", dc.name, trunc(snap), trunc(after))})
				}
			}
		}
	}
	// stream decoders: every value returned by Decode must survive the following Decode calls, which reuse, compact and
	// refill the read buffer; each document arrives in its own Read; option sets of the decoder x destination kinds
	for _, cfgName := range []string{"default", "std", "copystring"} {
		for _, useNumber := range []bool{false, true} {
			for _, dest := range []string{"iface", "typed", "keep"} {
				cfg := sonic.ConfigDefault
				switch cfgName {
				case "std":
					cfg = sonic.ConfigStd
				case "copystring":
					cfg = sonic.Config{CopyString: true}.Froze()
				}
				var docs []string
				for k := 0; k < 6; k++ {
					id := strings.Repeat(fmt.Sprint(k+1), 10)
					docs = append(docs, fmt.Sprintf(`{"s":"string %s","m":{"key %s":"value %s"},"a":["x%s","esc \n %s"],"r":{"raw":[%s]},"n":%s.5,"i":[%s,"iface %s",{"k%s":%s}],"mi":{"q%s":%s}}`+"\n",
						id, id, id, id, id, id, id, id, id, id, id, id, id))
				}
				dec := cfg.NewDecoder(&docReader{docs: docs})
				if useNumber {
					dec.UseNumber()
				}
				var snaps []string
				var vals []interface{}
				for k := range docs {
					var v interface{}
					if dest == "typed" {
						v = &decTarget{}
					} else if dest == "keep" {
						v = &streamKeep{}
					} else {
						v = new(interface{})
					}
					if err := dec.Decode(v); err != nil {
						bads = append(bads, poolBad{Kind: "wrong_result", Det: fmt.Sprintf("stream Decode %d (%s): %v", k, cfgName, err), Sig: "stream_decode_error"})
						break
					}
					b, _ := json.Marshal(v)
					if sk, ok := v.(*streamKeep); ok {
						b = []byte(sk.show())
					}
					vals = append(vals, v)
					snaps = append(snaps, string(b))
					for j := 0; j < k; j++ {
						now, _ := json.Marshal(vals[j])
						if sk, ok := vals[j].(*streamKeep); ok {
							now = []byte(sk.show())
						}
						if string(now) != snaps[j] {
							bads = append(bads, poolBad{Kind: "decoded_value_aliases_input", Sig: "stream_alias|" + cfgName + "|" + dest,
								Det: fmt.Sprintf("stream decoder (%s, UseNumber=%v, %s destination): value %d changed after Decode %d: %s -> %s", cfgName, useNumber, dest, j, k, trunc([]byte(snaps[j])), trunc(now))})
							snaps[j] = string(now)
						}
					}
				}
			}
		}
	}
	// Get([]byte) and GetCopyFromString
	buf := []byte(doc)
	n, err := sonic.Get(buf, "a", 1)
	if err == nil {
		s1, _ := n.String()
		r1, _ := n.Raw()
		for i := range buf {
			buf[i] = 0xFF
		}
		s2, _ := n.String()
		r2, _ := n.Raw()
		if s1 != s2 || r1 != r2 {
			bads = append(bads, poolBad{Kind: "decoded_value_aliases_input", Det: fmt.Sprintf("Get([]byte): %q -> %q, raw %q -> %q", s1, s2, r1, r2), Sig: "get_alias"})
		}
	}
	return bads
}

// docReader delivers one document per Read
type docReader struct {
	docs []string
	i    int
}

func (r *docReader) Read(p []byte) (int, error) {
	if r.i >= len(r.docs) {
		return 0, io.EOF
	}
	n := copy(p, r.docs[r.i])
	if n < len(r.docs[r.i]) {
		r.docs[r.i] = r.docs[r.i][n:]
		return n, nil
	}
	r.i++
	return n, nil
}

// guardedBuffer returns a slice of length 0 and capacity n whose backing array ends exactly at a
// PROT_NONE page.
func guardedBuffer(n int) ([]byte, func(), error) {
	ps := syscall.Getpagesize()
	pages := (n+ps-1)/ps + 1
	mem, err := syscall.Mmap(-1, 0, (pages+1)*ps, syscall.PROT_READ|syscall.PROT_WRITE, syscall.MAP_ANON|syscall.MAP_PRIVATE)
	if err != nil {
		return nil, nil, err
	}
	if err := syscall.Mprotect(mem[pages*ps:], syscall.PROT_NONE); err != nil {
		return nil, nil, err
	}
	end := pages * ps
	return mem[end-n : end-n : end], func() { syscall.Munmap(mem) }, nil
}

// poolGuardHandle: EncodeInto a buffer whose capacity ends at a guard page (a write past the capacity
// kills the worker, which the parent reports).
func poolGuardHandle(in []byte) []byte {
	var c struct {
		ID   int  `json:"id"`
		Cap  int  `json:"cap"`
		K    int  `json:"k"`
		Post bool `json:"post"`
	}
	json.Unmarshal(in, &c)
	res := poolRes{ID: c.ID}
	buf, free, err := guardedBuffer(c.Cap)
	if err != nil {
		out, _ := json.Marshal(res)
		return out
	}
	defer free()
	v := poolValue([]string{"small", "big"}[c.K%2], c.K)
	opts := encoder.SortMapKeys
	if c.Post {
		opts |= encoder.EscapeHTML
	}
	var wb bytes.Buffer
	je := json.NewEncoder(&wb)
	je.SetEscapeHTML(c.Post)
	je.Encode(v)
	want := bytes.TrimSuffix(wb.Bytes(), []byte("\n"))
	b := buf
	err = encoder.EncodeInto(&b, v, opts)
	res.Evals++
	if err != nil || !bytes.Equal(b, want) {
		res.Bad = append(res.Bad, poolBad{Kind: "wrong_result", Det: fmt.Sprintf("EncodeInto(cap %d): %q want %q err %v", c.Cap, trunc(b), trunc(want), err), Sig: "guard_wrong_result"})
	}
	out, _ := json.Marshal(res)
	return out
}

func poolMain(args []string) int {
	fs := flag.NewFlagSet("pool", flag.ExitOnError)
	dump := fs.String("dump", "", "TLC dump of Pool (generation config)")
	out := fs.String("out", "", "summary")
	seed := fs.Int64("seed", 1, "seed")
	workers := fs.Int("workers", runtime.NumCPU(), "workers")
	guardN := fs.Int("guard", 300, "largest guarded capacity")
	encbufMax := fs.Int("encbufmax", 400, "EncBuf: capacities up to min(text length, this) + 3 per value")
	fs.Parse(args)
	t0 := time.Now()
	type sum struct {
		Histories int            `json:"histories"`
		Evals     int            `json:"evals"`
		Guarded   int            `json:"guarded_buffers"`
		EncBuf    int            `json:"encbuf_cases"`
		Bad       []poolBad      `json:"bad"`
		BadBySig  map[string]int `json:"bad_by_sig"`
		Crashes   []string       `json:"crashes"`
		Samples   []interface{}  `json:"samples"`
		WallS     float64        `json:"wall_s"`
	}
	S := sum{BadBySig: map[string]int{}}
	add := func(b poolBad) {
		S.BadBySig[b.Sig]++
		if S.BadBySig[b.Sig] <= 3 && len(S.Bad) < 60 {
			S.Bad = append(S.Bad, b)
		}
	}
	f, err := os.Open(*dump)
	if err != nil {
		fmt.Fprintln(os.Stderr, err)
		return 2
	}
	defer f.Close()
	cases := make(chan []byte, 1024)
	var perr error
	go func() {
		defer close(cases)
		seen := map[string]bool{}
		perr = tlaval.ReadStates(f, func(n int, hdr string, st tlaval.State) error {
			var h []poolCall
			for _, c := range tlaval.Seq(st["hist"]) {
				m := tlaval.Rec(c)
				h = append(h, poolCall{API: tlaval.Str(m["api"]), Size: tlaval.Str(m["size"]), Post: tlaval.Bool(m["post"])})
			}
			if len(h) == 0 {
				return nil
			}
			key := fmt.Sprint(h)
			if seen[key] {
				return nil // the same history with another choice of pooled buffers: sync.Pool decides that, not us
			}
			seen[key] = true
			b, _ := json.Marshal(poolCase{ID: n, Hist: h, Seed: *seed})
			cases <- b
			return nil
		})
	}()
	err = workpool.Run(workpool.Options{Kind: "pool", Workers: *workers, Batch: 64,
		OnResult: func(cl, rl []byte) {
			var r poolRes
			if json.Unmarshal(rl, &r) != nil {
				return
			}
			S.Histories++
			S.Evals += r.Evals
			for _, b := range r.Bad {
				add(b)
			}
			if len(S.Samples) < 5 && S.Histories%997 == 5 {
				var c poolCase
				json.Unmarshal(cl, &c)
				S.Samples = append(S.Samples, c.Hist)
			}
		},
		OnCrash: func(c workpool.Crash) {
			st := c.Stderr
			if len(st) > 1500 {
				st = st[len(st)-1500:]
			}
			S.Crashes = append(S.Crashes, c.Reason+": "+string(c.Case)+"\n"+st)
		}}, cases)
	if err != nil || perr != nil {
		fmt.Fprintln(os.Stderr, "pool:", err, perr)
		return 2
	}
	// guard page runs
	gcases := make(chan []byte, 256)
	go func() {
		id := 0
		for cp := 0; cp <= *guardN; cp++ {
			for k := 0; k < 4; k++ {
				id++
				b, _ := json.Marshal(map[string]interface{}{"id": id, "cap": cp, "k": k + int(*seed), "post": k >= 2})
				gcases <- b
			}
		}
		close(gcases)
	}()
	err = workpool.Run(workpool.Options{Kind: "poolguard", Workers: *workers, Batch: 32,
		OnResult: func(cl, rl []byte) {
			var r poolRes
			if json.Unmarshal(rl, &r) != nil {
				return
			}
			S.Guarded++
			S.Evals += r.Evals
			for _, b := range r.Bad {
				add(b)
			}
		},
		OnCrash: func(c workpool.Crash) {
			st := c.Stderr
			if len(st) > 1500 {
				st = st[len(st)-1500:]
			}
			S.Crashes = append(S.Crashes, c.Reason+" (guard page): "+string(c.Case)+"\n"+st)
		}}, gcases)
	if err != nil {
		fmt.Fprintln(os.Stderr, "pool guard:", err)
		return 2
	}
	// spec/EncBuf.tla: every zoo value at every capacity and prefix, capacity ending at a guard page
	ecases := make(chan []byte, 256)
	go func() {
		encbufCases(*seed, *encbufMax, func(b []byte) { ecases <- b })
		close(ecases)
	}()
	err = workpool.Run(workpool.Options{Kind: "encbuf", Workers: *workers, Batch: 64,
		OnResult: func(cl, rl []byte) {
			var r poolRes
			if json.Unmarshal(rl, &r) != nil {
				return
			}
			S.EncBuf++
			S.Evals += r.Evals
			for _, b := range r.Bad {
				add(b)
			}
		},
		OnCrash: func(c workpool.Crash) {
			st := c.Stderr
			if len(st) > 1500 {
				st = st[len(st)-1500:]
			}
			S.Crashes = append(S.Crashes, c.Reason+" (guard page, EncBuf): "+string(c.Case)+"\n"+st)
		}}, ecases)
	if err != nil {
		fmt.Fprintln(os.Stderr, "pool encbuf:", err)
		return 2
	}
	for _, b := range poolDecodeSide() {
		add(b)
	}
	S.WallS = time.Since(t0).Seconds()
	b, _ := json.MarshalIndent(S, "", " ")
	if *out != "" {
		os.WriteFile(*out, b, 0o644)
	} else {
		os.Stdout.Write(b)
	}
	return 0
}

func init() {
	subcmds["pool"] = poolMain
	workpool.Register("pool", poolHandle)
	workpool.Register("poolguard", poolGuardHandle)
	workpool.Register("encbuf", encbufHandle)
}
