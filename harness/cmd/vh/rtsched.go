package main

// rtsched: replay for property C10 (generated code cooperates with the Go runtime).
// Cases come from spec/Runtime.tla (Mode = gen): a codec program with K call-outs to user
// callbacks and a schedule saying which runtime event happens inside which callback - a full
// collection, a stack growth that moves the stack while generated frames are on it, a traceback,
// goroutine switches, a nested sonic call, an allocation burst.  The result (decoded value
// re-read after a final collection, or the output bytes) must be the result of the event-free
// schedule; a crash of the worker process is attributed to the case.

import (
	"encoding/json"
	"flag"
	"fmt"
	"io"
	"os"
	"reflect"
	"runtime"
	"runtime/debug"
	"runtime/pprof"
	"sort"
	"strings"
	"time"

	"github.com/bytedance/sonic"

	"verifharness/tlaval"
	"verifharness/workpool"
)

type rtCase struct {
	ID    int      `json:"id"`
	Prog  string   `json:"prog"`
	Sched []string `json:"sched"`
	Mode  string   `json:"mode"` // "" | pressure
}

type rtRes struct {
	ID     int    `json:"id"`
	DG     uint64 `json:"dg"`
	Sites  int    `json:"sites"`
	Events int    `json:"events"`
	Bad    string `json:"bad,omitempty"`
	Base   string `json:"base,omitempty"`
	Got    string `json:"got,omitempty"`
}

var (
	rtSched []string
	rtSite  int
	rtFired int
	rtSink  [][]byte
)

//go:noinline
func growStack(n int) int {
	var pad [256]byte
	pad[n%256] = byte(n)
	if n == 0 {
		return int(pad[0])
	}
	return growStack(n-1) + int(pad[n%256])
}

func rtEvent() {
	i := rtSite
	rtSite++
	if i >= len(rtSched) {
		return
	}
	ev := rtSched[i]
	if ev != "none" {
		rtFired++
	}
	switch ev {
	case "gc":
		runtime.GC()
		debug.FreeOSMemory()
		// reuse what the collection freed: small objects of the usual size classes, filled with garbage
		for k := 0; k < 600; k++ {
			b := make([]byte, 16+(k%8)*16)
			for j := range b {
				b[j] = 0xa5
			}
			rtSink = append(rtSink, b)
		}
		rtSink = rtSink[:0]
		runtime.GC()
	case "grow":
		growStack(6000) // ~2 MB of frames: the goroutine stack is reallocated and copied
	case "stack":
		_ = debug.Stack()
		pcs := make([]uintptr, 128)
		n := runtime.Callers(0, pcs)
		fr := runtime.CallersFrames(pcs[:n])
		for {
			_, more := fr.Next()
			if !more {
				break
			}
		}
		buf := make([]byte, 1<<16)
		runtime.Stack(buf, true)
	case "gosched":
		for k := 0; k < 20; k++ {
			runtime.Gosched()
		}
	case "nested":
		var v interface{}
		_ = sonic.UnmarshalString(`{"n":[1,{"x":"y"}],"s":"nested"}`, &v)
		b, _ := sonic.Marshal(map[string]interface{}{"k": []int{1, 2, 3}, "v": v})
		rtSink = append(rtSink[:0], b)
	case "alloc":
		for k := 0; k < 200; k++ {
			rtSink = append(rtSink, make([]byte, 4096))
		}
		rtSink = rtSink[:0]
	}
}

// callback types
type RCu struct {
	S string
	N int
}

// the event happens after the last use of the receiver: the callback's own frame then no longer keeps the
// object alive, only the generated frame below does
func (r *RCu) UnmarshalJSON(b []byte) error {
	r.S = string(b)
	r.N = len(b)
	rtEvent()
	return nil
}

type RCt string

func (r *RCt) UnmarshalText(b []byte) error {
	*r = RCt("t:" + string(b))
	rtEvent()
	return nil
}

type RCm struct{ S string }

func (r RCm) MarshalJSON() ([]byte, error) {
	out := []byte(`{"m":"` + r.S + `"}`)
	rtEvent()
	return out, nil
}

type RCk struct{ K string }

func (r RCk) MarshalText() ([]byte, error) {
	out := []byte("k" + r.K)
	rtEvent()
	return out, nil
}

// omitzero: the generated encoder asks the field's type whether the value is zero (a call-out into IsZero, and data about the
// field that the generated code refers to by address long after it was compiled)
type RCz struct{ S string }

func (z RCz) IsZero() bool {
	r := z.S == ""
	rtEvent()
	return r
}

type rtZeroStruct struct {
	A RCz    `json:"a,omitzero"`
	B int    `json:"b,omitzero"`
	C *RCz   `json:"c,omitzero"`
	D RCz    `json:"d,omitzero"`
	E string `json:"e,omitzero"`
	Z int    `json:"z"`
}

// map key types whose pointer-receiver UnmarshalText is a call-out while the freshly allocated key is only held by generated code
type RCkey struct {
	Name string
	Seq  int
}

func (r *RCkey) UnmarshalText(b []byte) error {
	r.Name = "key-" + string(b)
	r.Seq = len(b)
	rtEvent()
	return nil
}

type RCkeyP struct {
	P *string
	N int
}

func (r *RCkeyP) UnmarshalText(b []byte) error {
	s := "p-" + string(b)
	r.P = &s
	r.N = len(b)
	rtEvent()
	return nil
}

type rtDecStruct struct {
	Pre  string            `json:"pre"`
	A    RCu               `json:"a"`
	Mid  []string          `json:"mid"`
	B    *RCu              `json:"b"`
	M    map[string]string `json:"m"`
	C    RCt               `json:"c"`
	Post interface{}       `json:"post"`
}

type rtEncStruct struct {
	Pre  string
	A    RCm
	Mid  []string
	B    *RCm
	M    map[string]int
	C    RCm
	Post interface{}
}

const rtLong = "a-string-long-enough-to-live-on-the-heap-and-be-referenced-from-the-decoded-value-0123456789"

func rtRun(prog string) (string, error) {
	switch prog {
	case "dec_struct":
		doc := `{"pre":"` + rtLong + `","a":{"x":[1,2,3]},"mid":["p","` + rtLong + `","q"],"b":[true,null],"m":{"k1":"v1","k2":"` + rtLong + `"},"c":"text","post":{"z":[1.5,"s"]}}`
		var v rtDecStruct
		if err := sonic.UnmarshalString(doc, &v); err != nil {
			return "", err
		}
		runtime.GC()
		return showValue(reflect.ValueOf(v)), nil
	case "dec_slice":
		doc := `[{"i":1},"` + rtLong + `",[2],{"j":{"k":null}}]`
		var v []RCu
		if err := sonic.UnmarshalString(doc, &v); err != nil {
			return "", err
		}
		runtime.GC()
		return showValue(reflect.ValueOf(v)), nil
	case "dec_map":
		doc := `{"k1":"` + rtLong + `","k2":"b","k3":"c"}`
		var v map[string]*RCt
		if err := sonic.UnmarshalString(doc, &v); err != nil {
			return "", err
		}
		runtime.GC()
		return showValue(reflect.ValueOf(v)), nil
	case "dec_mapkeys":
		doc := `{"alpha":"` + rtLong + `","beta":"b","gamma":"c"}`
		var v map[RCkey]string
		if err := sonic.UnmarshalString(doc, &v); err != nil {
			return "", err
		}
		runtime.GC()
		return showValue(reflect.ValueOf(v)), nil
	case "dec_mapkeys_ptr":
		doc := `{"alpha":1,"beta":2,"gamma":3}`
		var v map[RCkeyP]int
		if err := sonic.UnmarshalString(doc, &v); err != nil {
			return "", err
		}
		runtime.GC()
		// keys hold pointers: render through them
		var items []string
		for k, n := range v {
			if k.P == nil {
				items = append(items, fmt.Sprint("<nil>:", n))
			} else {
				items = append(items, fmt.Sprint(*k.P, "/", k.N, ":", n))
			}
		}
		sort.Strings(items)
		return strings.Join(items, " "), nil
	case "dec_iface":
		doc := `{"x":{"u":1},"y":[{"u":2},{"u":3}]}`
		v := map[string]interface{}{"x": &RCu{}, "y": &[]RCu{}}
		if err := sonic.UnmarshalString(doc, &v); err != nil {
			return "", err
		}
		runtime.GC()
		return showValue(reflect.ValueOf(v)), nil
	case "enc_struct":
		v := rtEncStruct{Pre: rtLong, A: RCm{"a"}, Mid: []string{"p", rtLong}, B: &RCm{"b"}, M: map[string]int{"k": 1}, C: RCm{"c"}, Post: []interface{}{1.5, "s"}}
		b, err := sonic.ConfigStd.Marshal(&v)
		return string(b), err
	case "enc_mapkeys":
		v := map[RCk]string{{"1"}: rtLong, {"2"}: "b", {"3"}: "c"}
		b, err := sonic.ConfigStd.Marshal(v)
		return string(b), err
	case "enc_iface":
		v := []interface{}{RCm{"x"}, map[string]interface{}{"k": RCm{"y"}}, &RCm{"z"}, rtLong}
		b, err := sonic.ConfigStd.Marshal(v)
		return string(b), err
	case "enc_omitzero":
		// the same value encoded twice with collections and a refill of the freed memory in between: what the codec compiled
		// for the type refers to must still be there (sonic is its own reference here: encoding/json of this toolchain has no omitzero)
		v := rtZeroStruct{A: RCz{"a"}, B: 7, C: &RCz{"c"}, E: rtLong, Z: 9}
		b1, err := sonic.ConfigStd.Marshal(&v)
		if err != nil {
			return "", err
		}
		first := string(b1)
		runtime.GC()
		runtime.GC()
		// (objects of the size classes, with pointers, that descriptors of fields and types fall into: 48..96 bytes)
		spray := make([]interface{}, 0, 100000)
		for i := 0; i < 25000; i++ {
			spray = append(spray, &[10]*byte{}, &[9]*byte{}, &[8]*byte{}, &[12]*byte{})
		}
		b2, err := sonic.ConfigStd.Marshal(&v)
		runtime.KeepAlive(spray)
		if err != nil {
			return "", err
		}
		if string(b2) != first {
			return "", fmt.Errorf("integrity: the same value encoded %s and, after two collections, %s", first, b2)
		}
		return first, nil
	case "enc_slice":
		v := []RCm{{"1"}, {"2"}, {"3"}}
		b, err := sonic.ConfigStd.Marshal(v)
		return string(b), err
	}
	return "", fmt.Errorf("unknown program %s", prog)
}

var rtBase = map[string]string{}

func rtBaseline(prog string) string {
	if b, ok := rtBase[prog]; ok {
		return b
	}
	rtSched, rtSite = nil, 0
	b, err := rtRun(prog)
	if err != nil {
		b = "error: " + err.Error()
	}
	rtBase[prog] = b
	return b
}

var rtPressureOn = false

func rtPressure() {
	if rtPressureOn {
		return
	}
	rtPressureOn = true
	debug.SetGCPercent(1)
	pprof.StartCPUProfile(io.Discard)
	go func() {
		for {
			runtime.GC()
			time.Sleep(200 * time.Microsecond)
		}
	}()
	for i := 0; i < 4; i++ {
		go func() {
			var keep [][]byte
			for {
				keep = append(keep, make([]byte, 1024))
				if len(keep) > 1000 {
					keep = keep[:0]
				}
				runtime.Gosched()
			}
		}()
	}
}

func rtHandle(in []byte) []byte {
	var c rtCase
	if err := json.Unmarshal(in, &c); err != nil {
		return []byte(`{"error":"bad case"}`)
	}
	res := rtRes{ID: c.ID}
	base := rtBaseline(c.Prog)
	if c.Mode == "pressure" {
		rtPressure()
	}
	od := obsBegin()
	rtSched, rtSite, rtFired = c.Sched, 0, 0
	got, err := rtRun(c.Prog)
	if err != nil {
		got = "error: " + err.Error()
	}
	res.Sites, res.Events = rtSite, rtFired
	obsAdd(got)
	if got != base {
		res.Bad, res.Base, res.Got = "result_differs", clip(base, 600), clip(got, 600)
	} else if strings.HasPrefix(got, "error: integrity:") {
		// a program that checks itself (two encodings of one value): wrong whatever the baseline run did
		res.Bad, res.Base, res.Got = "result_differs", "two equal encodings", clip(got, 600)
	}
	res.DG = od.sum
	out, _ := json.Marshal(res)
	return out
}

type rtSummary struct {
	Cases     int            `json:"cases"`
	Events    int            `json:"events_fired"`
	Sites     int            `json:"sites_reached"`
	NonTriv   int            `json:"nontrivial"`
	Bad       []rtBad        `json:"bad"`
	BadBySig  map[string]int `json:"bad_by_sig"`
	Crashes   []string       `json:"crashes"`
	Samples   []string       `json:"samples"`
	EventHist map[string]int `json:"event_hist"`
	Wall      float64        `json:"wall_s"`
}

type rtBad struct {
	Kind  string   `json:"kind"`
	Prog  string   `json:"prog"`
	Sched []string `json:"sched"`
	Mode  string   `json:"mode"`
	Base  string   `json:"base"`
	Got   string   `json:"got"`
	Sig   string   `json:"sig"`
}

func rtschedMain(args []string) int {
	fs := flag.NewFlagSet("rtsched", flag.ExitOnError)
	dump := fs.String("dump", "", "TLC dump of Runtime (Mode = gen)")
	out := fs.String("out", "", "summary")
	workers := fs.Int("workers", runtime.NumCPU(), "workers")
	mode := fs.String("mode", "", "\"\" or pressure (GOGC=1, background collections, CPU profiler)")
	stride := fs.Int("stride", 1, "replay every stride-th case")
	envs := fs.String("env", "", "comma separated KEY=VALUE for the workers")
	fs.Parse(args)
	t0 := time.Now()
	S := rtSummary{BadBySig: map[string]int{}, EventHist: map[string]int{}}
	var env []string
	if *envs != "" {
		env = strings.Split(*envs, ",")
	}
	if *mode == "pressure" {
		// one worker in pressure mode keeps as many processors busy as it is given (background collections, allocating goroutines,
		// profiler signals): with the default 16 x 16 the machine was oversubscribed 16 times and cases timed out under load
		env = append(env, "GOMAXPROCS=3")
		if *workers > runtime.NumCPU()/3 {
			*workers = runtime.NumCPU() / 3
		}
	}
	byID := map[int]rtCase{}
	cases := make(chan []byte, 256)
	var perr error
	go func() {
		defer close(cases)
		f, err := os.Open(*dump)
		if err != nil {
			perr = err
			return
		}
		defer f.Close()
		id := 0
		perr = tlaval.ReadStates(f, func(n int, hdr string, st tlaval.State) error {
			id++
			if id%*stride != 0 {
				return nil
			}
			c := rtCase{ID: id, Prog: tlaval.Str(st["prog"]), Mode: *mode}
			for _, e := range tlaval.Seq(st["sched"]) {
				c.Sched = append(c.Sched, tlaval.Str(e))
			}
			byID[id] = c
			b, _ := json.Marshal(c)
			if len(S.Samples) < 4 && id%97 == 0 {
				S.Samples = append(S.Samples, string(b))
			}
			cases <- b
			return nil
		})
	}()
	err := workpool.Run(workpool.Options{Kind: "rtsched", Workers: *workers, Batch: 32, Env: env, CaseTimeout: 10 * time.Second,
		OnResult: func(cl, rl []byte) {
			var r rtRes
			if json.Unmarshal(rl, &r) != nil {
				return
			}
			var c rtCase
			json.Unmarshal(cl, &c)
			S.Cases++
			S.Events += r.Events
			S.Sites += r.Sites
			if r.Events > 0 {
				S.NonTriv++
			}
			for i, e := range c.Sched {
				if i < r.Sites {
					S.EventHist[e]++
				}
			}
			if r.Bad != "" {
				sig := r.Bad + "|" + c.Prog
				S.BadBySig[sig]++
				if S.BadBySig[sig] <= 3 {
					S.Bad = append(S.Bad, rtBad{Kind: r.Bad, Prog: c.Prog, Sched: c.Sched, Mode: c.Mode, Base: r.Base, Got: r.Got, Sig: sig})
				}
			}
		},
		OnCrash: func(cr workpool.Crash) {
			S.Crashes = append(S.Crashes, cr.Reason+": "+string(cr.Case)+"\n"+tailStr(cr.Stderr, 2500))
		}}, cases)
	if err != nil || perr != nil {
		fmt.Fprintln(os.Stderr, "rtsched:", err, perr)
		return 2
	}
	S.Wall = time.Since(t0).Seconds()
	b, _ := json.MarshalIndent(S, "", " ")
	if *out != "" {
		os.WriteFile(*out, b, 0o644)
	}
	fmt.Printf("{\"cases\":%d,\"events\":%d,\"bad_sigs\":%d,\"crashes\":%d}\n", S.Cases, S.Events, len(S.BadBySig), len(S.Crashes))
	return 0
}

func init() {
	subcmds["rtsched"] = rtschedMain
	workpool.Register("rtsched", rtHandle)
}
