package main

// search: replay of GenSearch behaviours (property C14): (document, path) pairs with the lookup
// result and the views of the located value, and the Preorder events of every document, on every
// search entry point and option combination of the real library; a token-streaming lookup over
// encoding/json.Decoder is the second oracle.

import (
	"encoding/json"
	"flag"
	"fmt"
	"math/rand"
	"os"
	"runtime"
	"strconv"
	"strings"
	"time"
	"unsafe"

	"github.com/bytedance/sonic"
	"github.com/bytedance/sonic/ast"

	"verifharness/tlaval"
	"verifharness/workpool"
)

type srView struct {
	St      string `json:"st"`
	Text    string `json:"text"`
	Iface   string `json:"iface"`
	IfaceN  string `json:"ifacenum"` // the same under the UseNumber conversions (number texts kept)
	Kind    string `json:"kind"`
	Len     int    `json:"len"`
	Listing string `json:"listing"`
}

type srCase struct {
	ID     int       `json:"id"`
	Doc    string    `json:"doc"`
	Path   []astStep `json:"path"`
	Get    srView    `json:"get"`
	Node   srView    `json:"node"`
	Events []string  `json:"events"`
	Seed   int64     `json:"seed"`
}

type srBad struct {
	ID   int       `json:"id"`
	API  string    `json:"api"`
	Kind string    `json:"kind"`
	Doc  string    `json:"doc"`
	Text string    `json:"text"`
	Path []astStep `json:"path"`
	Want string    `json:"want"`
	Got  string    `json:"got"`
	Sig  string    `json:"sig"`
}

type srRes struct {
	DG     uint64  `json:"dg"`
	ID     int     `json:"id"`
	Evals  int     `json:"evals"`
	Oracle int     `json:"oracle_disagreements"`
	Bad    []srBad `json:"bad,omitempty"`
}

func viewFromTLA(v interface{}) srView {
	m := tlaval.Rec(v)
	w := tlaval.Rec(m["views"])
	return srView{St: tlaval.Str(m["st"]), Text: tlaval.Str(w["text"]), Iface: tlaval.Str(w["iface"]), IfaceN: tlaval.Str(w["ifacenum"]), Kind: tlaval.Str(w["kind"]),
		Len: tlaval.Int(w["len"]), Listing: tlaval.Str(w["listing"])}
}

// escapeKeys respells some object keys with \u escapes (keys are compared after unescaping)
func escapeKeys(text string, r *rand.Rand) string {
	var sb strings.Builder
	i := 0
	for i < len(text) {
		c := text[i]
		if c == '"' {
			j := i + 1
			for j < len(text) && text[j] != '"' {
				j++
			}
			isKey := j+1 < len(text) && text[j+1] == ':'
			sb.WriteByte('"')
			for k := i + 1; k < j; k++ {
				if isKey && r.Intn(2) == 0 {
					fmt.Fprintf(&sb, `\u%04x`, text[k])
				} else {
					sb.WriteByte(text[k])
				}
			}
			sb.WriteByte('"')
			i = j + 1
			continue
		}
		sb.WriteByte(c)
		i++
	}
	return sb.String()
}

// stdLookup: first-occurrence lookup by streaming encoding/json tokens ("get" flavour).
func stdLookup(src string, path []astStep) (st string, raw string) {
	var v interface{}
	cur := json.RawMessage(src)
	for _, step := range path {
		dec := json.NewDecoder(strings.NewReader(string(cur)))
		tok, err := dec.Token()
		if err != nil {
			return "err", ""
		}
		d, isDelim := tok.(json.Delim)
		if step.IsKey {
			if !isDelim || d != '{' {
				return "err", ""
			}
			found := false
			for dec.More() {
				kt, _ := dec.Token()
				var val json.RawMessage
				if dec.Decode(&val) != nil {
					return "err", ""
				}
				if kt.(string) == step.Key {
					cur, found = val, true
					break
				}
			}
			if !found {
				return "nx", ""
			}
		} else {
			if !isDelim || d != '[' {
				return "err", ""
			}
			i := 0
			found := false
			for dec.More() {
				var val json.RawMessage
				if dec.Decode(&val) != nil {
					return "err", ""
				}
				if i == step.I {
					cur, found = val, true
					break
				}
				i++
			}
			if !found {
				return "nx", ""
			}
		}
	}
	_ = v
	return "found", compact(cur)
}

// padAlong adds 17 filler members to every object a key step of the path passes through (not to the addressed value).
// ok is false when nothing was padded or an index step meets an object (there the position of members matters).
func padAlong(t *tree, path []astStep) (string, bool) {
	padded := false
	cur := t
	for _, st := range path {
		if cur == nil {
			break
		}
		switch {
		case cur.K == "obj" && !st.IsKey:
			return "", false
		case cur.K == "obj":
			next := -1
			for i, k := range cur.Keys {
				if k == st.Key {
					next = i
					break
				}
			}
			var nxt *tree
			if next >= 0 {
				nxt = cur.Elems[next]
			}
			var keys []string
			var elems []*tree
			filler := func(i int) {
				keys = append(keys, fmt.Sprintf("p%02d", i))
				switch i % 4 {
				case 0:
					elems = append(elems, &tree{K: "num", N: i})
				case 1:
					elems = append(elems, &tree{K: "str", S: "x"})
				case 2:
					elems = append(elems, &tree{K: "arr", Elems: []*tree{{K: "num", N: 1}, {K: "obj", Keys: []string{"a"}, Elems: []*tree{{K: "null"}}}}})
				default:
					elems = append(elems, &tree{K: "obj", Keys: []string{"a", "b"}, Elems: []*tree{{K: "num", N: 2}, {K: "arr"}}})
				}
			}
			for i := 0; i < 9; i++ {
				filler(i)
			}
			keys = append(keys, cur.Keys...)
			elems = append(elems, cur.Elems...)
			for i := 9; i < 17; i++ {
				filler(i)
			}
			cur.Keys, cur.Elems = keys, elems
			padded = true
			cur = nxt
		case cur.K == "arr" && !st.IsKey && st.I >= 0 && st.I < len(cur.Elems):
			cur = cur.Elems[st.I]
		default:
			cur = nil
		}
	}
	if !padded {
		return "", false
	}
	return t.String(), true
}

func pathArgs(path []astStep) []interface{} {
	var out []interface{}
	for _, s := range path {
		if s.IsKey {
			out = append(out, s.Key)
		} else {
			out = append(out, s.I)
		}
	}
	return out
}

func (res *srRes) bad(c *srCase, api, kind, text, want, got string) {
	if len(res.Bad) < 6 {
		res.Bad = append(res.Bad, srBad{ID: c.ID, API: api, Kind: kind, Doc: c.Doc, Text: text, Path: c.Path, Want: want, Got: got, Sig: api + "|" + kind})
	}
}

// checkViews compares every view of a located node with the specification's.
func checkViews(res *srRes, c *srCase, api, text string, n *ast.Node, want *srView) {
	res.Evals++
	raw, err := n.Raw()
	obsAdd(api, "raw", raw, err)
	// Raw describes the same value: compared token by token (order and duplicates kept, escapes decoded)
	if err != nil || !json.Valid([]byte(raw)) || treeFromText(raw).String() != want.Text {
		res.bad(c, api, "raw_differs", text, want.Text, raw)
		return
	}
	// the UseNumber conversion first, on a copy that is still as lazy as the lookup left it (every conversion loads the node
	// it is called on, so the second one would only ever see a loaded node)
	nu := *n
	if un0, e0 := nu.InterfaceUseNumber(); e0 != nil {
		res.bad(c, api, "interface_usenumber_error", text, want.IfaceN, e0.Error())
	} else if f, _ := numberKinds(un0); f != "" && f != "json.Number" {
		res.bad(c, api, "interface_usenumber_number_type", text, "json.Number (on the node as located)", f)
	} else if b0, _ := json.Marshal(un0); string(b0) != want.IfaceN {
		res.bad(c, api, "interface_usenumber_differs", text, want.IfaceN, string(b0))
	}
	iv, err := n.Interface()
	ib, _ := json.Marshal(iv)
	if err != nil || string(ib) != want.Iface {
		res.bad(c, api, "interface_differs", text, want.Iface, string(ib))
	}
	un, err := n.InterfaceUseNumber()
	ub, _ := json.Marshal(un)
	if err != nil || string(ub) != want.IfaceN {
		res.bad(c, api, "interface_usenumber_differs", text, want.IfaceN, string(ub))
	}
	// the representation of numbers is part of each view: float64 in the plain conversions, json.Number in the UseNumber ones
	if f, _ := numberKinds(iv); f != "" && f != "float64" {
		res.bad(c, api, "interface_number_type", text, "float64", f)
	}
	if f, _ := numberKinds(un); f != "" && f != "json.Number" {
		res.bad(c, api, "interface_usenumber_number_type", text, "json.Number", f)
	}
	switch want.Kind {
	case "num":
		i64, e1 := n.Int64()
		f64, e2 := n.Float64()
		num, e3 := n.Number()
		if e1 != nil || e2 != nil || e3 != nil || strconv.FormatInt(i64, 10) != want.Text || strconv.FormatFloat(f64, 'f', -1, 64) != want.Text || string(num) != want.Text {
			res.bad(c, api, "number_accessors", text, want.Text, fmt.Sprint(i64, f64, num, e1, e2, e3))
		}
	case "str":
		s, e1 := n.String()
		if q, _ := json.Marshal(s); e1 != nil || string(q) != want.Text {
			res.bad(c, api, "string_accessor", text, want.Text, s)
		}
		if s2, e2 := n.StrictString(); e2 != nil || s2 != s {
			res.bad(c, api, "string_accessor", text, s, s2)
		}
	case "lit":
		if want.Text == "true" || want.Text == "false" {
			b, e1 := n.Bool()
			sb, e2 := n.StrictBool()
			if e1 != nil || e2 != nil || b != (want.Text == "true") || sb != b {
				res.bad(c, api, "bool_accessors", text, want.Text, fmt.Sprint(b, sb, e1, e2))
			}
		} else {
			wf, _ := strconv.ParseFloat(want.Text, 64)
			f64, e1 := n.Float64()
			sf, e2 := n.StrictFloat64()
			num, e3 := n.Number()
			i64, e4 := n.Int64()
			if e1 != nil || e2 != nil || e3 != nil || e4 != nil || f64 != wf || sf != wf || string(num) != want.Text || i64 != int64(wf) {
				res.bad(c, api, "number_accessors", text, want.Text, fmt.Sprint(f64, sf, num, i64, e1, e2, e3, e4))
			}
		}
	case "null":
		if n.TypeSafe() != ast.V_NULL {
			res.bad(c, api, "type", text, "null", fmt.Sprint(n.TypeSafe()))
		}
	case "arr":
		arr, e1 := n.Array()
		ab, _ := json.Marshal(arr)
		if e1 != nil || string(ab) != want.Iface {
			res.bad(c, api, "array_differs", text, want.Iface, string(ab))
		}
		if au, e2 := n.ArrayUseNumber(); e2 != nil {
			res.bad(c, api, "array_usenumber_error", text, want.IfaceN, e2.Error())
		} else if f, _ := numberKinds(au); f != "" && f != "json.Number" {
			res.bad(c, api, "array_usenumber_number_type", text, "json.Number", f)
		} else if b2, _ := json.Marshal(au); string(b2) != want.IfaceN {
			res.bad(c, api, "array_usenumber_differs", text, want.IfaceN, string(b2))
		}
		if got := applyAstOp(n, &astOp{O: "Iterate"}, false); got != want.Listing {
			res.bad(c, api, "iteration_differs", text, want.Listing, got)
		}
		if e := n.LoadAll(); e == nil {
			if l, _ := n.Len(); l != want.Len {
				res.bad(c, api, "len_after_load", text, fmt.Sprint(want.Len), fmt.Sprint(l))
			}
		}
		vi, e2 := n.Values()
		cnt := 0
		var nd ast.Node
		for e2 == nil && vi.Next(&nd) {
			cnt++
		}
		if e2 != nil || cnt != want.Len {
			res.bad(c, api, "values_iterator", text, fmt.Sprint(want.Len), fmt.Sprint(cnt, e2))
		}
	case "obj":
		m, e1 := n.Map()
		mb, _ := json.Marshal(m)
		if e1 != nil || string(mb) != want.Iface {
			res.bad(c, api, "map_differs", text, want.Iface, string(mb))
		}
		if mu, e2 := n.MapUseNumber(); e2 != nil {
			res.bad(c, api, "map_usenumber_error", text, want.IfaceN, e2.Error())
		} else if f, _ := numberKinds(mu); f != "" && f != "json.Number" {
			res.bad(c, api, "map_usenumber_number_type", text, "json.Number", f)
		} else if b2, _ := json.Marshal(mu); string(b2) != want.IfaceN {
			res.bad(c, api, "map_usenumber_differs", text, want.IfaceN, string(b2))
		}
		if got := applyAstOp(n, &astOp{O: "Iterate"}, false); got != want.Listing {
			res.bad(c, api, "iteration_differs", text, want.Listing, got)
		}
		pi, e2 := n.Properties()
		cnt := 0
		var pr ast.Pair
		for e2 == nil && pi.Next(&pr) {
			cnt++
		}
		if e2 != nil || cnt != want.Len {
			res.bad(c, api, "properties_iterator", text, fmt.Sprint(want.Len), fmt.Sprint(cnt, e2))
		}
	}
}

// numberKinds: the Go type of the numbers inside a generic value ("" none, "mixed" when they differ)
func numberKinds(v interface{}) (string, int) {
	kind, n := "", 0
	var walk func(x interface{})
	add := func(k string) {
		n++
		if kind == "" {
			kind = k
		} else if kind != k {
			kind = "mixed"
		}
	}
	walk = func(x interface{}) {
		switch t := x.(type) {
		case float64:
			add("float64")
		case json.Number:
			add("json.Number")
		case int64:
			add("int64")
		case []interface{}:
			for _, e := range t {
				walk(e)
			}
		case map[string]interface{}:
			for _, e := range t {
				walk(e)
			}
		}
	}
	walk(v)
	return kind, n
}

func judgeLookup(res *srRes, c *srCase, api, text string, n *ast.Node, err error, want *srView) {
	got := "found"
	if err != nil {
		got = errObs(err)
	} else if n == nil || !n.Exists() {
		got = "NX"
	} else if e := n.Check(); e != nil {
		got = errObs(e)
	}
	obsAdd(api, got)
	switch want.St {
	case "found":
		if got != "found" {
			res.bad(c, api, "not_found", text, want.Text, got)
			return
		}
		checkViews(res, c, api, text, n, want)
	case "nx":
		res.Evals++
		if got != "NX" {
			res.bad(c, api, "should_not_exist", text, "not exist", got+" "+projNode(n))
		}
	default: // the step does not apply: any failure
		res.Evals++
		if got == "found" {
			res.bad(c, api, "should_fail", text, "error", projNode(n))
		}
	}
}

type recVisitor struct{ ev []string }

func (v *recVisitor) OnNull() error           { v.ev = append(v.ev, "null"); return nil }
func (v *recVisitor) OnBool(b bool) error     { v.ev = append(v.ev, fmt.Sprint("bool:", b)); return nil }
func (v *recVisitor) OnString(s string) error { v.ev = append(v.ev, "str:"+s); return nil }
func (v *recVisitor) OnInt64(i int64, n json.Number) error {
	v.ev = append(v.ev, "num:"+strconv.FormatInt(i, 10))
	if string(n) != strconv.FormatInt(i, 10) {
		v.ev = append(v.ev, "NUMBER-TEXT-MISMATCH:"+string(n))
	}
	return nil
}
func (v *recVisitor) OnFloat64(f float64, n json.Number) error {
	v.ev = append(v.ev, "float:"+string(n))
	return nil
}
func (v *recVisitor) OnObjectBegin(c int) error  { v.ev = append(v.ev, "{"); return nil }
func (v *recVisitor) OnObjectKey(k string) error { v.ev = append(v.ev, "key:"+k); return nil }
func (v *recVisitor) OnObjectEnd() error         { v.ev = append(v.ev, "}"); return nil }
func (v *recVisitor) OnArrayBegin(c int) error   { v.ev = append(v.ev, "["); return nil }
func (v *recVisitor) OnArrayEnd() error          { v.ev = append(v.ev, "]"); return nil }

var searchOpts = func() []ast.SearchOptions {
	var out []ast.SearchOptions
	for i := 0; i < 8; i++ {
		out = append(out, ast.SearchOptions{ValidateJSON: i&1 != 0, CopyReturn: i&2 != 0, ConcurrentRead: i&4 != 0})
	}
	return out
}()

func searchHandle(in []byte) []byte {
	var c srCase
	if err := json.Unmarshal(in, &c); err != nil {
		return []byte(`{"error":"bad case"}`)
	}
	res := srRes{ID: c.ID}
	od := obsBegin()
	args := pathArgs(c.Path)
	base := c
	for plan := 0; plan < 5; plan++ {
		r := rand.New(rand.NewSource(c.Seed*7919 + int64(c.ID)*31 + int64(plan)))
		c = base
		if plan == 4 {
			// scale the objects ON THE WAY to the addressed value beyond the 16-member threshold (key index, chunked storage):
			// 17 filler members with keys outside the path alphabet around the original ones; the addressed value itself is
			// left alone, so every required view is unchanged
			wide, ok := padAlong(treeFromText(c.Doc), c.Path)
			if !ok {
				continue
			}
			c.Doc = wide
		}
		if plan == 3 {
			// scale the string values (31/32/33/64... bytes: vector-width boundaries of the skipping routines);
			// the expected views change by the same substitution
			long := strings.Repeat("s", []int{15, 16, 31, 32, 33, 63, 64, 65, 127}[r.Intn(9)])
			sub := func(x string) string { return strings.ReplaceAll(x, `"x"`, `"`+long+`"`) }
			c.Doc = sub(c.Doc)
			for _, v := range []*srView{&c.Get, &c.Node} {
				v.Text, v.Iface, v.IfaceN, v.Listing = sub(v.Text), sub(v.Iface), sub(v.IfaceN), sub(v.Listing)
			}
			ev := make([]string, len(c.Events))
			for i, e := range c.Events {
				if e == "str:x" {
					e = "str:" + long
				}
				ev[i] = e
			}
			c.Events = ev
		}
		text := c.Doc
		if plan >= 1 {
			text = spaced(c.Doc, 1, r)
		}
		if plan == 2 || plan == 4 {
			text = escapeKeys(text, r)
		}
		func() {
			defer func() {
				if rr := recover(); rr != nil {
					res.bad(&c, "any", "panic", text, "", fmt.Sprint(rr))
				}
			}()
			// second oracle for the "get" flavour
			st, raw := stdLookup(text, c.Path)
			if st != c.Get.St || (st == "found" && raw != c.Get.Text) {
				hasNeg := false
				for _, s := range c.Path {
					hasNeg = hasNeg || (!s.IsKey && s.I < 0)
				}
				if !(hasNeg && st == "nx" && c.Get.St == "nx") {
					res.Oracle++
					return
				}
			}
			negative := false
			for _, stp := range c.Path {
				negative = negative || (!stp.IsKey && stp.I < 0)
			}
			if !negative { // the search entry points document a panic for negative indexes: outside their domain
				// the entry points that promise a copy are given a buffer of the caller's that is overwritten as soon as they
				// return: what they returned may not change (whatever kind of value was located)
				buf1 := []byte(text)
				n1, err := sonic.Get(buf1, args...)
				scribble(buf1)
				judgeLookup(&res, &c, "Get", text, &n1, err, &c.Get)
				n2, err := sonic.GetFromString(text, args...)
				judgeLookup(&res, &c, "GetFromString", text, &n2, err, &c.Get)
				buf3 := []byte(text)
				n3, err := sonic.GetCopyFromString(*(*string)(unsafe.Pointer(&buf3)), args...)
				scribble(buf3)
				judgeLookup(&res, &c, "GetCopyFromString", text, &n3, err, &c.Get)
				for _, o := range searchOpts {
					buf4 := []byte(text)
					n4, err := sonic.GetWithOptions(buf4, o, args...)
					if o.CopyReturn {
						scribble(buf4)
					}
					judgeLookup(&res, &c, fmt.Sprintf("GetWithOptions(%v)", o), text, &n4, err, &c.Get)
				}
				s := ast.NewSearcher(text)
				n5, err := s.GetByPath(args...)
				judgeLookup(&res, &c, "Searcher.GetByPath", text, &n5, err, &c.Get)
			}
			// node flavour, from every kind of root
			for _, mode := range []string{"NewRaw", "NewRawConcurrentRead", "loaded"} {
				root, err := newRoot(mode, nil, text)
				if err != nil {
					res.bad(&c, mode, "create_failed", text, "", err.Error())
					continue
				}
				n6 := root.GetByPath(args...)
				var e6 error
				if n6 != nil {
					e6 = n6.Check()
				}
				judgeLookup(&res, &c, mode+".GetByPath", text, n6, e6, &c.Node)
				// the same path step by step
				cur := root
				for _, stp := range c.Path {
					if cur == nil || cur.Check() != nil {
						break
					}
					if stp.IsKey {
						cur = cur.Get(stp.Key)
					} else {
						cur = cur.Index(stp.I)
					}
				}
				var e7 error
				if cur != nil {
					e7 = cur.Check()
				}
				judgeLookup(&res, &c, mode+".stepwise", text, cur, e7, &c.Node)
				// the same lookup on a root that has already served lookups of earlier siblings (the lazily parsed
				// prefix of each container on the way is non-empty): the answer may not depend on that history
				if root2, err := newRoot(mode, nil, text); err == nil {
					warmed := false
					for k, stp := range c.Path {
						if stp.IsKey || stp.I <= 0 {
							continue
						}
						for j := 0; j < stp.I; j += 2 {
							warm := append(append([]interface{}{}, args[:k]...), j)
							if w := root2.GetByPath(warm...); w != nil {
								w.Check()
							}
							warmed = true
						}
					}
					if warmed {
						n8 := root2.GetByPath(args...)
						var e8 error
						if n8 != nil {
							e8 = n8.Check()
						}
						judgeLookup(&res, &c, mode+".GetByPath_after_earlier_siblings", text, n8, e8, &c.Node)
					}
				}
			}
			// Preorder events of the whole document
			if len(c.Path) == 0 {
				rv := &recVisitor{}
				err := ast.Preorder(text, rv, nil)
				obsAdd("Preorder", rv.ev, err)
				res.Evals++
				if err != nil || strings.Join(rv.ev, " ") != strings.Join(c.Events, " ") {
					res.bad(&c, "Preorder", "events_differ", text, strings.Join(c.Events, " "), strings.Join(rv.ev, " ")+fmt.Sprint(" err=", err))
				}
			}
		}()
	}
	res.DG = od.sum
	out, _ := json.Marshal(res)
	return out
}

func searchMain(args []string) int {
	fs := flag.NewFlagSet("search", flag.ExitOnError)
	dump := fs.String("dump", "", "TLC dump of GenSearch")
	out := fs.String("out", "", "summary")
	seed := fs.Int64("seed", 1, "seed")
	workers := fs.Int("workers", runtime.NumCPU(), "workers")
	envs := fs.String("env", "", "comma separated KEY=VALUE for the workers")
	digests := fs.String("digests", "", "write per-case observation digests to this file")
	fs.Parse(args)
	t0 := time.Now()
	f, err := os.Open(*dump)
	if err != nil {
		fmt.Fprintln(os.Stderr, err)
		return 2
	}
	defer f.Close()
	var dgs digestFile
	type sum struct {
		Cases      int            `json:"cases"`
		Evals      int            `json:"evals"`
		Oracle     int            `json:"oracle_disagreements"`
		BadBySig   map[string]int `json:"bad_by_sig"`
		Bad        []srBad        `json:"bad"`
		Crashes    []string       `json:"crashes"`
		Samples    []interface{}  `json:"samples"`
		NonTrivial int            `json:"distinct_nontrivial"`
		WallS      float64        `json:"wall_s"`
	}
	S := sum{BadBySig: map[string]int{}}
	var env []string
	if *envs != "" {
		env = strings.Split(*envs, ",")
	}
	cases := make(chan []byte, 1024)
	var perr error
	go func() {
		defer close(cases)
		perr = tlaval.ReadStates(f, func(n int, hdr string, st tlaval.State) error {
			e := tlaval.Rec(st["e"])
			c := srCase{ID: n, Doc: treeFromTLA(st["doc"]).String(), Seed: *seed, Get: viewFromTLA(e["get"]), Node: viewFromTLA(e["node"]), Events: tokensOf(e["events"])}
			for _, stp := range tlaval.Seq(st["path"]) {
				m := tlaval.Rec(stp)
				c.Path = append(c.Path, astStep{IsKey: tlaval.Str(m["t"]) == "k", I: tlaval.Int(m["i"]), Key: tlaval.Str(m["key"])})
			}
			b, _ := json.Marshal(c)
			cases <- b
			return nil
		})
	}()
	err = workpool.Run(workpool.Options{Kind: "search", Workers: *workers, Batch: 64, Env: env,
		OnResult: func(cl, rl []byte) {
			var r srRes
			if json.Unmarshal(rl, &r) != nil {
				return
			}
			S.Cases++
			dgs.add(r.ID, r.DG)
			S.Evals += r.Evals
			S.Oracle += r.Oracle
			var c srCase
			json.Unmarshal(cl, &c)
			if len(c.Path) > 0 {
				S.NonTrivial++
			}
			for _, b := range r.Bad {
				S.BadBySig[b.Sig]++
				if S.BadBySig[b.Sig] <= 3 && len(S.Bad) < 200 {
					S.Bad = append(S.Bad, b)
				}
			}
			if len(S.Samples) < 5 && S.Cases%701 == 3 {
				S.Samples = append(S.Samples, map[string]interface{}{"doc": c.Doc, "path": c.Path, "get": c.Get, "node": c.Node})
			}
		},
		OnCrash: func(c workpool.Crash) {
			st := c.Stderr
			if len(st) > 1500 {
				st = st[len(st)-1500:]
			}
			S.Crashes = append(S.Crashes, c.Reason+": "+string(c.Case)+"\n"+st)
		}}, cases)
	if err != nil || perr != nil {
		fmt.Fprintln(os.Stderr, "search:", err, perr)
		return 2
	}
	S.WallS = time.Since(t0).Seconds()
	dgs.write(*digests)
	b, _ := json.MarshalIndent(S, "", " ")
	if *out != "" {
		os.WriteFile(*out, b, 0o644)
	} else {
		os.Stdout.Write(b)
	}
	return 0
}

func init() {
	subcmds["search"] = searchMain
	workpool.Register("search", searchHandle)
}

// scribble overwrites a buffer the caller owns (with bytes that are no JSON value and no part of one)
func scribble(b []byte) {
	for i := range b {
		b[i] = '#'
	}
}
