package main

// session: history replay for property C09. Every history generated from spec/Session.tla is run in a
// fresh process (caches are process-global and loaded code cannot be unloaded); afterwards a fixed
// probe (Marshal / Unmarshal of every type of the family) is executed and its results are compared
// with the results of the same probe in a process with an empty history.

import (
	"unsafe"
	"bytes"
	"encoding/json"
	"flag"
	"fmt"
	"os"
	"os/exec"
	"reflect"
	"runtime"
	"strings"
	"sync"
	"time"

	"github.com/bytedance/sonic"
	"github.com/bytedance/sonic/option"

	"verifharness/tlaval"
)

// ---- the type family (ids as in spec/mc/MCSession.tla: 1 and 2 print the same name) ----

type sessMar struct{ X int }

func (m *sessMar) MarshalJSON() ([]byte, error) { return []byte(fmt.Sprintf(`"mar-%d"`, m.X)), nil }

type sessRec struct {
	V    int       `json:"v"`
	F    sessMar   `json:"f"`
	Next *sessRec  `json:"next,omitempty"`
	Kids []sessRec `json:"kids,omitempty"`
}

// the recursive type by value inside another type: the program of sessRec is then first compiled for a non-addressable
// context, while its recursion edges (through the pointer and the slice) are addressable
type sessDoc struct {
	Title string  `json:"title"`
	Root  sessRec `json:"root"`
}

type sessD4 struct {
	Z   []int       `json:"z"`
	Any interface{} `json:"any,omitempty"` // holds a value (never a pointer) whose pointer type is a Marshaler: not addressable
}
type sessD3 struct {
	D sessD4 `json:"d"`
	S string `json:"s"`
}
type sessD2 struct {
	D sessD3            `json:"d"`
	M map[string]sessD4 `json:"m"`
}
type sessD1 struct {
	D                                                                                         sessD2  `json:"d"`
	P                                                                                         *sessD2 `json:"p"`
	F0                                                                                        int     `json:"f0"`
	F1, F2, F3, F4, F5, F6, F7, F8, F9, F10, F11, F12, F13, F14, F15, F16, F17, F18, F19, F20 int
	G1, G2, G3, G4, G5, G6, G7, G8, G9, G10, G11, G12, G13, G14, G15, G16, G17, G18, G19, G20 string
	H1, H2, H3, H4, H5, H6, H7, H8, H9, H10, H11, H12, H13, H14, H15                          float64
}

type sessType struct {
	rt  reflect.Type
	val func() interface{} // fresh non-pointer value
	ptr func() interface{} // pointer to a fresh value
	doc string
}

func sessT1() sessType {
	type T struct {
		A int    `json:"a"`
		S string `json:"s"`
	}
	return sessType{reflect.TypeOf(T{}), func() interface{} { return T{7, "x"} }, func() interface{} { return &T{7, "x"} }, `{"a":5,"s":"q"}`}
}

func sessT2() sessType {
	type T struct {
		B []string       `json:"b"`
		M map[string]int `json:"m"`
		A float64        `json:"a"`
	}
	mk := func() T { return T{[]string{"p", "q"}, map[string]int{"k": 1}, 2.5} }
	return sessType{reflect.TypeOf(T{}), func() interface{} { return mk() }, func() interface{} { v := mk(); return &v }, `{"b":["z"],"m":{"y":2},"a":1.25}`}
}

func sessT3() sessType {
	mk := func() sessDoc {
		return sessDoc{"d", sessRec{1, sessMar{2}, &sessRec{3, sessMar{4}, nil, nil}, []sessRec{{5, sessMar{6}, nil, []sessRec{{7, sessMar{8}, nil, nil}}}}}}
	}
	return sessType{reflect.TypeOf(sessDoc{}), func() interface{} { return mk() }, func() interface{} { v := mk(); return &v },
		`{"title":"t","root":{"v":9,"next":{"v":8},"kids":[{"v":7,"kids":[{"v":6}]}]}}`}
}

func sessT4() sessType {
	mk := func() sessD1 {
		return sessD1{D: sessD2{D: sessD3{D: sessD4{[]int{1, 2}, sessMar{9}}, S: "s"}, M: map[string]sessD4{"k": {[]int{3}, sessMar{10}}}}, P: &sessD2{}, F0: 1, F20: 20, G20: "g", H15: 1.5}
	}
	return sessType{reflect.TypeOf(sessD1{}), func() interface{} { return mk() }, func() interface{} { v := mk(); return &v },
		`{"d":{"d":{"d":{"z":[4]},"s":"t"},"m":{"a":{"z":[5]}}},"p":{"d":{"s":"u"}},"f0":3,"F20":4,"G1":"h","H15":2.5}`}
}

var sessTypes = map[int]func() sessType{1: sessT1, 2: sessT2, 3: sessT3, 4: sessT4}

type sessCall struct {
	C   string `json:"c"`
	T   int    `json:"t"`
	How string `json:"how"`
	S   []int  `json:"s"`
	D   int    `json:"d"`
}

func sessUse(t sessType, how string) string {
	defer func() {
		if r := recover(); r != nil {
			fmt.Fprintln(os.Stderr, "panic in use:", r)
		}
	}()
	switch how {
	case "m":
		b, err := sonic.ConfigStd.Marshal(t.val())
		return fmt.Sprintf("%s|%v", b, err)
	case "mp":
		b, err := sonic.ConfigStd.Marshal(t.ptr())
		return fmt.Sprintf("%s|%v", b, err)
	default:
		p := reflect.New(t.rt)
		err := sonic.ConfigStd.Unmarshal([]byte(t.doc), p.Interface())
		b, _ := json.Marshal(p.Interface())
		return fmt.Sprintf("%s|%v", b, err)
	}
}

// sessionRun is the child: executes a history, then the probe; prints the probe results.
func sessionRun(args []string) int {
	var hist []sessCall
	if err := json.NewDecoder(os.Stdin).Decode(&hist); err != nil {
		fmt.Fprintln(os.Stderr, "bad history", err)
		return 2
	}
	types := map[int]sessType{}
	for id, f := range sessTypes {
		types[id] = f()
	}
	touched5 := false
	for _, c := range hist {
		if c.C == "use" && c.T == 5 {
			touched5 = true
			sessFillerProbe(c.How)
		} else if c.C == "use" {
			sessUse(types[c.T], c.How)
		} else if c.C == "fill" {
			sessFill(2200)
		} else {
			var ts []reflect.Type
			for _, id := range c.S {
				if id == 5 {
					touched5 = true
					ts = append(ts, sessFillers()...)
					continue
				}
				ts = append(ts, types[id].rt)
			}
			if err := sonic.PretouchMany(ts, option.WithCompileRecursiveDepth(c.D)); err != nil {
				fmt.Fprintln(os.Stderr, "pretouch error:", err)
			}
		}
	}
	probe := map[string]string{}
	for id := 1; id <= 4; id++ {
		for _, how := range []string{"m", "mp", "u"} {
			probe[fmt.Sprintf("%d.%s", id, how)] = sessUse(types[id], how)
		}
		// the default configuration too (different option bits, same cached program)
		b, err := sonic.Marshal(types[id].val())
		probe[fmt.Sprintf("%d.m.default", id)] = fmt.Sprintf("%s|%v", b, err)
	}
	if touched5 || len(hist) == 0 {
		for _, how := range []string{"m", "u"} {
			probe["5."+how] = sessFillerProbe(how)
		}
	}
	// values of a pointer-receiver Marshaler type held in interfaces, and the type on its own by value
	for name, v := range map[string]interface{}{"x.ifaces": []interface{}{sessMar{5}, map[string]interface{}{"k": sessMar{6}}}, "x.val": sessMar{7}, "x.ptr": &sessMar{8}} {
		b, err := sonic.Marshal(v)
		probe[name] = fmt.Sprintf("%s|%v", b, err)
	}
	probe["names"] = fmt.Sprint(types[1].rt.String(), " ", types[2].rt.String(), " same:", types[1].rt == types[2].rt)
	b, _ := json.Marshal(probe)
	os.Stdout.Write(b)
	return 0
}

// type 5 of the model: a class of several hundred unrelated types (same layout, different keys), built
// identically in every process
var sessFillerTypes []reflect.Type

func sessFillers() []reflect.Type {
	if sessFillerTypes == nil {
		for i := 0; i < 560; i++ {
			sessFillerTypes = append(sessFillerTypes, reflect.StructOf([]reflect.StructField{
				{Name: "V", Type: reflect.TypeOf(0), Tag: reflect.StructTag(fmt.Sprintf(`json:"k%04d"`, i))},
				{Name: "S", Type: reflect.TypeOf(""), Tag: reflect.StructTag(fmt.Sprintf(`json:"s%04d"`, i))}}))
		}
	}
	return sessFillerTypes
}

// sessFillerProbe uses every filler type once and returns a digest of the results.
func sessFillerProbe(how string) string {
	h := fnvNew()
	bad := 0
	for i, t := range sessFillers() {
		p := reflect.New(t)
		if how == "u" {
			doc := fmt.Sprintf(`{"k%04d":%d,"s%04d":"v%d"}`, i, i+1, i, i)
			err := sonic.ConfigStd.Unmarshal([]byte(doc), p.Interface())
			b, _ := json.Marshal(p.Interface())
			if err != nil || string(b) != doc {
				bad++
			}
			h.add(b)
		} else {
			p.Elem().Field(0).SetInt(int64(i + 1))
			p.Elem().Field(1).SetString(fmt.Sprint("v", i))
			b, err := sonic.ConfigStd.Marshal(p.Interface())
			want, _ := json.Marshal(p.Interface())
			if err != nil || string(b) != string(want) {
				bad++
			}
			h.add(b)
		}
	}
	return fmt.Sprintf("digest=%x wrong=%d", h.sum, bad)
}

type fnv struct{ sum uint64 }

func fnvNew() *fnv { return &fnv{14695981039346656037} }
func (f *fnv) add(b []byte) {
	for _, c := range b {
		f.sum ^= uint64(c)
		f.sum *= 1099511628211
	}
}

// sessFill compiles n unrelated fresh types in both directions: the program caches (initial capacity
// 4096, load factor 1/2) grow and rehash once n exceeds 2048.
func sessFill(n int) {
	for i := 0; i < n; i++ {
		t := reflect.StructOf([]reflect.StructField{{Name: fmt.Sprintf("Fill%d", i), Type: reflect.TypeOf(0), Tag: `json:"x"`}})
		p := reflect.New(t)
		sonic.Unmarshal([]byte(`{"x":1}`), p.Interface())
		sonic.Marshal(p.Interface())
	}
}

type sessBad struct {
	Kind string     `json:"kind"` // crash | probe_differs
	Hist []sessCall `json:"history"`
	Det  string     `json:"detail"`
	Sig  string     `json:"sig"`
	Keys []string   `json:"keys,omitempty"`
}

func runHistory(hist []sessCall, env []string) (map[string]string, string, error) {
	probe, st, err := runHistoryT(hist, env, 60*time.Second)
	if err != nil && st == "timeout" {
		// a loaded machine is not a hang: only a process that is still running after ten minutes
		// (thousands of times the normal duration) is reported
		return runHistoryT(hist, env, 600*time.Second)
	}
	return probe, st, err
}

func runHistoryT(hist []sessCall, env []string, limit time.Duration) (map[string]string, string, error) {
	cmd := exec.Command(os.Args[0], "sessionrun")
	cmd.Env = append(os.Environ(), env...)
	in, _ := json.Marshal(hist)
	cmd.Stdin = bytes.NewReader(in)
	var out, errb bytes.Buffer
	cmd.Stdout = &out
	cmd.Stderr = &errb
	done := make(chan error, 1)
	if err := cmd.Start(); err != nil {
		return nil, "", err
	}
	go func() { done <- cmd.Wait() }()
	select {
	case err := <-done:
		if err != nil {
			st := errb.String()
			if len(st) > 2500 {
				st = st[:1200] + "\n...\n" + st[len(st)-1200:]
			}
			return nil, st, err
		}
	case <-time.After(limit):
		cmd.Process.Kill()
		return nil, "timeout", fmt.Errorf("timeout")
	}
	var probe map[string]string
	if err := json.Unmarshal(out.Bytes(), &probe); err != nil {
		return nil, errb.String(), err
	}
	return probe, errb.String(), nil
}

func sessionMain(args []string) int {
	fs := flag.NewFlagSet("session", flag.ExitOnError)
	dump := fs.String("dump", "", "TLC dump of Session (generation config)")
	out := fs.String("out", "", "summary")
	workers := fs.Int("workers", runtime.NumCPU(), "parallel processes")
	stride := fs.Int("stride", 1, "replay every stride-th history")
	seed := fs.Int64("seed", 1, "seed")
	envs := fs.String("env", "", "comma separated KEY=VALUE for the child processes")
	fs.Parse(args)
	t0 := time.Now()
	var env []string
	if *envs != "" {
		env = strings.Split(*envs, ",")
	}
	base, st, err := runHistory(nil, env)
	if err != nil {
		fmt.Fprintln(os.Stderr, "baseline probe failed:", err, st)
		return 2
	}
	type sum struct {
		Histories int               `json:"histories"`
		Evals     int               `json:"evals"`
		Bad       []sessBad         `json:"bad"`
		BadBySig  map[string]int    `json:"bad_by_sig"`
		Samples   []interface{}     `json:"samples"`
		Baseline  map[string]string `json:"baseline"`
		Collide   int               `json:"colliding_pairs"`
		WallS     float64           `json:"wall_s"`
	}
	S := sum{BadBySig: map[string]int{}, Baseline: base}
	var mu sync.Mutex
	addBad := func(b sessBad) {
		mu.Lock()
		S.BadBySig[b.Sig]++
		if S.BadBySig[b.Sig] <= 3 && len(S.Bad) < 60 {
			S.Bad = append(S.Bad, b)
		}
		mu.Unlock()
	}
	f, err := os.Open(*dump)
	if err != nil {
		fmt.Fprintln(os.Stderr, err)
		return 2
	}
	defer f.Close()
	jobs := make(chan []sessCall, 64)
	var wg sync.WaitGroup
	for w := 0; w < *workers; w++ {
		wg.Add(1)
		go func() {
			defer wg.Done()
			for h := range jobs {
				probe, st, err := runHistory(h, env)
				mu.Lock()
				S.Histories++
				S.Evals += len(base)
				mu.Unlock()
				if err != nil {
					// class of the history: does it contain a batch with two same-named types?
					sig := "crash"
					for _, c := range h {
						if c.C == "pretouch" && containsInt(c.S, 1) && containsInt(c.S, 2) {
							sig = "crash|same_name_batch"
						}
					}
					addBad(sessBad{Kind: "crash", Hist: h, Det: err.Error() + "\n" + st, Sig: sig})
					continue
				}
				var diff []string
				for k, v := range base {
					if pv, ok := probe[k]; ok && pv != v {
						diff = append(diff, k)
					}
				}
				if len(diff) > 0 {
					sig := "probe_differs"
					for _, c := range h {
						if c.C == "pretouch" && containsInt(c.S, 1) && containsInt(c.S, 2) {
							sig = "probe_differs|same_name_batch"
						}
					}
					det := ""
					for _, k := range diff {
						det += fmt.Sprintf("%s: %s (fresh process: %s)\n", k, probe[k], base[k])
					}
					addBad(sessBad{Kind: "probe_differs", Hist: h, Det: det, Sig: sig, Keys: diff})
				}
			}
		}()
	}
	perr := tlaval.ReadStates(f, func(n int, hdr string, st tlaval.State) error {
		if *stride > 1 && (n+int(*seed))%*stride != 0 && len(tlaval.Seq(st["hist"])) > 1 {
			return nil // histories of length 1 are always replayed, longer ones by stride
		}
		var h []sessCall
		for _, c := range tlaval.Seq(st["hist"]) {
			m := tlaval.Rec(c)
			sc := sessCall{C: tlaval.Str(m["c"]), T: tlaval.Int(m["t"]), How: tlaval.Str(m["how"]), D: tlaval.Int(m["d"])}
			for _, x := range tlaval.Seq(m["s"]) {
				sc.S = append(sc.S, tlaval.Int(x))
			}
			h = append(h, sc)
		}
		if len(h) == 0 {
			return nil
		}
		if len(S.Samples) < 5 && n%101 == 3 {
			S.Samples = append(S.Samples, h)
		}
		jobs <- h
		return nil
	})
	close(jobs)
	wg.Wait()
	if perr != nil {
		fmt.Fprintln(os.Stderr, perr)
		return 2
	}
	// types with equal 32-bit hashes, in a process of their own
	{
		cmd := exec.Command(os.Args[0], "sessioncollide", fmt.Sprint(*seed))
		cmd.Env = append(os.Environ(), env...)
		var ob, eb bytes.Buffer
		cmd.Stdout, cmd.Stderr = &ob, &eb
		err := cmd.Run()
		var cr struct {
			Bad   []sessBad `json:"bad"`
			Pairs int       `json:"pairs"`
			Evals int       `json:"evals"`
		}
		if err != nil || json.Unmarshal(ob.Bytes(), &cr) != nil {
			st := eb.String()
			if len(st) > 2500 {
				st = st[:1200] + "\n...\n" + st[len(st)-1200:]
			}
			addBad(sessBad{Kind: "crash", Det: fmt.Sprintf("types with equal hashes: %v\n%s", err, st), Sig: "hash_collision|crash"})
		}
		for _, b := range cr.Bad {
			addBad(b)
		}
		S.Collide = cr.Pairs
		S.Evals += cr.Evals
	}
	S.WallS = time.Since(t0).Seconds()
	b, _ := json.MarshalIndent(S, "", " ")
	if *out != "" {
		os.WriteFile(*out, b, 0o644)
	} else {
		os.Stdout.Write(b)
	}
	return 0
}

func containsInt(xs []int, x int) bool {
	for _, y := range xs {
		if y == x {
			return true
		}
	}
	return false
}

func init() {
	subcmds["session"] = sessionMain
	subcmds["sessionrun"] = sessionRun
}

// ---- types whose 32-bit type hash is equal (spec/Cache.tla: ServedOwn; variant "HashOnly") ----
// reflect.StructOf hashes a struct type with FNV-1 over "struct {" and, per field, the name and the field type's hash:
// two one-field structs whose names leave the running hash in the same state are distinct types with equal hashes.

func sessFnv1(x uint32, s string) uint32 {
	for i := 0; i < len(s); i++ {
		x = x*16777619 ^ uint32(s[i])
	}
	return x
}

func sessTypeHash(t reflect.Type) uint32 {
	p := (*[2]unsafe.Pointer)(unsafe.Pointer(&t))[1]
	return *(*uint32)(unsafe.Pointer(uintptr(p) + 2*unsafe.Sizeof(uintptr(0))))
}

func sessCollidingNames(seed uint64) (string, string) {
	h0 := sessFnv1(0, "struct {")
	seen := make(map[uint32]string, 1<<18)
	const letters = "abcdefghijklmnopqrstuvwxyz"
	x := seed*0x9E3779B97F4A7C15 + 1
	buf := []byte("Fxxxxxxxx")
	for n := 0; n < 4000000; n++ {
		for i := 1; i < len(buf); i++ {
			x ^= x << 13
			x ^= x >> 7
			x ^= x << 17
			buf[i] = letters[x%26]
		}
		name := string(buf)
		h := sessFnv1(h0, name)
		if prev, ok := seen[h]; ok && prev != name {
			return prev, name
		}
		seen[h] = name
	}
	return "", ""
}

// sessCollide: for several colliding pairs, both orders and every first-use route, each type must be served as if alone
// (reference: encoding/json).  Returns the disagreements and the number of pairs whose hashes really are equal.
func sessCollide(seed int64) (bad []sessBad, pairs int, evals int) {
	add := func(kind, det string) {
		bad = append(bad, sessBad{Kind: kind, Det: det, Sig: "hash_collision|" + kind})
	}
	for k := 0; k < 6; k++ {
		na, nb := sessCollidingNames(uint64(seed)*16 + uint64(k) + 1)
		if na == "" {
			continue
		}
		mk := func(name string, ft reflect.Type) reflect.Type {
			return reflect.StructOf([]reflect.StructField{{Name: name, Type: ft}})
		}
		ft := []reflect.Type{reflect.TypeOf(int(0)), reflect.TypeOf(""), reflect.TypeOf(int(0))}[k%3]
		tA, tB := mk(na, ft), mk(nb, ft)
		if tA == tB || sessTypeHash(tA) != sessTypeHash(tB) {
			continue
		}
		pairs++
		order := []reflect.Type{tA, tB}
		names := map[reflect.Type]string{tA: na, tB: nb}
		if k%2 == 1 {
			order = []reflect.Type{tB, tA}
		}
		if k >= 4 {
			sonic.Pretouch(order[0])
		}
		// derived types collide as well: slices and pointers of the two
		for round := 0; round < 2; round++ {
			for i, t := range order {
				v := reflect.New(t).Elem()
				var doc string
				if ft.Kind() == reflect.String {
					v.Field(0).SetString(fmt.Sprint("s", i))
					doc = fmt.Sprintf(`{"%s":"d%d"}`, names[t], i)
				} else {
					v.Field(0).SetInt(int64(i + 1))
					doc = fmt.Sprintf(`{"%s":%d}`, names[t], 7+i)
				}
				var val interface{} = v.Interface()
				if round == 1 {
					sl := reflect.MakeSlice(reflect.SliceOf(t), 1, 1)
					sl.Index(0).Set(v)
					val = sl.Interface()
					doc = "[" + doc + "]"
				}
				evals++
				got, gerr := sonic.ConfigStd.Marshal(val)
				want, werr := json.Marshal(val)
				if (gerr != nil) != (werr != nil) || string(got) != string(want) {
					add("marshal", fmt.Sprintf("types %v and %v have the hash %#x; Marshal(%v) = %s, encoding/json %s", tA, tB, sessTypeHash(tA), reflect.TypeOf(val), got, want))
				}
				pg, pw := reflect.New(reflect.TypeOf(val)), reflect.New(reflect.TypeOf(val))
				gerr = sonic.ConfigStd.Unmarshal([]byte(doc), pg.Interface())
				werr = json.Unmarshal([]byte(doc), pw.Interface())
				if (gerr != nil) != (werr != nil) || !reflect.DeepEqual(pg.Elem().Interface(), pw.Elem().Interface()) {
					add("unmarshal", fmt.Sprintf("types %v and %v have the hash %#x; Unmarshal(%s) into %v = %+v (%v), encoding/json %+v", tA, tB, sessTypeHash(tA), doc, reflect.TypeOf(val), pg.Elem().Interface(), gerr, pw.Elem().Interface()))
				}
			}
		}
	}
	return
}

func sessionCollideRun(args []string) int {
	seed := int64(1)
	if len(args) > 0 {
		fmt.Sscan(args[0], &seed)
	}
	bad, pairs, evals := sessCollide(seed)
	b, _ := json.Marshal(map[string]interface{}{"bad": bad, "pairs": pairs, "evals": evals})
	os.Stdout.Write(b)
	return 0
}

func init() { subcmds["sessioncollide"] = sessionCollideRun }
