package main

import (
	"fmt"

	"github.com/bytedance/sonic"
)

func init() {
	subcmds["smoke"] = func(args []string) int {
		var v interface{}
		err := sonic.UnmarshalString(`{"a":[1,2,{"b":null}]}`, &v)
		out, _ := sonic.Marshal(v)
		fmt.Println(string(out), err)
		return 0
	}
}
