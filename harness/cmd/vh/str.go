package main

// str: replay of GenStr behaviours (property C20): quote / unquote / HTML escape / UTF-8 validate
// and correct, on byte-class strings concretised with ASCII padding so that every interesting byte
// visits every residue modulo the vector widths, checked against the specification's expected
// output and against strconv / encoding/json / unicode/utf8 (oracle agreement).

import (
	"bytes"
	"encoding/base64"
	"encoding/json"
	"flag"
	"fmt"
	"math/rand"
	"os"
	"runtime"
	"runtime/debug"
	"strings"
	"time"
	stdutf8 "unicode/utf8"

	"github.com/bytedance/sonic"
	"github.com/bytedance/sonic/decoder"
	"github.com/bytedance/sonic/encoder"
	"github.com/bytedance/sonic/unquote"
	sutf8 "github.com/bytedance/sonic/utf8"

	"verifharness/tlaval"
	"verifharness/workpool"
)

type strCase struct {
	ID   int             `json:"id"`
	Fam  string          `json:"fam"`
	S    []string        `json:"s"`
	E    json.RawMessage `json:"e"`
	Seed int64           `json:"seed"`
	M    int             `json:"m"`
}

type strBad struct {
	ID    int      `json:"id"`
	Fam   string   `json:"fam"`
	API   string   `json:"api"`
	Kind  string   `json:"kind"`
	S     []string `json:"s"`
	Input string   `json:"input_b64"`
	Text  string   `json:"text"`
	Want  string   `json:"want"`
	Got   string   `json:"got"`
	Sig   string   `json:"sig"`
}

type strRes struct {
	DG     uint64   `json:"dg"`
	ID     int      `json:"id"`
	Evals  int      `json:"evals"`
	Oracle int      `json:"oracle_disagreements"`
	Bad    []strBad `json:"bad,omitempty"`
}

// ---- concretisation ----

func pick(r *rand.Rand, xs ...string) string { return xs[r.Intn(len(xs))] }

func contentBytes(c string, r *rand.Rand) string {
	switch c {
	case "a":
		return pick(r, "a", "z", "0", " ", "~", "/", "'", "_")
	case "qt":
		return `"`
	case "bs":
		return `\`
	case "nl":
		return "\n"
	case "cr":
		return "\r"
	case "tab":
		return "\t"
	case "ctl":
		return pick(r, "\x01", "\x08", "\x0c", "\x1f", "\x00", "\x0b")
	case "lt":
		return "<"
	case "gt":
		return ">"
	case "amp":
		return "&"
	case "u2":
		return pick(r, "é", "\u0080", "߿")
	case "u3":
		return pick(r, "中", "ࠀ", "￿", "퟿", "")
	case "u4":
		return pick(r, "\U0001F600", "\U00010000", "\U0010FFFF")
	case "ls":
		return pick(r, " ", " ")
	case "bad":
		return pick(r, "\xff", "\x80", "\xc0", "\xc3", "\xe4\xb8", "\xed\xa0\x80", "\xf8")
	case "sl":
		return "/"
	case "bsp":
		return "\x08"
	case "ff":
		return "\x0c"
	case "fffd":
		return "�"
	case "cp_astral":
		return "\U0001F600"
	}
	return ""
}

// unquote input tokens; u_bmp picks an escape whose scalar is remembered for the expected output
func unqTokenBytes(tk string, r *rand.Rand, bmp *[]string) string {
	switch tk {
	case "e_qt":
		return `\"`
	case "e_bs":
		return `\\`
	case "e_nl":
		return `\n`
	case "e_cr":
		return `\r`
	case "e_tab":
		return `\t`
	case "e_ctl":
		return `\u0001`
	case "e_sl":
		return `\/`
	case "e_b":
		return `\b`
	case "e_f":
		return `\f`
	case "u_bmp":
		esc, val := `é`, "é"
		switch r.Intn(4) {
		case 1:
			esc, val = `中`, "中"
		case 2:
			esc, val = `A`, "A"
		case 3:
			esc, val = `￿`, "￿"
		}
		*bmp = append(*bmp, val)
		return esc
	case "u_hi":
		return `\ud83d`
	case "u_lo":
		return `\uDE00`
	case "e_bad":
		return pick(r, `\x`, `\a`, `\U`, `\'`, `\0`)
	case "e_trunc":
		return `\`
	case "u_badhex":
		return pick(r, `\u00G0`, `\uZZZZ`, `\u12 4`, `\u+123`)
	case "u_short":
		return pick(r, `\u`, `\u0`, `\u00`, `\u00e`)
	}
	return contentBytesFixed(tk) // raw content: the same representative on the input and the expected side
}

func utf8ClassByte(c string, r *rand.Rand) byte {
	rg := map[string][2]int{"asc": {0x20, 0x7e}, "c8": {0x80, 0x8f}, "c9": {0x90, 0x9f}, "ca": {0xa0, 0xbf}, "l2": {0xc2, 0xdf}, "x0": {0xc0, 0xc1},
		"e0": {0xe0, 0xe0}, "l3": {0xe1, 0xec}, "ed": {0xed, 0xed}, "f0": {0xf0, 0xf0}, "l4": {0xf1, 0xf3}, "f4": {0xf4, 0xf4}, "x4": {0xf5, 0xff}}[c]
	b := rg[0] + r.Intn(rg[1]-rg[0]+1)
	if c == "l3" && r.Intn(4) == 0 {
		b = 0xee + r.Intn(2)
	}
	return byte(b)
}

var padLens = []int{0, 0, 1, 2, 3, 7, 13, 14, 15, 16, 17, 29, 30, 31, 32, 33, 47, 62, 63, 64, 65}

func (res *strRes) bad(c *strCase, api, kind string, in []byte, want, got string) {
	if len(res.Bad) < 6 {
		res.Bad = append(res.Bad, strBad{ID: c.ID, Fam: c.Fam, API: api, Kind: kind, S: c.S, Input: base64.StdEncoding.EncodeToString(in),
			Text: printable(in), Want: fmt.Sprintf("%.120q", want), Got: fmt.Sprintf("%.120q", got), Sig: c.Fam + "|" + api + "|" + kind})
	}
}

func tokensOf(v interface{}) []string {
	var out []string
	for _, x := range tlaval.Seq(v) {
		out = append(out, tlaval.Str(x))
	}
	return out
}

func strHandle(in []byte) (ret []byte) {
	var c strCase
	if err := json.Unmarshal(in, &c); err != nil {
		return []byte(`{"error":"bad case"}`)
	}
	res := strRes{ID: c.ID}
	od := obsBegin()
	debug.SetPanicOnFault(true)
	defer func() {
		if r := recover(); r != nil {
			res.bad(&c, "any", "fault_or_panic", nil, "", fmt.Sprint(r))
			ret, _ = json.Marshal(res)
		}
	}()
	var e map[string]interface{}
	json.Unmarshal(c.E, &e)
	for k := 0; k < c.M; k++ {
		r := rand.New(rand.NewSource(c.Seed*1000003 + int64(c.ID)*131 + int64(k)))
		lead := strings.Repeat("a", padLens[r.Intn(len(padLens))])
		trail := strings.Repeat("b", padLens[r.Intn(len(padLens))])
		strReps = []int{1, 1, 1, 2, 5, 17, 40, 130, 600}[r.Intn(9)]
		if k == 0 {
			lead, trail = "", ""
			strReps = 1
		}
		switch c.Fam {
		case "quote":
			strQuoteCase(&c, &res, r, lead, trail)
		case "unquote":
			strUnquoteCase(&c, &res, r, lead, trail, e)
		case "utf8":
			strUtf8Case(&c, &res, r, lead, trail, e)
		}
	}
	res.DG = od.sum
	out, _ := json.Marshal(res)
	return out
}

var strReps = 1

func strQuoteCase(c *strCase, res *strRes, r *rand.Rand, lead, trail string) {
	var sb strings.Builder
	sb.WriteString(lead)
	hasBad := false
	// scale: the content repeated, so that strings dense in expanding characters make the output buffer fill up and grow
	// several times in the middle of the string (the first concretisation keeps the bare content)
	reps := strReps
	for i := 0; i < reps; i++ {
		for _, cl := range c.S {
			sb.WriteString(contentBytes(cl, r))
			hasBad = hasBad || cl == "bad"
		}
	}
	sb.WriteString(trail)
	s := strOf(placeInput([]byte(sb.String()), len(c.S))) // placed per VERIF_PLACE (heap / guard page / adversarial continuation)
	in := []byte(s)
	// encoder.Quote: a literal that decodes back to the input
	q := encoder.Quote(s)
	obsAdd("Quote", q)
	res.Evals++
	if len(q) < 2 || q[0] != '"' || q[len(q)-1] != '"' {
		res.bad(c, "encoder.Quote", "not_a_literal", in, "", q)
		return
	}
	back, uerr := unquote.String(q[1 : len(q)-1])
	if uerr != 0 || back != s {
		res.bad(c, "encoder.Quote", "does_not_decode_back", in, s, back)
	}
	if !hasBad {
		var viaStd string
		if err := json.Unmarshal([]byte(q), &viaStd); err != nil || viaStd != s {
			res.bad(c, "encoder.Quote", "std_decodes_differently", in, s, viaStd)
		}
	}
	// HTMLEscape equals encoding/json.HTMLEscape and preserves the destination prefix
	// (destinations that already hold more than the source is long, with and without spare capacity: the growth of a
	// destination is computed from both lengths)
	for _, prefix := range []string{"", "PRE<&>FIX", strings.Repeat("PRE<&>FIX", 12+r.Intn(8)), strings.Repeat("PRE<&>FIX", 400)} {
		var wb bytes.Buffer
		wb.WriteString(prefix)
		json.HTMLEscape(&wb, []byte(q))
		dst := make([]byte, len(prefix), len(prefix)+r.Intn(8))
		copy(dst, prefix)
		got := encoder.HTMLEscape(dst, placeInput([]byte(q), len(prefix)))
		obsAdd("HTMLEscape", got)
		res.Evals++
		if !bytes.Equal(got, wb.Bytes()) {
			res.bad(c, "encoder.HTMLEscape", "differs_from_std", in, wb.String(), string(got))
		}
	}
	// the same through Marshal / Unmarshal
	for _, cfg := range []struct {
		name string
		api  sonic.API
	}{{"ConfigStd", sonic.ConfigStd}, {"ConfigDefault", sonic.ConfigDefault}} {
		mb, err := cfg.api.Marshal(s)
		obsAdd(cfg.name, "Marshal", mb, err)
		res.Evals++
		if err != nil {
			res.bad(c, cfg.name+".Marshal", "error", in, "", err.Error())
			continue
		}
		want := s
		if cfg.name == "ConfigStd" && hasBad {
			want = strings.ToValidUTF8(s, "�")
			want = string(correctStd([]byte(s)))
		}
		var back2 string
		if err := json.Unmarshal(mb, &back2); err != nil {
			if !hasBad {
				res.bad(c, cfg.name+".Marshal", "std_cannot_decode", in, s, string(mb))
			}
		} else if !hasBad && back2 != want {
			res.bad(c, cfg.name+".Marshal", "std_decodes_differently", in, want, back2)
		} else if hasBad && cfg.name == "ConfigStd" && back2 != want {
			res.bad(c, cfg.name+".Marshal", "invalid_utf8_not_replaced_bytewise", in, want, back2)
		}
		var back3 string
		if err := cfg.api.Unmarshal(mb, &back3); err != nil || (back3 != s && !(hasBad)) {
			res.bad(c, cfg.name+".Unmarshal(Marshal)", "round_trip", in, s, back3)
		}
		if cfg.name == "ConfigStd" {
			stdb, _ := json.Marshal(s)
			var a, b string
			json.Unmarshal(stdb, &a)
			json.Unmarshal(mb, &b)
			if a != b {
				res.bad(c, "ConfigStd.Marshal", "denotes_other_string_than_std", in, string(stdb), string(mb))
			}
		}
	}
}

// correctStd: byte-wise U+FFFD replacement as encoding/json does it (DecodeRune width 1 on error)
func correctStd(b []byte) []byte {
	var out []byte
	for len(b) > 0 {
		rn, w := stdutf8.DecodeRune(b)
		if rn == stdutf8.RuneError && w == 1 {
			out = append(out, "�"...)
		} else {
			out = append(out, b[:w]...)
		}
		b = b[w:]
	}
	return out
}

func strUnquoteCase(c *strCase, res *strRes, r *rand.Rand, lead, trail string, e map[string]interface{}) {
	var sb strings.Builder
	sb.WriteString(lead)
	var bmp []string
	raw := false // raw bytes that encoding/json does not take inside a literal
	if n := len(c.S); n > 0 && (c.S[n-1] == "e_trunc" || c.S[n-1] == "u_short") {
		trail = "" // these tokens are defined by the end of the input
	}
	for _, tk := range c.S {
		sb.WriteString(unqTokenBytes(tk, r, &bmp))
		raw = raw || tk == "nl" || tk == "bad" || tk == "ctl" || tk == "cr" || tk == "tab"
	}
	sb.WriteString(trail)
	t := strOf(placeInput([]byte(sb.String()), len(c.S)))
	in := []byte(t)
	expect := func(key string) (bool, string) {
		m := e[key].(map[string]interface{})
		if m["err"].(bool) {
			return true, ""
		}
		var ob strings.Builder
		ob.WriteString(lead)
		bi := 0
		rr := rand.New(rand.NewSource(1))
		for _, o := range m["out"].([]interface{}) {
			os_ := o.(string)
			if os_ == "cp_bmp" {
				ob.WriteString(bmp[bi])
				bi++
				continue
			}
			_ = rr
			ob.WriteString(outBytes(os_, c, r))
		}
		ob.WriteString(trail)
		return false, ob.String()
	}
	// content classes with several representatives must be rendered identically on both sides:
	// re-concretise deterministically from the same bytes instead (see outBytes)
	wantErr, want := expect("rep")
	got, gerr := unquote.String(t)
	obsAdd("unquote", got, gerr)
	res.Evals++
	if wantErr != (gerr != 0) {
		res.bad(c, "unquote.String", "error_mismatch", in, fmt.Sprint("err=", wantErr), fmt.Sprint("err=", gerr != 0, " ", got))
	} else if !wantErr && got != want {
		res.bad(c, "unquote.String", "wrong_output", in, want, got)
	}
	// encoding/json as the second oracle (only for inputs it accepts inside a literal)
	if !raw {
		var viaStd string
		serr := json.Unmarshal([]byte(`"`+t+`"`), &viaStd)
		if (serr != nil) != wantErr || (!wantErr && viaStd != want) {
			res.Oracle++
			res.bad(c, "encoding/json", "oracle_disagreement", in, fmt.Sprint(wantErr, " ", want), fmt.Sprint(serr, " ", viaStd))
		} else {
			// through Unmarshal, default (replace) policy
			var s1 string
			err := sonic.ConfigStd.UnmarshalFromString(`"`+t+`"`, &s1)
			obsAdd("std.Unmarshal", s1, err)
			res.Evals++
			if (err != nil) != wantErr {
				res.bad(c, "ConfigStd.Unmarshal", "error_mismatch", in, fmt.Sprint("err=", wantErr), fmt.Sprint(err))
			} else if !wantErr && s1 != want {
				res.bad(c, "ConfigStd.Unmarshal", "wrong_output", in, want, s1)
			}
			var s2 string
			err = sonic.UnmarshalString(`"`+t+`"`, &s2)
			obsAdd("Unmarshal", s2, err)
			res.Evals++
			if (err != nil) != wantErr {
				res.bad(c, "Unmarshal", "error_mismatch", in, fmt.Sprint("err=", wantErr), fmt.Sprint(err))
			} else if !wantErr && s2 != want {
				res.bad(c, "Unmarshal", "wrong_output", in, want, s2)
			}
			// object keys take the same path
			var mk map[string]int
			err = sonic.UnmarshalString(`{"`+t+`":1}`, &mk)
			res.Evals++
			if (err != nil) != wantErr {
				res.bad(c, "Unmarshal(key)", "error_mismatch", in, fmt.Sprint("err=", wantErr), fmt.Sprint(err))
			} else if !wantErr {
				if _, ok := mk[want]; !ok || len(mk) != 1 {
					res.bad(c, "Unmarshal(key)", "wrong_output", in, want, fmt.Sprint(mk))
				}
			}
		}
	}
	// the generic (interface{}) decoder has its own unquote call sites: string values and object keys
	if !raw {
		for _, pol := range []string{"rep", "strict"} {
			wErr, w := expect(pol)
			for _, form := range []string{"value", "key", "nested"} {
				doc := `"` + t + `"`
				switch form {
				case "key":
					doc = `{"` + t + `":1}`
				case "nested":
					doc = `[{"k":["` + t + `"]}]`
				}
				d := decoder.NewDecoder(doc)
				if pol == "strict" {
					d.UseUnicodeErrors()
				}
				var iv interface{}
				err := d.Decode(&iv)
				obsAdd("iface", pol, form, fmt.Sprint(iv), err)
				res.Evals++
				name := "Decode.iface(" + form + "," + pol + ")"
				if (err != nil) != wErr {
					res.bad(c, name, "error_mismatch", in, fmt.Sprint("err=", wErr), fmt.Sprint(err, " ", iv))
					continue
				}
				if wErr {
					continue
				}
				var got string
				ok := false
				switch form {
				case "value":
					got, ok = iv.(string)
				case "key":
					if m, isM := iv.(map[string]interface{}); isM && len(m) == 1 {
						for k := range m {
							got, ok = k, true
						}
					}
				case "nested":
					if a, isA := iv.([]interface{}); isA && len(a) == 1 {
						if m, isM := a[0].(map[string]interface{}); isM {
							if b, isB := m["k"].([]interface{}); isB && len(b) == 1 {
								got, ok = b[0].(string)
							}
						}
					}
				}
				if !ok || got != w {
					res.bad(c, name, "wrong_output", in, w, fmt.Sprint(iv))
				}
			}
		}
	}
	// strict policy (UseUnicodeErrors): lone surrogates are errors
	wantErrS, wantS := expect("strict")
	d := decoder.NewDecoder(`"` + t + `"`)
	d.UseUnicodeErrors()
	var s3 string
	err := d.Decode(&s3)
	obsAdd("UseUnicodeErrors", s3, err)
	res.Evals++
	if !raw {
		if (err != nil) != wantErrS {
			res.bad(c, "Decoder.UseUnicodeErrors", "error_mismatch", in, fmt.Sprint("err=", wantErrS), fmt.Sprint(err, " ", s3))
		} else if !wantErrS && s3 != wantS {
			res.bad(c, "Decoder.UseUnicodeErrors", "wrong_output", in, wantS, s3)
		}
	}
}

// outBytes renders an output class; classes with several representatives were fixed by the input
// concretisation, so the expected output re-uses the same random stream position by construction:
// to keep both sides equal, multi-representative content classes use a representative derived from
// the case id only.
func outBytes(cl string, c *strCase, r *rand.Rand) string {
	return contentBytesFixed(cl)
}

func contentBytesFixed(c string) string {
	switch c {
	case "a":
		return "a"
	case "ctl":
		return "\x01"
	case "u2":
		return "é"
	case "u3":
		return "中"
	case "u4":
		return "\U0001F600"
	case "ls":
		return " "
	case "bad":
		return "\xff"
	}
	return contentBytes(c, rand.New(rand.NewSource(1)))
}

func strUtf8Case(c *strCase, res *strRes, r *rand.Rand, lead, trail string, e map[string]interface{}) {
	var b []byte
	b = append(b, lead...)
	// scale: the class sequence repeated with an ASCII separator between the copies (every copy then stands on its own: the
	// separator ends any pending sequence exactly as the end of the input does), so that the number of invalid bytes passes the
	// 4096 entries of the position table several times
	reps := 1
	if strReps > 1 && len(c.S) > 0 {
		reps = []int{2, 9, 70}[r.Intn(3)]
		if r.Intn(40) == 0 {
			reps = []int{700, 4200, 9000}[r.Intn(3)] // (one case in forty: these are long)
		}
	}
	wantValid := e["valid"].(bool)
	var want []byte
	want = append(want, lead...)
	for rep := 0; rep < reps; rep++ {
		var concrete []byte
		for _, cl := range c.S {
			concrete = append(concrete, utf8ClassByte(cl, r))
		}
		b = append(b, concrete...)
		// expected correction, from the specification's class output
		ci := 0
		for _, o := range e["fixed"].([]interface{}) {
			if o.(string) == "FFFD" {
				want = append(want, "�"...)
				ci++ // one input byte replaced
				continue
			}
			want = append(want, concrete[ci])
			ci++
		}
		if rep+1 < reps {
			b = append(b, '~')
			want = append(want, '~')
		}
	}
	b = append(b, trail...)
	b = placeInput(b, len(c.S))
	want = append(want, trail...)
	// reference oracles
	if stdutf8.Valid(b) != wantValid || !bytes.Equal(correctStd(b), want) {
		res.Oracle++
		return
	}
	res.Evals += 3
	obsAdd("Validate", sutf8.Validate(b), sutf8.ValidateString(string(b)))
	if got := sutf8.Validate(b); got != wantValid {
		res.bad(c, "utf8.Validate", "wrong_verdict", b, fmt.Sprint(wantValid), fmt.Sprint(got))
	}
	if got := sutf8.ValidateString(string(b)); got != wantValid {
		res.bad(c, "utf8.ValidateString", "wrong_verdict", b, fmt.Sprint(wantValid), fmt.Sprint(got))
	}
	prefix := []byte("pre")
	got := sutf8.CorrectWith(append([]byte{}, prefix...), b, "�")
	obsAdd("CorrectWith", got)
	if !bytes.Equal(got, append(append([]byte{}, prefix...), want...)) {
		res.bad(c, "utf8.CorrectWith", "wrong_output", b, string(want), string(got))
	}
	// the same through Marshal with ValidateString
	mb, err := sonic.Config{ValidateString: true}.Froze().Marshal(string(b))
	res.Evals++
	if err != nil {
		res.bad(c, "Marshal(ValidateString)", "error", b, "", err.Error())
	} else {
		var back string
		if json.Unmarshal(mb, &back) != nil || back != string(want) {
			res.bad(c, "Marshal(ValidateString)", "wrong_output", b, string(want), back)
		}
	}
}

type strSummary struct {
	Cases      int            `json:"cases"`
	Evals      int            `json:"evals"`
	Oracle     int            `json:"oracle_disagreements"`
	BadBySig   map[string]int `json:"bad_by_sig"`
	Bad        []strBad       `json:"bad"`
	Crashes    []string       `json:"crashes"`
	Samples    []interface{}  `json:"samples"`
	NonTrivial int            `json:"distinct_nontrivial"`
	WallS      float64        `json:"wall_s"`
}

func strMain(args []string) int {
	fs := flag.NewFlagSet("str", flag.ExitOnError)
	dump := fs.String("dump", "", "TLC dump of GenStr")
	fam := fs.String("fam", "quote", "family")
	out := fs.String("out", "", "summary")
	seed := fs.Int64("seed", 1, "seed")
	m := fs.Int("m", 4, "concretisations")
	workers := fs.Int("workers", runtime.NumCPU(), "workers")
	envs := fs.String("env", "", "comma separated KEY=VALUE for the workers")
	digests := fs.String("digests", "", "write per-case observation digests to this file")
	fs.Parse(args)
	t0 := time.Now()
	f, err := os.Open(*dump)
	if err != nil {
		fmt.Fprintln(os.Stderr, err)
		return 2
	}
	defer f.Close()
	var dgs digestFile
	S := strSummary{BadBySig: map[string]int{}}
	var env []string
	if *envs != "" {
		env = strings.Split(*envs, ",")
	}
	cases := make(chan []byte, 1024)
	var perr error
	go func() {
		defer close(cases)
		perr = tlaval.ReadStates(f, func(n int, hdr string, st tlaval.State) error {
			c := strCase{ID: n, Fam: *fam, Seed: *seed, M: *m, S: tokensOf(st["s"])}
			c.E, _ = json.Marshal(tlaval.ToJSON(st["e"]))
			b, _ := json.Marshal(c)
			cases <- b
			return nil
		})
	}()
	err = workpool.Run(workpool.Options{Kind: "str", Workers: *workers, Batch: 128, Env: env,
		OnResult: func(cl, rl []byte) {
			var r strRes
			if json.Unmarshal(rl, &r) != nil {
				return
			}
			S.Cases++
			dgs.add(r.ID, r.DG)
			S.Evals += r.Evals
			S.Oracle += r.Oracle
			var c strCase
			json.Unmarshal(cl, &c)
			if len(c.S) > 0 {
				S.NonTrivial++
			}
			for i := range r.Bad {
				S.BadBySig[r.Bad[i].Sig]++
				if S.BadBySig[r.Bad[i].Sig] <= 3 && len(S.Bad) < 200 {
					S.Bad = append(S.Bad, r.Bad[i])
				}
			}
			if len(S.Samples) < 5 && S.Cases%1733 == 7 {
				S.Samples = append(S.Samples, map[string]interface{}{"family": c.Fam, "classes": c.S, "expected": c.E})
			}
		},
		OnCrash: func(c workpool.Crash) {
			st := c.Stderr
			if len(st) > 1500 {
				st = st[len(st)-1500:]
			}
			S.Crashes = append(S.Crashes, c.Reason+": "+string(c.Case)+"\n"+st)
		}}, cases)
	if err != nil || perr != nil {
		fmt.Fprintln(os.Stderr, "str:", err, perr)
		return 2
	}
	S.WallS = time.Since(t0).Seconds()
	dgs.write(*digests)
	b, _ := json.MarshalIndent(S, "", " ")
	if *out != "" {
		os.WriteFile(*out, b, 0o644)
	} else {
		os.Stdout.Write(b)
	}
	return 0
}

func init() {
	subcmds["str"] = strMain
	workpool.Register("str", strHandle)
}
