package main

// stream: replay of GenStream behaviours (byte-class streams with the result Stream!Ref requires)
// against the real stream decoder under every chunking of the Reader (property C17).

import (
	"bytes"
	"encoding/base64"
	"encoding/json"
	"errors"
	"flag"
	"fmt"
	"io"
	"math/rand"
	"os"
	"reflect"
	"runtime"
	"sort"
	"strings"
	"time"

	"github.com/bytedance/sonic"

	"verifharness/conc"
	"verifharness/tlaval"
	"verifharness/workpool"
)

type refExp struct {
	Vals [][2]int `json:"vals"`
	Opt  []int    `json:"opt"`
	Term []string `json:"term"`
}

type streamCase struct {
	ID   int      `json:"id"`
	S    []string `json:"s"`
	EOF  refExp   `json:"eeof"`
	FLT  refExp   `json:"eflt"`
	End  string   `json:"end"` // machine state at the end of the stream: idle|open|pending|err
	Seed int64    `json:"seed"`
	DS   decSteps `json:"dsteps"`
	M    int      `json:"m"`
	Full bool     `json:"full"` // enumerate all chunkings (else sample)
}

var errFault = errors.New("verif: injected reader fault")

// planReader delivers data cut at the given offsets; then ends with end (io.EOF or errFault) for ever.
type planReader struct {
	data     []byte
	cuts     []int // strictly increasing chunk end offsets, last = len(data)
	ci       int
	pos      int
	end      error
	withLast bool // deliver the end error together with the last chunk
	empties  bool // a (0, nil) read before every chunk
	gaveE    bool
	reads    int
	log      *[]readEv
}

type readEv struct {
	N   int    `json:"n"`
	Err string `json:"err"`
}

func (r *planReader) Read(p []byte) (n int, err error) {
	r.reads++
	defer func() {
		if r.log != nil {
			e := "none"
			if err == io.EOF {
				e = "eof"
			} else if err != nil {
				e = "fault"
			}
			*r.log = append(*r.log, readEv{n, e})
		}
	}()
	if r.reads > 4*len(r.data)+1000 {
		panic("verif: reader called far more often than there are bytes (decoder does not terminate)")
	}
	if len(p) == 0 {
		return 0, nil
	}
	if r.pos >= len(r.data) {
		return 0, r.end
	}
	if r.empties && !r.gaveE {
		r.gaveE = true
		return 0, nil
	}
	r.gaveE = false
	for r.ci < len(r.cuts) && r.cuts[r.ci] <= r.pos {
		r.ci++
	}
	e := len(r.data)
	if r.ci < len(r.cuts) {
		e = r.cuts[r.ci]
	}
	n = copy(p, r.data[r.pos:e])
	r.pos += n
	if r.pos >= len(r.data) && r.withLast {
		return n, r.end
	}
	return n, nil
}

type streamObs struct {
	Vals []interface{}
	Term string // EOF | ERR | FAULT | NONE (no terminal condition within the call budget)
	Noop int    // Decode returned nil without storing a value
	Unst bool   // terminal condition not sticky (a later call returned something else)
	Det  string
}

type anyDecoder interface{ Decode(v interface{}) error }

// The destination is a nil interface{}: a successful Decode that leaves it nil either decoded the
// JSON value null or stored nothing.  driveDecoder gets the expected values so that it can tell the
// two apart (a nil where no null is expected = success without consuming input).

func classifyErr(err error) string {
	switch {
	case err == io.EOF:
		return "EOF"
	case err == errFault:
		return "FAULT"
	}
	return "ERR"
}

func driveDecoder(d anyDecoder, budget int, want []interface{}) (o streamObs) {
	defer func() {
		if r := recover(); r != nil {
			o.Term = "PANIC"
			o.Det = fmt.Sprint(r)
		}
	}()
	o.Term = "NONE"
	for i := 0; i < budget; i++ {
		var v interface{}
		err := d.Decode(&v)
		if err == nil {
			if v == nil && !(len(o.Vals) < len(want) && want[len(o.Vals)] == nil) {
				o.Noop++
				if o.Noop > 2 {
					return
				}
				continue
			}
			o.Vals = append(o.Vals, v)
			continue
		}
		o.Term = classifyErr(err)
		o.Det = errDetail(err)
		// stickiness: two more calls must not succeed
		for k := 0; k < 2; k++ {
			var v2 interface{}
			err2 := d.Decode(&v2)
			if err2 == nil {
				o.Unst = true
				o.Det += fmt.Sprintf(" | later call %d returned nil (value %v)", k+1, v2)
			}
		}
		return
	}
	return
}

type streamBad struct {
	ID     int      `json:"id"`
	Cfg    string   `json:"cfg"`  // std | default
	Kind   string   `json:"kind"` // see judgeStream
	EndK   string   `json:"endk"`
	End    string   `json:"end"`
	Cut    string   `json:"cut"` // class of chunk boundary involved: what the first cut splits
	S      []string `json:"s"`
	Input  string   `json:"input_b64"`
	Text   string   `json:"text"`
	Cuts   []int    `json:"cuts"`
	With   bool     `json:"eof_with_last"`
	Empt   bool     `json:"empty_reads"`
	Exp    string   `json:"expected"`
	Got    string   `json:"got"`
	StdGot string   `json:"std_got"`
}

type streamRes struct {
	ID     int            `json:"id"`
	Evals  int            `json:"evals"`
	Oracle int            `json:"oracle_disagreements"`
	Bad    []streamBad    `json:"bad,omitempty"`
	Traces []streamTrace  `json:"traces,omitempty"`
	Kinds  map[string]int `json:"kinds,omitempty"`
}

// streamTrace is one recorded execution, for validation by spec/trace/TraceStream.tla
type streamTrace struct {
	S      []string      `json:"s"`
	EndK   string        `json:"endk"`
	Events []streamEvent `json:"events"`
}

type streamEvent struct {
	Ev  string `json:"ev"`  // read | val | term
	N   int    `json:"n"`   // read: number of classes delivered by this read
	Err string `json:"err"` // read: none|eof|fault ; term: EOF|ERR|FAULT
	Lo  int    `json:"lo"`  // val: class index range of the returned value (1-based, inclusive), 0 if not located
	Hi  int    `json:"hi"`
}

func fmtObs(vals []interface{}, term string) string {
	b, _ := json.Marshal(vals)
	s := string(b) + " then " + term
	if len(s) > 300 {
		s = s[:300] + "..."
	}
	return s
}

// expected concrete values from the abstract index ranges
func concreteVals(b []byte, seg [][2]int, ranges [][2]int) ([]interface{}, bool) {
	out := make([]interface{}, 0, len(ranges))
	for _, r := range ranges {
		lo, hi := seg[r[0]-1][0], seg[r[1]-1][1]
		var v interface{}
		if err := json.Unmarshal(b[lo:hi], &v); err != nil {
			return nil, false
		}
		out = append(out, v)
	}
	return out, true
}

func contains(xs []string, x string) bool {
	for _, y := range xs {
		if y == x {
			return true
		}
	}
	return false
}

// judgeStream compares an observation with the specification's expectation.
func judgeStream(o *streamObs, exp *refExp, want []interface{}, opt interface{}, hasOpt bool) string {
	if o.Term == "PANIC" {
		return "panic"
	}
	if o.Noop > 0 {
		return "noop_success" // Decode reported success without consuming input
	}
	n := len(want)
	if len(o.Vals) < n {
		for i := range o.Vals {
			if !reflect.DeepEqual(o.Vals[i], want[i]) {
				return "wrong_value"
			}
		}
		return "missing_value"
	}
	for i := 0; i < n; i++ {
		if !reflect.DeepEqual(o.Vals[i], want[i]) {
			return "wrong_value"
		}
	}
	if len(o.Vals) > n {
		if !(hasOpt && len(o.Vals) == n+1 && reflect.DeepEqual(o.Vals[n], opt)) {
			return "extra_value"
		}
	}
	if !contains(exp.Term, o.Term) {
		return "terminal_" + strings.Join(exp.Term, "|") + "_got_" + o.Term
	}
	if o.Unst {
		return "terminal_not_sticky"
	}
	return ""
}

// compositions of n items as cut sets (bitmask over the n-1 inner boundaries)
func cutsFromMask(seg [][2]int, mask uint) []int {
	var cuts []int
	for i := 0; i < len(seg)-1; i++ {
		if mask&(1<<uint(i)) != 0 {
			cuts = append(cuts, seg[i][1])
		}
	}
	if len(seg) > 0 {
		cuts = append(cuts, seg[len(seg)-1][1])
	}
	return cuts
}

func newSonicDecoder(cfg string, r io.Reader) anyDecoder {
	if cfg == "std" {
		return sonic.ConfigStd.NewDecoder(r)
	}
	return sonic.ConfigDefault.NewDecoder(r)
}

func cutClass(c *streamCase, seg [][2]int, cuts []int, exp *refExp) string {
	// describe the first cut that falls strictly inside a top-level scalar-ish region: used for signatures
	if len(cuts) <= 1 {
		return "none"
	}
	return "some"
}

func streamHandle(in []byte) []byte {
	var c streamCase
	if err := json.Unmarshal(in, &c); err != nil {
		return []byte(`{"error":"bad case"}`)
	}
	res := streamRes{ID: c.ID, Kinds: map[string]int{}}
	n := len(c.S)
	for k := 0; k < c.M; k++ {
		r := rand.New(rand.NewSource(c.Seed*1000003 + int64(c.ID)*131 + int64(k)))
		plan := conc.Plan{}
		if k > 0 {
			plan.Stretch = true
			plan.Digits = true
		}
		b, seg := conc.Concrete(c.S, plan, r)
		var masks []uint
		if n <= 1 {
			masks = []uint{0}
		} else if c.Full && n <= 8 {
			for m := uint(0); m < 1<<uint(n-1); m++ {
				masks = append(masks, m)
			}
		} else {
			masks = []uint{0, (1 << uint(n-1)) - 1}
			for i := 0; i < 6; i++ {
				masks = append(masks, uint(r.Int63())&((1<<uint(n-1))-1))
			}
		}
		for _, endk := range []string{"EOF", "FAULT"} {
			exp := &c.EOF
			endErr := error(io.EOF)
			if endk == "FAULT" {
				exp = &c.FLT
				endErr = errFault
			}
			want, ok := concreteVals(b, seg, exp.Vals)
			if !ok {
				res.Oracle++
				res.Bad = append(res.Bad, streamBad{ID: c.ID, Cfg: "encoding/json", Kind: "oracle_disagreement", EndK: endk, End: c.End, S: c.S,
					Input: base64.StdEncoding.EncodeToString(b), Text: printable(b), Exp: "a value of the specification is rejected by encoding/json.Unmarshal"})
				continue
			}
			if endk == "EOF" && c.DS.Has {
				// the positional decoder over the same bytes (spec/DecObj.tla)
				res.Evals++
				if kind, det := drivePositional(b, seg, c.DS, want); kind == "oracle" {
					res.Oracle++
					if len(res.Bad) < 3 {
						res.Bad = append(res.Bad, streamBad{ID: c.ID, Cfg: "encoding/json", Kind: "oracle_disagreement", EndK: endk, End: c.End, S: c.S,
							Input: base64.StdEncoding.EncodeToString(b), Text: printable(b), Exp: det})
					}
				} else if kind != "" {
					res.Kinds[kind]++
					if len(res.Bad) < 6 {
						res.Bad = append(res.Bad, streamBad{ID: c.ID, Cfg: "decoder.Decoder", Kind: kind, EndK: endk, End: c.End, Cut: "none", S: c.S,
							Input: base64.StdEncoding.EncodeToString(b), Text: printable(b), Exp: fmtObs(want, strings.Join(exp.Term, "|")), Got: det})
					}
				}
			}
			var opt interface{}
			hasOpt := false
			if len(exp.Opt) == 2 {
				if ov, ok := concreteVals(b, seg, [][2]int{{exp.Opt[0], exp.Opt[1]}}); ok {
					opt, hasOpt = ov[0], true
				}
			}
			for mi, mask := range masks {
				cuts := cutsFromMask(seg, mask)
				for variant := 0; variant < 4; variant++ {
					withLast := variant&1 != 0
					empties := variant&2 != 0
					if empties && mi%4 != 0 && c.Full {
						continue // empty reads on a quarter of the chunkings
					}
					mk := func(log *[]readEv) *planReader {
						return &planReader{data: b, cuts: cuts, end: endErr, withLast: withLast, empties: empties, log: log}
					}
					// reference implementation on the same reader plan
					stdObs := driveDecoder(json.NewDecoder(mk(nil)), len(want)+4, want)
					if judgeStream(&stdObs, exp, want, opt, hasOpt) != "" {
						res.Oracle++
						if len(res.Bad) < 3 {
							res.Bad = append(res.Bad, streamBad{ID: c.ID, Cfg: "encoding/json", Kind: "oracle_disagreement", EndK: endk, End: c.End, S: c.S,
								Input: base64.StdEncoding.EncodeToString(b), Text: printable(b), Cuts: cuts, With: withLast, Empt: empties,
								Exp: fmtObs(want, strings.Join(exp.Term, "|")), Got: fmtObs(stdObs.Vals, stdObs.Term), StdGot: stdObs.Det})
						}
						continue
					}
					for _, cfg := range []string{"std", "default"} {
						var rlog []readEv
						rd := mk(&rlog)
						obs := driveDecoder(newSonicDecoder(cfg, rd), len(want)+4, want)
						res.Evals++
						kind := judgeStream(&obs, exp, want, opt, hasOpt)
						if kind != "" {
							res.Kinds[kind]++
							if len(res.Bad) < 6 {
								res.Bad = append(res.Bad, streamBad{ID: c.ID, Cfg: cfg, Kind: kind, EndK: endk, End: c.End, Cut: cutClass(&c, seg, cuts, exp), S: c.S,
									Input: base64.StdEncoding.EncodeToString(b), Text: printable(b), Cuts: cuts, With: withLast, Empt: empties,
									Exp: fmtObs(want, strings.Join(exp.Term, "|")), Got: fmtObs(obs.Vals, obs.Term) + " " + obs.Det, StdGot: fmtObs(stdObs.Vals, stdObs.Term)})
							}
						}
					}
				}
			}
		}
	}
	out, _ := json.Marshal(res)
	return out
}

type streamSummary struct {
	Cases      int            `json:"cases"`
	Evals      int            `json:"evals"`
	Oracle     int            `json:"oracle_disagreements"`
	Kinds      map[string]int `json:"kinds"`
	BadBySig   map[string]int `json:"bad_by_sig"`
	Bad        []streamBad    `json:"bad"`
	Crashes    []string       `json:"crashes"`
	Samples    []interface{}  `json:"samples"`
	NonTrivial int            `json:"distinct_nontrivial"`
	WallS      float64        `json:"wall_s"`
}

func streamSig(b *streamBad) string {
	return b.Cfg + "|" + b.Kind + "|" + b.EndK + "|" + b.End
}

func toRefExp(v interface{}) refExp {
	m := tlaval.Rec(v)
	var e refExp
	for _, p := range tlaval.Seq(m["vals"]) {
		q := tlaval.Seq(p)
		e.Vals = append(e.Vals, [2]int{tlaval.Int(q[0]), tlaval.Int(q[1])})
	}
	for _, p := range tlaval.Seq(m["opt"]) {
		e.Opt = append(e.Opt, tlaval.Int(p))
	}
	for _, p := range tlaval.Seq(m["term"]) {
		e.Term = append(e.Term, tlaval.Str(p))
	}
	sort.Strings(e.Term)
	return e
}

func endClass(r map[string]interface{}) string {
	m := tlaval.Rec(r["m"])
	st, lx, exp := tlaval.Str(m["st"]), tlaval.Str(m["lx"]), tlaval.Str(m["exp"])
	depth := len(tlaval.Seq(m["stk"]))
	switch {
	case st == "err":
		return "err"
	case depth == 0 && lx == "" && (exp == "val" || exp == "done"):
		return "idle"
	case depth == 0 && (lx == "zero" || lx == "int" || lx == "frac" || lx == "exp"):
		return "open"
	}
	return "pending"
}

func streamMain(args []string) int {
	fs := flag.NewFlagSet("stream", flag.ExitOnError)
	dump := fs.String("dump", "", "TLC dump file of GenStream")
	out := fs.String("out", "", "summary output (json)")
	seed := fs.Int64("seed", 1, "seed")
	m := fs.Int("m", 2, "concretisations per stream")
	full := fs.Bool("full", true, "enumerate all chunkings")
	workers := fs.Int("workers", runtime.NumCPU(), "worker processes")
	fs.Parse(args)
	t0 := time.Now()
	f, err := os.Open(*dump)
	if err != nil {
		fmt.Fprintln(os.Stderr, err)
		return 2
	}
	defer f.Close()
	sum := streamSummary{Kinds: map[string]int{}, BadBySig: map[string]int{}}
	cases := make(chan []byte, 1024)
	var perr error
	go func() {
		defer close(cases)
		perr = tlaval.ReadStates(f, func(n int, hdr string, st tlaval.State) error {
			c := streamCase{ID: n, Seed: *seed, M: *m, Full: *full}
			for _, x := range tlaval.Seq(st["s"]) {
				c.S = append(c.S, tlaval.Str(x))
			}
			c.EOF = toRefExp(st["eeof"])
			c.FLT = toRefExp(st["eflt"])
			c.DS = toDecSteps(st["dsteps"])
			c.End = endClass(tlaval.Rec(st["r"]))
			b, _ := json.Marshal(c)
			cases <- b
			return nil
		})
	}()
	err = workpool.Run(workpool.Options{
		Kind: "stream", Workers: *workers, Batch: 64,
		OnResult: func(cl, rl []byte) {
			var r streamRes
			if json.Unmarshal(rl, &r) != nil {
				return
			}
			sum.Cases++
			sum.Evals += r.Evals
			sum.Oracle += r.Oracle
			var c streamCase
			json.Unmarshal(cl, &c)
			if len(c.EOF.Vals) > 0 || len(c.S) > 1 {
				sum.NonTrivial++
			}
			for k, v := range r.Kinds {
				sum.Kinds[k] += v
			}
			for i := range r.Bad {
				key := streamSig(&r.Bad[i])
				sum.BadBySig[key]++
				if sum.BadBySig[key] <= 4 && len(sum.Bad) < 300 {
					sum.Bad = append(sum.Bad, r.Bad[i])
				}
			}
			if len(sum.Samples) < 6 && sum.Cases%1499 == 1 {
				sum.Samples = append(sum.Samples, map[string]interface{}{"classes": c.S, "expect_eof": c.EOF, "expect_fault": c.FLT})
			}
		},
		OnCrash: func(c workpool.Crash) {
			st := c.Stderr
			if len(st) > 1500 {
				st = st[len(st)-1500:]
			}
			sum.Crashes = append(sum.Crashes, c.Reason+": "+string(c.Case)+"\n"+st)
		},
	}, cases)
	if err != nil || perr != nil {
		fmt.Fprintln(os.Stderr, "stream:", err, perr)
		return 2
	}
	sum.WallS = time.Since(t0).Seconds()
	b, _ := json.MarshalIndent(sum, "", " ")
	if *out != "" {
		os.WriteFile(*out, b, 0o644)
	} else {
		os.Stdout.Write(b)
	}
	return 0
}

var _ = bytes.NewReader

func init() {
	subcmds["stream"] = streamMain
	workpool.Register("stream", streamHandle)
}
