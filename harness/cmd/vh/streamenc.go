package main

// streamenc: replay of the StreamEnc cases (payload segments, newline on/off, Writer fault position,
// plain/indent path) against the real stream encoder (encoder half of property C17).

import (
	"bytes"
	"encoding/json"
	"errors"
	"flag"
	"fmt"
	"os"

	"github.com/bytedance/sonic"

	"verifharness/tlaval"
)

var errWriter = errors.New("verif: injected writer fault")

// failWriter accepts limit bytes in total and fails the call that would exceed it.
type failWriter struct {
	got   bytes.Buffer
	limit int // -1: never fails
	calls int
}

func (w *failWriter) Write(p []byte) (int, error) {
	w.calls++
	if w.limit < 0 {
		w.got.Write(p)
		return len(p), nil
	}
	room := w.limit - w.got.Len()
	if room >= len(p) {
		w.got.Write(p)
		return len(p), nil
	}
	if room < 0 {
		room = 0
	}
	w.got.Write(p[:room])
	return room, errWriter
}

type encBad struct {
	Kind  string `json:"kind"`
	Case  string `json:"case"`
	Value string `json:"value"`
	Want  string `json:"want"`
	Got   string `json:"got"`
	Sig   string `json:"sig"`
}

var encValues = []interface{}{
	1, "a", []int{1, 2, 3}, map[string]interface{}{"k": []interface{}{1, "x", nil, true}},
	struct {
		A string
		B []float64
	}{"hello <world>", []float64{1.5, 2.25}},
	string(bytes.Repeat([]byte("y"), 5000)), // larger than one pooled buffer segment
	[]string{"é", " ", "<&>"},
}

func streamencMain(args []string) int {
	fs := flag.NewFlagSet("streamenc", flag.ExitOnError)
	dump := fs.String("dump", "", "TLC dump of StreamEnc")
	out := fs.String("out", "", "summary")
	fs.Parse(args)
	f, err := os.Open(*dump)
	if err != nil {
		fmt.Fprintln(os.Stderr, err)
		return 2
	}
	defer f.Close()
	type sum struct {
		Cases   int            `json:"cases"`
		Evals   int            `json:"evals"`
		Bad     []encBad       `json:"bad"`
		Kinds   map[string]int `json:"kinds"`
		Samples []interface{}  `json:"samples"`
	}
	S := sum{Kinds: map[string]int{}}
	perr := tlaval.ReadStates(f, func(n int, hdr string, st tlaval.State) error {
		if tlaval.Str(st["pc"]) != "start" {
			return nil // only initial states are cases
		}
		L, nl, F, mode := tlaval.Int(st["L"]), tlaval.Bool(st["nl"]), tlaval.Int(st["F"]), tlaval.Str(st["mode"])
		want := tlaval.Rec(st["want"])
		wantDel, wantRet := tlaval.Int(want["delivered"]), tlaval.Str(want["ret"])
		S.Cases++
		if len(S.Samples) < 5 {
			S.Samples = append(S.Samples, map[string]interface{}{"L": L, "newline": nl, "F": F, "mode": mode, "want": tlaval.ToJSON(want)})
		}
		for vi, v := range encValues {
			for _, cfgName := range []string{"std", "default"} {
				cfg := sonic.Config{NoEncoderNewline: !nl}
				if cfgName == "std" {
					cfg = sonic.Config{EscapeHTML: true, SortMapKeys: true, CompactMarshaler: true, CopyString: true, ValidateString: true, NoEncoderNewline: !nl}
				}
				api := cfg.Froze()
				payload, merr := api.Marshal(v)
				if merr != nil {
					continue
				}
				if mode == "indent" {
					var ib bytes.Buffer
					if json.Indent(&ib, payload, ">", "  ") != nil {
						continue
					}
					payload = ib.Bytes()
				}
				full := append([]byte{}, payload...)
				if nl {
					full = append(full, '\n')
				}
				// segment boundary i of L maps to byte offset i*len/L; the newline is one more segment
				offset := func(seg int) int {
					if seg <= L {
						return seg * len(payload) / L
					}
					return len(full)
				}
				limit := -1
				if F < L+2 && !(F > L && !nl) {
					limit = offset(F)
				}
				wantBytes := full
				if wantRet == "werr" {
					wantBytes = full[:offset(wantDel)]
				}
				w := &failWriter{limit: limit}
				enc := api.NewEncoder(w)
				if mode == "indent" {
					enc.SetIndent(">", "  ")
				}
				var gerr error
				func() {
					defer func() {
						if r := recover(); r != nil {
							gerr = fmt.Errorf("panic: %v", r)
						}
					}()
					gerr = enc.Encode(v)
				}()
				S.Evals++
				gotRet := "ok"
				if gerr == errWriter {
					gotRet = "werr"
				} else if gerr != nil {
					gotRet = "other:" + gerr.Error()
				}
				kind := ""
				switch {
				case gotRet != wantRet && wantRet == "werr" && gotRet == "ok":
					kind = "writer_error_lost"
				case gotRet != wantRet:
					kind = "wrong_result"
				case !bytes.Equal(w.got.Bytes(), wantBytes):
					kind = "wrong_bytes"
				}
				if kind != "" {
					S.Kinds[kind]++
					where := "payload"
					if F == L && nl {
						where = "newline"
					}
					if len(S.Bad) < 40 {
						S.Bad = append(S.Bad, encBad{Kind: kind, Case: fmt.Sprintf("L=%d nl=%v F=%d mode=%s cfg=%s", L, nl, F, mode, cfgName),
							Value: fmt.Sprint(vi), Want: fmt.Sprintf("%s %q", wantRet, trunc(wantBytes)), Got: fmt.Sprintf("%s %q", gotRet, trunc(w.got.Bytes())),
							Sig: kind + "|" + mode + "|" + where})
					}
				}
			}
		}
		return nil
	})
	if perr != nil {
		fmt.Fprintln(os.Stderr, perr)
		return 2
	}
	b, _ := json.MarshalIndent(S, "", " ")
	if *out != "" {
		os.WriteFile(*out, b, 0o644)
	} else {
		os.Stdout.Write(b)
	}
	return 0
}

func trunc(b []byte) []byte {
	if len(b) > 60 {
		return append(append([]byte{}, b[:30]...), b[len(b)-30:]...)
	}
	return b
}

func init() { subcmds["streamenc"] = streamencMain }
