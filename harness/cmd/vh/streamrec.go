package main

// streamrec: seeded random driver that runs the real stream decoder (and encoding/json.Decoder,
// for oracle agreement) on long multi-value streams cut by random Reader plans around the
// 4096-byte buffer and its growth points, and records traces for spec/trace/TraceStream.tla.

import (
	"bufio"
	"encoding/json"
	"flag"
	"fmt"
	"io"
	"math/rand"
	"os"
	"reflect"
	"strings"

	"verifharness/conc"
)

type recEvent map[string]interface{}

func randString(r *rand.Rand, n int) string {
	var sb strings.Builder
	sb.WriteByte('"')
	for i := 0; i < n; i++ {
		switch r.Intn(40) {
		case 0:
			sb.WriteString(`\"`)
		case 1:
			sb.WriteString(`\\`)
		case 2:
			sb.WriteString(`\n`)
		case 3:
			sb.WriteString(`é`)
		case 4:
			sb.WriteString("é")
		case 5, 6:
			sb.WriteByte(' ')
		case 7:
			sb.WriteString("]}[{,:")
		default:
			sb.WriteByte(byte('a' + r.Intn(26)))
		}
	}
	sb.WriteByte('"')
	return sb.String()
}

var strLens = []int{0, 1, 5, 30, 31, 32, 33, 100, 1000, 4000, 4090, 4096, 4100, 8200, 9000}

func randValue(r *rand.Rand, depth int) string {
	switch k := r.Intn(10); {
	case k < 3:
		return fmt.Sprint(r.Intn(2000000) - 1000000)
	case k == 3:
		return fmt.Sprintf("%d.%de%d", r.Intn(100), r.Intn(1000), r.Intn(20)-10)
	case k == 4:
		return []string{"true", "false", "null"}[r.Intn(3)]
	case k < 7:
		n := strLens[r.Intn(len(strLens))]
		if r.Intn(3) > 0 {
			n = strLens[r.Intn(8)]
		}
		return randString(r, n)
	case k < 9 && depth < 3:
		n := r.Intn(5)
		parts := make([]string, n)
		for i := range parts {
			parts[i] = randValue(r, depth+1)
		}
		return "[" + strings.Join(parts, []string{",", ", ", " ,\n"}[r.Intn(3)]) + "]"
	case depth < 3:
		n := r.Intn(4)
		parts := make([]string, n)
		for i := range parts {
			parts[i] = randString(r, r.Intn(6)) + ":" + randValue(r, depth+1)
		}
		return "{" + strings.Join(parts, ",") + "}"
	}
	return fmt.Sprint(r.Intn(100))
}

func scalarEdge(c byte) bool {
	return c == '-' || c == '+' || c == '.' || (c >= '0' && c <= '9') || (c >= 'a' && c <= 'z') || (c >= 'A' && c <= 'Z')
}

func sep(r *rand.Rand) string {
	switch r.Intn(6) {
	case 0:
		return " "
	case 1:
		return "\n"
	case 2:
		return "\r\n\t "
	case 3:
		return strings.Repeat(" ", []int{15, 16, 17, 31, 32, 33, 64, 100, 4096}[r.Intn(9)])
	}
	return "\n"
}

type recCase struct {
	data []byte
	vals []interface{}
	endk string
}

func buildStream(r *rand.Rand) recCase {
	var sb strings.Builder
	var vals []interface{}
	n := r.Intn(12)
	if r.Intn(4) == 0 {
		n = 30 + r.Intn(200) // NDJSON-like run of small values
	}
	for i := 0; i < n; i++ {
		txt := randValue(r, 0)
		if n > 30 {
			txt = randValue(r, 2)
		}
		cur := sb.String()
		if len(cur) > 0 && (scalarEdge(cur[len(cur)-1]) && scalarEdge(txt[0]) || r.Intn(3) > 0) {
			sb.WriteString(sep(r))
		}
		var v interface{}
		if json.Unmarshal([]byte(txt), &v) != nil {
			continue
		}
		sb.WriteString(txt)
		vals = append(vals, v)
	}
	// tail
	cur := sb.String()
	switch r.Intn(7) {
	case 0: // truncated value
		t := randValue(r, 0)
		cut := 1 + r.Intn(len(t))
		if len(cur) > 0 && scalarEdge(cur[len(cur)-1]) {
			sb.WriteString(" ")
		}
		sb.WriteString(t[:cut])
		var v interface{}
		if json.Unmarshal([]byte(t[:cut]), &v) == nil {
			vals = append(vals, v)
		}
	case 1: // junk
		sb.WriteString(sep(r))
		sb.WriteString([]string{"x", "]", "}", ",", ":", "tru", "nul", "-", "1e", "\"abc", "[1,", "{\"a\"", "@"}[r.Intn(13)])
	case 2:
		sb.WriteString(sep(r))
	}
	endk := "EOF"
	if r.Intn(4) == 0 {
		endk = "FAULT"
	}
	return recCase{data: []byte(sb.String()), vals: vals, endk: endk}
}

func randCuts(r *rand.Rand, n int) []int {
	var cuts []int
	mode := r.Intn(6)
	pos := 0
	for pos < n {
		step := 1
		switch mode {
		case 0:
			step = 1
		case 1:
			step = 1 + r.Intn(3)
		case 2:
			step = []int{7, 64, 511, 4095, 4096, 4097}[r.Intn(6)]
		case 3:
			step = 1 + r.Intn(5000)
		case 4:
			step = n
		case 5:
			if r.Intn(2) == 0 {
				step = 1
			} else {
				step = 4096
			}
		}
		pos += step
		if pos > n {
			pos = n
		}
		cuts = append(cuts, pos)
	}
	return cuts
}

func recordOne(w *bufio.Writer, id int, who string, c *recCase, classes []string, d anyDecoder, rlog *[]readEv) {
	enc := func(e recEvent) {
		b, _ := json.Marshal(e)
		w.Write(b)
		w.WriteByte('\n')
	}
	enc(recEvent{"ev": "begin", "id": id, "who": who, "s": classes, "endk": c.endk})
	flushed := 0
	// all Reads between two Decode results are reported as one event (the specification does not
	// constrain when the decoder reads, only what it returns): total bytes, last end condition
	flushReads := func() {
		n, es := 0, "none"
		any := false
		for ; flushed < len(*rlog); flushed++ {
			e := (*rlog)[flushed]
			n += e.N
			if e.Err != "none" {
				es = map[string]string{"eof": "EOF", "fault": "FAULT"}[e.Err]
			}
			any = true
		}
		// the trace specification folds its validator over the delivered bytes recursively: keep
		// each event small (the end condition goes with the last piece)
		for any {
			k := n
			if k > 128 {
				k = 128
			}
			n -= k
			if n == 0 {
				enc(recEvent{"ev": "read", "n": k, "e": es})
				break
			}
			enc(recEvent{"ev": "read", "n": k, "e": "none"})
		}
	}
	k := 0
	terms := 0
	for calls := 0; calls < len(c.vals)+6 && terms < 3; calls++ {
		var v interface{}
		var err error
		func() {
			defer func() {
				if r := recover(); r != nil {
					err = fmt.Errorf("panic: %v", r)
				}
			}()
			err = d.Decode(&v)
		}()
		flushReads()
		if err == nil {
			if v == nil && !(k < len(c.vals) && c.vals[k] == nil) {
				enc(recEvent{"ev": "noop"})
				terms++
				continue
			}
			eq := k < len(c.vals) && reflect.DeepEqual(v, c.vals[k])
			enc(recEvent{"ev": "val", "eq": eq, "i": k + 1}) // i: which Decode result this is (a recording with one missing is then not a behaviour)
			k++
			continue
		}
		enc(recEvent{"ev": "term", "t": classifyErr(err)})
		terms++
	}
}

func streamrecMain(args []string) int {
	fs := flag.NewFlagSet("streamrec", flag.ExitOnError)
	out := fs.String("out", "trace.ndjson", "trace file")
	seed := fs.Int64("seed", 1, "seed")
	n := fs.Int("n", 100, "number of streams")
	maxBytes := fs.Int("maxbytes", 400000, "stop when this many stream bytes have been recorded")
	fs.Parse(args)
	f, err := os.Create(*out)
	if err != nil {
		fmt.Fprintln(os.Stderr, err)
		return 2
	}
	defer f.Close()
	w := bufio.NewWriterSize(f, 1<<20)
	defer w.Flush()
	r := rand.New(rand.NewSource(*seed))
	total := 0
	id := 0
	for i := 0; i < *n && total < *maxBytes; i++ {
		c := buildStream(r)
		classes := make([]string, len(c.data))
		for j, b := range c.data {
			classes[j] = conc.Classify(b)
		}
		cuts := randCuts(r, len(c.data))
		withLast, empties := r.Intn(2) == 0, r.Intn(4) == 0
		endErr := error(io.EOF)
		if c.endk == "FAULT" {
			endErr = errFault
		}
		for _, who := range []string{"std", "sonic-std", "sonic-default"} {
			var rlog []readEv
			rd := &planReader{data: c.data, cuts: cuts, end: endErr, withLast: withLast, empties: empties, log: &rlog}
			var d anyDecoder
			switch who {
			case "std":
				d = json.NewDecoder(rd)
			case "sonic-std":
				d = newSonicDecoder("std", rd)
			default:
				d = newSonicDecoder("default", rd)
			}
			id++
			recordOne(w, id, who, &c, classes, d, &rlog)
		}
		total += len(c.data)
	}
	fmt.Printf("{\"streams\":%d,\"traces\":%d,\"bytes\":%d}\n", id/3, id, total)
	return 0
}

func init() { subcmds["streamrec"] = streamrecMain }
