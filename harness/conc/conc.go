// Package conc turns byte-class strings of the JsonLex specification into concrete bytes.
package conc

import (
	"math/rand"
)

var single = map[string]string{
	"lb": "{", "rb": "}", "ls": "[", "rs": "]", "cm": ",", "cl": ":", "qt": "\"", "bs": "\\", "sl": "/",
	"d0": "0", "mi": "-", "pl": "+", "dt": ".", "le": "e", "ue": "E",
	"t": "t", "r": "r", "u": "u", "f": "f", "a": "a", "l": "l", "s": "s", "n": "n", "b": "b",
	"sp": " ", "nul": "\x00",
}

var multi = map[string][]string{
	"d1":  {"1", "2", "3", "4", "5", "6", "7", "8", "9"},
	"hx":  {"c", "d", "A", "B", "C", "D", "F"},
	"x":   {"g", "z", "G", "Z", "#", "$", "%", "'", "(", ")", "*", ";", "=", "?", "@", "^", "_", "`", "|", "~", "!", "T", "N", "w", "y"},
	"tb":  {"\t", "\n", "\r"},
	"ctl": {"\x01", "\x02", "\x07", "\x08", "\x0b", "\x0c", "\x0e", "\x1b", "\x1f"},
	"hi":  {"é", "中", "\U0001F600", "\u0080", "߿", "￿"}, // valid UTF-8 sequences (byte >= 0x80)
}

// Classify maps a concrete byte back to its class (inverse of Byte for single bytes).
func Classify(c byte) string {
	switch c {
	case '{':
		return "lb"
	case '}':
		return "rb"
	case '[':
		return "ls"
	case ']':
		return "rs"
	case ',':
		return "cm"
	case ':':
		return "cl"
	case '"':
		return "qt"
	case '\\':
		return "bs"
	case '/':
		return "sl"
	case '0':
		return "d0"
	case '-':
		return "mi"
	case '+':
		return "pl"
	case '.':
		return "dt"
	case 'e':
		return "le"
	case 'E':
		return "ue"
	case 't', 'r', 'u', 'f', 'a', 'l', 's', 'n', 'b':
		return string(c)
	case ' ':
		return "sp"
	case '\t', '\n', '\r':
		return "tb"
	case 0:
		return "nul"
	case 'c', 'd', 'A', 'B', 'C', 'D', 'F':
		return "hx"
	}
	if c >= '1' && c <= '9' {
		return "d1"
	}
	if c < 0x20 {
		return "ctl"
	}
	if c >= 0x80 {
		return "hi"
	}
	return "x"
}

// One returns one representative of class c.
func One(c string, r *rand.Rand) string {
	if s, ok := single[c]; ok {
		return s
	}
	m := multi[c]
	if len(m) == 0 {
		panic("conc: unknown class " + c)
	}
	if r == nil {
		return m[0]
	}
	return m[r.Intn(len(m))]
}

// stretchable classes: a run of the same class keeps the lexical position
// (blanks between tokens, string content, junk).
var stretchable = map[string]bool{"sp": true, "tb": true, "x": true, "hi": true}

var runLens = []int{1, 2, 3, 4, 7, 8, 15, 16, 17, 31, 32, 33, 47, 63, 64, 65, 70}

// Plan describes how a class string is concretised.
type Plan struct {
	Stretch bool // expand stretchable classes to runs
	Digits  bool // expand a d1 to 1..3 digits (stays inside the same number / string / junk position)
	Gaps    []int // positions (number of classes before them) where a run of blanks may be inserted
	Lead    int  // leading blanks
	Trail   int  // trailing blanks
}

// Concrete renders classes. Segments[i] is the [start,end) byte range of class i in the output.
func Concrete(classes []string, p Plan, r *rand.Rand) (out []byte, seg [][2]int) {
	for i := 0; i < p.Lead; i++ {
		out = append(out, blank(r))
	}
	seg = make([][2]int, len(classes))
	inExp := false
	gap := map[int]bool{}
	for _, g := range p.Gaps {
		gap[g] = true
	}
	for i, c := range classes {
		if gap[i] && p.Stretch && r != nil && r.Intn(3) == 0 {
			for k := runLens[r.Intn(len(runLens))]; k > 0; k-- {
				out = append(out, blank(r))
			}
		}
		st := len(out)
		n := 1
		if p.Stretch && stretchable[c] && r != nil && r.Intn(3) == 0 {
			n = runLens[r.Intn(len(runLens))]
		}
		for k := 0; k < n; k++ {
			out = append(out, One(c, r)...)
		}
		// digits of an exponent are never multiplied (numeric range is not what stretching is for)
		switch c {
		case "le", "ue":
			inExp = i > 0 && (classes[i-1] == "d0" || classes[i-1] == "d1")
		case "d0", "d1", "pl", "mi":
		default:
			inExp = false
		}
		if p.Digits && c == "d1" && r != nil && !inExp {
			for k := r.Intn(3); k > 0; k-- {
				out = append(out, byte('0'+r.Intn(10)))
			}
		}
		seg[i] = [2]int{st, len(out)}
	}
	for i := 0; i < p.Trail; i++ {
		out = append(out, blank(r))
	}
	return
}

func blank(r *rand.Rand) byte {
	if r == nil {
		return ' '
	}
	return " \t\n\r"[r.Intn(4)]
}

// PadLens are the blank-run lengths used for Lead/Trail (around SIMD block sizes).
var PadLens = []int{0, 1, 3, 4, 5, 15, 16, 17, 31, 32, 33, 63, 64, 65}
