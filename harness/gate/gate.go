// Package gate drives goroutines of the real library through a chosen interleaving.
//
// The library (built with -tags verif) calls the installed hook at its instrumentation points; for
// goroutines registered as actors the hook blocks until the scheduler releases them.  A schedule is
// a sequence of actor ids; executing one step means: let that actor run until it reaches its next
// instrumentation point or finishes (or is found blocked, e.g. on a mutex held by a paused actor).
package gate

import (
	"bytes"
	"runtime"
	"strconv"
	"sync"
	"time"

	"github.com/bytedance/sonic/verifhook"
)

type Event struct {
	Actor int
	Point string // "" = finished
}

type actor struct {
	id      int
	fn      func()
	resume  chan struct{}
	started bool
	atGate  bool
	done    bool
	last    string
}

type Engine struct {
	mu     sync.Mutex
	goids  map[int64]*actor
	actors map[int]*actor
	events chan Event
	free   bool // free-run: hooks return immediately
	Filter func(point string, a uintptr) bool
	Trace  []Event
	Wait   time.Duration
}

func goid() int64 {
	var buf [64]byte
	n := runtime.Stack(buf[:], false)
	// "goroutine 123 ["
	b := buf[:n]
	b = b[len("goroutine "):]
	i := bytes.IndexByte(b, ' ')
	id, _ := strconv.ParseInt(string(b[:i]), 10, 64)
	return id
}

func New() *Engine {
	e := &Engine{goids: map[int64]*actor{}, actors: map[int]*actor{}, events: make(chan Event, 64), Wait: 5 * time.Millisecond}
	verifhook.Set(e.hook)
	return e
}

func (e *Engine) Close() { verifhook.Set(nil) }

func (e *Engine) hook(point string, a uintptr) {
	e.mu.Lock()
	if e.free || (e.Filter != nil && !e.Filter(point, a)) {
		e.mu.Unlock()
		return
	}
	ac := e.goids[goid()]
	if ac == nil {
		e.mu.Unlock()
		return
	}
	ac.atGate = true
	ac.last = point
	e.mu.Unlock()
	e.events <- Event{ac.id, point}
	<-ac.resume
}

// Add registers an actor; it starts at its first Advance.
func (e *Engine) Add(id int, fn func()) {
	e.actors[id] = &actor{id: id, fn: fn, resume: make(chan struct{}, 1)}
}

// Advance lets the actor run to its next instrumentation point (or to completion).
// It returns the point reached, "" for finished, or "blocked" when nothing happened within Wait.
func (e *Engine) Advance(id int) string {
	ac := e.actors[id]
	if ac == nil || ac.done {
		return ""
	}
	e.mu.Lock()
	switch {
	case !ac.started:
		ac.started = true
		ready := make(chan struct{})
		go func() {
			e.mu.Lock()
			e.goids[goid()] = ac
			e.mu.Unlock()
			close(ready)
			ac.fn()
			e.mu.Lock()
			ac.done = true
			e.mu.Unlock()
			e.events <- Event{ac.id, ""}
		}()
		e.mu.Unlock()
		<-ready
	case ac.atGate:
		ac.atGate = false
		e.mu.Unlock()
		ac.resume <- struct{}{}
	default:
		e.mu.Unlock() // running or blocked: just wait for its next event
	}
	return e.await(id)
}

func (e *Engine) await(id int) string {
	timer := time.NewTimer(e.Wait)
	defer timer.Stop()
	for {
		select {
		case ev := <-e.events:
			e.Trace = append(e.Trace, ev)
			if ev.Actor == id {
				return ev.Point
			}
			// an event of another actor (it was blocked and got through): already recorded in its state
		case <-timer.C:
			return "blocked"
		}
	}
}

// Drain switches to free-run and waits for every started actor to finish; actors never started are
// started now. It reports false if some actor did not finish within the timeout (a hang).
func (e *Engine) Drain(timeout time.Duration) bool {
	e.mu.Lock()
	e.free = true
	var toResume []*actor
	for _, ac := range e.actors {
		if ac.started && ac.atGate && !ac.done {
			ac.atGate = false
			toResume = append(toResume, ac)
		}
	}
	e.mu.Unlock()
	for _, ac := range toResume {
		ac.resume <- struct{}{}
	}
	for _, ac := range e.actors {
		if !ac.started {
			ac.started = true
			a := ac
			go func() {
				a.fn()
				e.mu.Lock()
				a.done = true
				e.mu.Unlock()
				e.events <- Event{a.id, ""}
			}()
		}
	}
	deadline := time.After(timeout)
	for {
		e.mu.Lock()
		all := true
		for _, ac := range e.actors {
			if !ac.done {
				all = false
			}
		}
		e.mu.Unlock()
		if all {
			return true
		}
		select {
		case ev := <-e.events:
			e.Trace = append(e.Trace, ev)
		case <-deadline:
			return false
		}
	}
}
