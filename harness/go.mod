module verifharness

go 1.20

require (
	github.com/bytedance/sonic v0.0.0
	github.com/bytedance/sonic/loader v0.5.1
)

require (
	github.com/bytedance/gopkg v0.1.3 // indirect
	github.com/cloudwego/base64x v0.1.6 // indirect
	github.com/klauspost/cpuid/v2 v2.2.9 // indirect
	github.com/twitchyliquid64/golang-asm v0.15.1 // indirect
	golang.org/x/arch v0.0.0-20210923205945-b76863e36670 // indirect
)

replace github.com/bytedance/sonic => /repo

replace github.com/bytedance/sonic/loader => /repo/loader
