// Package tlaval parses TLC's textual state output (the format of `-dump`, of `-simulate file=`
// and of error traces) into plain Go values:
//
//	TLA+ string      -> string
//	integer          -> int
//	TRUE/FALSE       -> bool
//	<<a, b>>         -> []interface{}
//	{a, b}           -> Set (a []interface{} wrapper)
//	[k |-> v]        -> map[string]interface{}
//	(k :> v @@ ...)  -> Fn (list of pairs); functions with domain 1..n print as tuples already
//	model value      -> Ident
package tlaval

import (
	"bufio"
	"fmt"
	"io"
	"strconv"
	"strings"
)

type Set []interface{}
type Ident string
type Pair struct{ K, V interface{} }
type Fn []Pair

// State is one TLC state: variable name -> value.
type State map[string]interface{}

type parser struct {
	s string
	i int
}

func (p *parser) ws() {
	for p.i < len(p.s) {
		c := p.s[p.i]
		if c == ' ' || c == '\n' || c == '\t' || c == '\r' {
			p.i++
		} else {
			break
		}
	}
}

func (p *parser) errf(f string, a ...interface{}) error {
	lo := p.i - 30
	if lo < 0 {
		lo = 0
	}
	hi := p.i + 30
	if hi > len(p.s) {
		hi = len(p.s)
	}
	return fmt.Errorf("tlaval: %s at %d near %q", fmt.Sprintf(f, a...), p.i, p.s[lo:hi])
}

func (p *parser) has(tok string) bool {
	p.ws()
	return strings.HasPrefix(p.s[p.i:], tok)
}

func (p *parser) eat(tok string) bool {
	if p.has(tok) {
		p.i += len(tok)
		return true
	}
	return false
}

func isIdent(c byte) bool {
	return c == '_' || (c >= 'a' && c <= 'z') || (c >= 'A' && c <= 'Z') || (c >= '0' && c <= '9')
}

func (p *parser) ident() string {
	p.ws()
	j := p.i
	for j < len(p.s) && isIdent(p.s[j]) {
		j++
	}
	id := p.s[p.i:j]
	p.i = j
	return id
}

func (p *parser) list(closer string) ([]interface{}, error) {
	out := []interface{}{}
	if p.eat(closer) {
		return out, nil
	}
	for {
		v, err := p.value()
		if err != nil {
			return nil, err
		}
		out = append(out, v)
		if p.eat(",") {
			continue
		}
		if p.eat(closer) {
			return out, nil
		}
		return nil, p.errf("expected , or %s", closer)
	}
}

func (p *parser) value() (interface{}, error) {
	p.ws()
	if p.i >= len(p.s) {
		return nil, p.errf("unexpected end")
	}
	c := p.s[p.i]
	switch {
	case c == '"':
		j := p.i + 1
		var sb strings.Builder
		for j < len(p.s) && p.s[j] != '"' {
			if p.s[j] == '\\' && j+1 < len(p.s) {
				j++
				switch p.s[j] {
				case 'n':
					sb.WriteByte('\n')
				case 't':
					sb.WriteByte('\t')
				default:
					sb.WriteByte(p.s[j])
				}
			} else {
				sb.WriteByte(p.s[j])
			}
			j++
		}
		if j >= len(p.s) {
			return nil, p.errf("unterminated string")
		}
		p.i = j + 1
		return sb.String(), nil
	case strings.HasPrefix(p.s[p.i:], "<<"):
		p.i += 2
		return p.list(">>")
	case c == '{':
		p.i++
		l, err := p.list("}")
		return Set(l), err
	case c == '[':
		p.i++
		m := map[string]interface{}{}
		if p.eat("]") {
			return m, nil
		}
		for {
			k := p.ident()
			if k == "" {
				return nil, p.errf("expected field name")
			}
			if !p.eat("|->") {
				return nil, p.errf("expected |->")
			}
			v, err := p.value()
			if err != nil {
				return nil, err
			}
			m[k] = v
			if p.eat(",") {
				continue
			}
			if p.eat("]") {
				return m, nil
			}
			return nil, p.errf("expected , or ]")
		}
	case c == '(':
		p.i++
		fn := Fn{}
		for {
			k, err := p.value()
			if err != nil {
				return nil, err
			}
			if !p.eat(":>") {
				return nil, p.errf("expected :>")
			}
			v, err := p.value()
			if err != nil {
				return nil, err
			}
			fn = append(fn, Pair{k, v})
			if p.eat("@@") {
				continue
			}
			if p.eat(")") {
				return fn, nil
			}
			return nil, p.errf("expected @@ or )")
		}
	case c == '-' || (c >= '0' && c <= '9'):
		j := p.i + 1
		for j < len(p.s) && p.s[j] >= '0' && p.s[j] <= '9' {
			j++
		}
		n, err := strconv.Atoi(p.s[p.i:j])
		if err != nil {
			return nil, p.errf("bad int")
		}
		p.i = j
		return n, nil
	default:
		id := p.ident()
		switch id {
		case "TRUE":
			return true, nil
		case "FALSE":
			return false, nil
		case "":
			return nil, p.errf("unexpected character %q", c)
		}
		return Ident(id), nil
	}
}

// ParseValue parses one TLA+ value.
func ParseValue(s string) (interface{}, error) {
	p := &parser{s: s}
	v, err := p.value()
	if err != nil {
		return nil, err
	}
	p.ws()
	if p.i != len(p.s) {
		return nil, p.errf("trailing text")
	}
	return v, nil
}

// ParseState parses a conjunction `/\ x = v /\ y = w` (or a single `x = v`).
func ParseState(s string) (State, error) {
	p := &parser{s: s}
	st := State{}
	for {
		p.ws()
		if p.i >= len(p.s) {
			return st, nil
		}
		p.eat("/\\")
		name := p.ident()
		if name == "" {
			return nil, p.errf("expected variable name")
		}
		if !p.eat("=") {
			return nil, p.errf("expected =")
		}
		v, err := p.value()
		if err != nil {
			return nil, err
		}
		st[name] = v
	}
}

// ReadStates streams the states of a TLC dump / simulation / trace file to f.
// It recognises `State N:` (dump), `STATE_N ==` (simulate) and `State N: <action ...>` (trace) headers.
func ReadStates(r io.Reader, f func(n int, header string, st State) error) error {
	sc := bufio.NewScanner(r)
	sc.Buffer(make([]byte, 1<<20), 1<<28)
	var cur strings.Builder
	header := ""
	n := 0
	inState := false
	flush := func() error {
		if !inState {
			return nil
		}
		inState = false
		txt := cur.String()
		cur.Reset()
		if strings.TrimSpace(txt) == "" {
			return nil
		}
		st, err := ParseState(txt)
		if err != nil {
			return fmt.Errorf("state %d: %v", n, err)
		}
		return f(n, header, st)
	}
	for sc.Scan() {
		line := sc.Text()
		t := strings.TrimSpace(line)
		if strings.HasPrefix(t, "State ") && strings.Contains(t, ":") || strings.HasPrefix(t, "STATE_") && strings.HasSuffix(t, "==") {
			if err := flush(); err != nil {
				return err
			}
			n++
			header = t
			inState = true
			continue
		}
		if t == "" {
			if err := flush(); err != nil {
				return err
			}
			continue
		}
		if inState {
			cur.WriteString(line)
			cur.WriteByte('\n')
		}
	}
	if err := flush(); err != nil {
		return err
	}
	return sc.Err()
}

// ---- helpers for consumers ----

func Str(v interface{}) string {
	switch x := v.(type) {
	case string:
		return x
	case Ident:
		return string(x)
	}
	return fmt.Sprint(v)
}

func Int(v interface{}) int {
	if n, ok := v.(int); ok {
		return n
	}
	return 0
}

func Bool(v interface{}) bool {
	b, _ := v.(bool)
	return b
}

func Seq(v interface{}) []interface{} {
	switch x := v.(type) {
	case []interface{}:
		return x
	case Set:
		return []interface{}(x)
	case Fn: // function with domain 1..n printed in :> form (rare)
		out := make([]interface{}, len(x))
		for _, p := range x {
			if k, ok := p.K.(int); ok && k >= 1 && k <= len(x) {
				out[k-1] = p.V
			}
		}
		return out
	}
	return nil
}

func Rec(v interface{}) map[string]interface{} {
	m, _ := v.(map[string]interface{})
	return m
}

// ToJSON converts a parsed value into something encoding/json can marshal
// (sets as {"$set": [...]}, functions as {"$fn": [[k,v]...]}).
func ToJSON(v interface{}) interface{} {
	switch x := v.(type) {
	case []interface{}:
		out := make([]interface{}, len(x))
		for i := range x {
			out[i] = ToJSON(x[i])
		}
		return out
	case Set:
		out := make([]interface{}, len(x))
		for i := range x {
			out[i] = ToJSON(x[i])
		}
		return map[string]interface{}{"$set": out}
	case Fn:
		out := make([]interface{}, len(x))
		for i := range x {
			out[i] = []interface{}{ToJSON(x[i].K), ToJSON(x[i].V)}
		}
		return map[string]interface{}{"$fn": out}
	case map[string]interface{}:
		out := map[string]interface{}{}
		for k, e := range x {
			out[k] = ToJSON(e)
		}
		return out
	case State:
		out := map[string]interface{}{}
		for k, e := range x {
			out[k] = ToJSON(e)
		}
		return out
	case Ident:
		return string(x)
	}
	return v
}
