// Package workpool runs case handlers in child processes under a watchdog.
//
// The parent re-executes its own binary as `vh worker <kind>`; cases go to the child as ndjson
// lines in batches, results come back one line per case, in order.  A child that crashes, exits,
// or stalls is killed; the first case of the batch without a result is the suspect: it is re-run
// alone in a fresh child to confirm, reported through OnCrash, and the rest of the batch continues
// in a new child.  This is what turns SIGSEGV / fatal error / infinite loop into a reportable case
// instead of a dead driver.
package workpool

import (
	"bufio"
	"bytes"
	"encoding/json"
	"fmt"
	"io"
	"os"
	"os/exec"
	"sync"
	"sync/atomic"
	"time"
)

// Handler processes one case line and returns one result line (no newlines inside).
type Handler func(in []byte) []byte

var handlers = map[string]Handler{}

func Register(kind string, h Handler) { handlers[kind] = h }

// WorkerMain is the child side: `vh worker <kind>`.
func WorkerMain(kind string) int {
	h, ok := handlers[kind]
	if !ok {
		fmt.Fprintln(os.Stderr, "unknown worker kind", kind)
		return 2
	}
	in := bufio.NewReaderSize(os.Stdin, 1<<20)
	out := bufio.NewWriterSize(os.Stdout, 1<<20)
	for {
		line, err := in.ReadBytes('\n')
		if len(bytes.TrimSpace(line)) > 0 {
			if bytes.Equal(bytes.TrimSpace(line), []byte("FLUSH")) {
				out.Flush()
			} else {
				res := h(bytes.TrimSpace(line))
				out.Write(res)
				out.WriteByte('\n')
			}
		}
		if err != nil {
			out.Flush()
			return 0
		}
	}
}

type Crash struct {
	Case   []byte
	Stderr string
	Reason string // "crash" | "timeout"
}

type Options struct {
	Kind        string
	Env         []string // extra environment for the children (KEY=VALUE)
	Workers     int
	Batch       int           // cases per round trip
	CaseTimeout time.Duration // the child is killed when no result arrives for 10 x CaseTimeout (min 20 s)
	OnResult    func(caseLine, result []byte)
	OnCrash     func(c Crash)
}

type child struct {
	cmd    *exec.Cmd
	in     io.WriteCloser
	out    *bufio.Reader
	stderr *tailBuf
}

type tailBuf struct {
	mu  sync.Mutex
	buf []byte
}

func (t *tailBuf) Write(p []byte) (int, error) {
	t.mu.Lock()
	t.buf = append(t.buf, p...)
	if len(t.buf) > 1<<16 {
		t.buf = t.buf[len(t.buf)-(1<<16):]
	}
	t.mu.Unlock()
	return len(p), nil
}
func (t *tailBuf) String() string { t.mu.Lock(); defer t.mu.Unlock(); return string(t.buf) }

func start(o *Options) (*child, error) {
	cmd := exec.Command(os.Args[0], "worker", o.Kind)
	cmd.Env = append(os.Environ(), o.Env...)
	in, err := cmd.StdinPipe()
	if err != nil {
		return nil, err
	}
	outp, err := cmd.StdoutPipe()
	if err != nil {
		return nil, err
	}
	tb := &tailBuf{}
	cmd.Stderr = tb
	if err := cmd.Start(); err != nil {
		return nil, err
	}
	return &child{cmd: cmd, in: in, out: bufio.NewReaderSize(outp, 1<<20), stderr: tb}, nil
}

func (c *child) kill() {
	if c == nil {
		return
	}
	c.in.Close()
	c.cmd.Process.Kill()
	c.cmd.Wait()
}

// runBatch sends the batch, returns the number of results received (== len(batch) on success).
func runBatch(c *child, o *Options, batch [][]byte) (got int, reason string) {
	var w bytes.Buffer
	for _, b := range batch {
		w.Write(b)
		w.WriteByte('\n')
	}
	w.WriteString("FLUSH\n")
	done := make(chan struct{})
	// progress watchdog: the child is killed when no result arrives for this long (a hang then costs one limit, not the whole
	// batch's allowance); the first result of a fresh child gets extra time for start-up and compilation
	limit := o.CaseTimeout * 10
	if limit < 20*time.Second {
		limit = 20 * time.Second
	}
	var timedOut int32
	timer := time.AfterFunc(limit+20*time.Second, func() {
		atomic.StoreInt32(&timedOut, 1)
		c.cmd.Process.Kill()
	})
	go func() {
		c.in.Write(w.Bytes())
		close(done)
	}()
	for got < len(batch) {
		line, err := c.out.ReadBytes('\n')
		if err != nil {
			timer.Stop()
			if atomic.LoadInt32(&timedOut) == 1 {
				return got, "timeout"
			}
			return got, "crash"
		}
		timer.Reset(limit)
		if res := bytes.TrimSpace(line); len(res) == 0 || !json.Valid(res) {
			// a handler that returns nothing has lost its case (a panic recovered without producing a result):
			// never dropped silently - reported like a crash of that case
			o.OnCrash(Crash{Case: batch[got], Stderr: string(res), Reason: "no-result (the handler produced no result for this case: a panic it swallowed)"})
		} else {
			o.OnResult(batch[got], bytes.TrimRight(line, "\n"))
		}
		got++
	}
	timer.Stop()
	<-done
	return got, ""
}

// Run feeds all cases through the pool.
func Run(o Options, cases <-chan []byte) error {
	if o.Workers <= 0 {
		o.Workers = 4
	}
	if o.Batch <= 0 {
		o.Batch = 64
	}
	if o.CaseTimeout == 0 {
		o.CaseTimeout = 5 * time.Second
	}
	var mu sync.Mutex
	userRes, userCrash := o.OnResult, o.OnCrash
	o.OnResult = func(c, r []byte) { mu.Lock(); userRes(c, r); mu.Unlock() }
	o.OnCrash = func(c Crash) { mu.Lock(); userCrash(c); mu.Unlock() }

	batches := make(chan [][]byte, o.Workers*2)
	go func() {
		var cur [][]byte
		for c := range cases {
			cur = append(cur, c)
			if len(cur) >= o.Batch {
				batches <- cur
				cur = nil
			}
		}
		if len(cur) > 0 {
			batches <- cur
		}
		close(batches)
	}()

	var wg sync.WaitGroup
	var firstErr error
	var nTimeouts, nConfirmed, nSkipped int32
	const maxTimeouts = 24
	defer func() {
		if n := atomic.LoadInt32(&nSkipped); n > 0 {
			userCrash(Crash{Reason: fmt.Sprintf("unconfirmed-aborted: %d cases not run after %d time-outs", n, atomic.LoadInt32(&nTimeouts))})
		}
	}()
	for w := 0; w < o.Workers; w++ {
		wg.Add(1)
		go func() {
			defer wg.Done()
			var c *child
			defer func() { c.kill() }()
			for batch := range batches {
				for len(batch) > 0 {
					if c == nil {
						var err error
						if c, err = start(&o); err != nil {
							mu.Lock()
							firstErr = err
							mu.Unlock()
							return
						}
					}
					if atomic.LoadInt32(&nTimeouts) >= maxTimeouts {
						// enough hangs have been established: the rest of the universe is not run (each further hang would
						// cost a watchdog period); the caller sees the confirmed ones and the count of skipped cases
						atomic.AddInt32(&nSkipped, int32(len(batch)))
						break
					}
					got, reason := runBatch(c, &o, batch)
					if reason == "" {
						break
					}
					if reason == "timeout" {
						atomic.AddInt32(&nTimeouts, 1)
					}
					// batch[got] is the suspect; confirm it alone in a fresh child
					st := c.stderr.String()
					c.kill()
					c = nil
					suspect := batch[got]
					batch = batch[got+1:]
					if reason == "timeout" && atomic.LoadInt32(&nConfirmed) >= 4 {
						o.OnCrash(Crash{Case: suspect, Stderr: st, Reason: "unconfirmed-timeout (four hangs already confirmed alone; not re-run)"})
						continue
					}
					cc, err := start(&o)
					if err == nil {
						// alone, with a generous limit: a time-out is a verdict only if the case also hangs by itself
						oc := o
						if oc.CaseTimeout < 6*time.Second {
							oc.CaseTimeout = 6 * time.Second // x10 = one minute without a result
						}
						g2, r2 := runBatch(cc, &oc, [][]byte{suspect})
						if r2 != "" && g2 == 0 {
							if r2 == "timeout" {
								atomic.AddInt32(&nConfirmed, 1)
							}
							o.OnCrash(Crash{Case: suspect, Stderr: cc.stderr.String(), Reason: r2})
						} else if r2 == "" {
							// not reproducible alone: report with the original stderr as unconfirmed
							o.OnCrash(Crash{Case: suspect, Stderr: st, Reason: "unconfirmed-" + reason})
						}
						cc.kill()
					}
				}
			}
		}()
	}
	wg.Wait()
	return firstErr
}
