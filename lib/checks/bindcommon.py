"""Shared driver for the binding universe (spec/Bind.tla, spec/GenBind.tla): C01, C11, C18, C07."""
import json
import os

from .. import vf


def gen(ctx, plan, module="GenBind", cfg="mc/GenBind.cfg", extra_defines=None):
    """plan: list of (fam, part, nparts).  Runs TLC once per entry (in parallel), returns list of results."""
    jobs = []
    for fam, part, nparts in plan:
        d = {"FAM": fam, "PART": part, "NPARTS": nparts}
        d.update(extra_defines or {})
        jobs.append(lambda fam=fam, part=part, nparts=nparts, d=d: vf.tlc(
            ctx, module, cfg, name="%s-%s-%d" % (module.lower(), fam, part), dump="states", defines=d, timeout=7200, workers=2))
    rs = vf.parallel(jobs, nthreads=min(len(jobs), 14))
    for r in rs:
        if not r["ok"]:
            raise vf.Inconclusive("%s violates %s" % (module, r["violated"]))
    return rs


def replay(ctx, rs, kind="bind", envs=(None,), name="bind", extra=()):
    sums = []
    dumps = ",".join(r["dump"] for r in rs)
    for env in envs:
        tag = (env or "default").replace("=", "").replace(",", "_")
        sfile = os.path.join(ctx.work, "%s-%s.json" % (name, tag))
        dfile = sfile[:-5] + ".dg"
        args = [kind, "-dump", dumps, "-out", sfile, "-seed", ctx.seed, "-digests", dfile] + list(extra)
        if env:
            args += ["-env", env]
        vf.vh(ctx, args, timeout=7200)
        s = json.load(open(sfile))
        s["env"], s["digests"] = env, dfile
        sums.append(s)
    return sums


FAM_PARTS = {"bounds": 1, "ifptr": 1, "leaf": 1, "wrap1": 8, "st1": 16, "st1l": 2, "st1w": 14, "st2": 4, "emb": 1, "opts": 1, "mapkeys": 1, "bigst": 1, "rec": 1, "deepst": 1, "wrap2": 32}


def plan_for(ctx, fams):
    """quick: one seed-rotated slice of every family; thorough: every slice."""
    plan = []
    for fam in fams:
        n = FAM_PARTS[fam]
        if ctx.quick:
            q = {"bounds": 1, "ifptr": 1, "leaf": 1, "wrap1": 8, "st1": 32, "st1l": 1, "st1w": 32, "st2": 8, "emb": 1, "opts": 1, "mapkeys": 1, "bigst": 1, "rec": 1, "deepst": 1, "wrap2": 64}[fam]
            plan.append((fam, int(ctx.seed) % q, q))
        else:
            plan += [(fam, p, n) for p in range(n)]
    return plan


def run_rounds(ctx, plan, kind="bind", envs=(None,), module="GenBind", cfg="mc/GenBind.cfg", per_round=14, extra=()):
    """Generate and replay in rounds (bounded disk use).  Returns (tlc results, list of summaries per env per round)."""
    all_rs, all_sums = [], []
    for i in range(0, len(plan), per_round):
        rs = gen(ctx, plan[i:i + per_round], module=module, cfg=cfg)
        sums = replay(ctx, rs, kind=kind, envs=envs, name="%s-r%d" % (kind, i // per_round), extra=extra)
        for r in rs:
            os.remove(r["dump"])
            r.pop("out", None)
        all_rs += rs
        all_sums += sums
    return all_rs, all_sums


def judge(ctx, sums, what="binding"):
    known = vf.load_known(ctx.prop)
    for s in sums:
        for c in s.get("crashes") or []:
            if c.startswith("unconfirmed"):
                ctx.notes.append(c[:300])
            else:
                vf.violation(ctx, "%s worker died: %s" % (what, c[:200]), {"kind": "crash", "detail": c[:3000], "env": s.get("env")})
        for b in s.get("bad") or []:
            b = dict(b)
            b["env"] = s.get("env")
            n = (s.get("bad_by_sig") or {}).get(b.get("sig"), 1)
            fid = vf.match_known(known, b)
            if fid:
                ctx.known_hits[fid] = ctx.known_hits.get(fid, 0) + n
            else:
                vf.violation(ctx, "%s %s: %s <- %s (%s, prior %s): want %s, got %s" % (
                    what, b.get("kind"), b.get("type"), b.get("text"), b.get("opts"), b.get("old"), b.get("want"), (b.get("got") or "")[:200]), b)


def total(sums, key):
    return sum(int(s.get(key) or 0) for s in sums)


def check_oracle(ctx, sums):
    cases, dis = total(sums, "cases"), total(sums, "oracle_disagreements")
    if dis > max(20, cases // 200):
        ex = []
        for s in sums:
            ex += (s.get("oracle_examples") or [])[:3]
        raise vf.Inconclusive("the specification and encoding/json disagree on %d of %d cases (spec or harness error): %s" % (
            dis, cases, json.dumps(ex[:3])[:1500]))
    return dis
