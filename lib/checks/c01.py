"""C01 - Unmarshal agrees with encoding/json on accept/reject and on the decoded value.

Specification: spec/Bind.tla - the binding contract Dec(T, J, old, opts) written rule by rule
(null handling per kind, integer / unsigned / float range per width, json.Number, RawMessage,
Unmarshaler / TextUnmarshaler dispatch, pointers, slices decoded over prior elements, fixed arrays
with surplus / missing elements, maps with string / integer / TextUnmarshaler keys and duplicate
keys, struct field selection with tags, `,string`, embedding with encoding/json's dominance rule,
case-insensitive fallback, duplicate keys, interface{} with UseNumber / UseInt64), with the one
tolerated leniency (skipped values checked for structure only) as the `soft` component of the
result.  spec/GenBind.tla enumerates the bounded universe: every type of its families, the
document that matches it and every single-point perturbation, zero and pre-populated
destinations, both stock configurations and the number options; TLC computes the required result
for every case and checks the contract total.

Binding: every case is replayed on the real decoder: the type is built with reflect (each distinct
type is a freshly generated decoder program), the document rendered in two spellings, and decoded
by encoding/json and by sonic (Unmarshal and UnmarshalFromString of the frozen Config).  A case
gives a verdict only when specification and encoding/json agree; then sonic must report an error
exactly when required and leave a deeply equal destination.
"""
from .. import vf
from . import bindcommon

FAMS = ("bounds", "ifptr", "leaf", "mapkeys", "bigst", "rec", "deepst", "wrap1", "st1l", "st1w", "st2", "emb", "wrap2")


def check(ctx):
    vf.build_harness(ctx)
    plan = bindcommon.plan_for(ctx, FAMS)
    rs, sums = bindcommon.run_rounds(ctx, plan)
    dis = bindcommon.check_oracle(ctx, sums)
    bindcommon.judge(ctx, sums, "Unmarshal")
    t = lambda k: bindcommon.total(sums, k)
    samples = []
    for s in sums:
        samples += (s.get("samples") or [])[:2]
    cov = {
        "states": sum(r["distinct"] for r in rs),
        "transitions": sum(r["generated"] for r in rs),
        "traces_validated_against_impl": t("cases"),
        "evaluations": t("evals") * 3,
        "distinct_nontrivial": t("cases"),
        "programs": t("programs"),
        "rule": "case = (type, document, prior destination, configuration) = one initial state of GenBind; every case decodes a "
                "document into a typed destination with three decoders (encoding/json, sonic Unmarshal, sonic UnmarshalFromString) "
                "in two spellings, so all are non-trivial; programs = distinct reflect-built types (one generated decoder each, summed "
                "over worker processes)",
        "samples": samples[:5],
        "exhaustive": not ctx.quick,
        "families": sorted(set(p[0] for p in plan)),
        "slices": ["%s %d/%d" % p for p in plan] if ctx.quick else "all",
        "oracle_disagreements": dis,
        "tolerated_either_way": t("soft_cases"),
        "bad_by_sig": sum(len(s.get("bad_by_sig") or {}) for s in sums),
        "model_check": [{"cfg": r["name"], "distinct": r["distinct"], "wall_s": r["wall_s"]} for r in rs][:80],
    }
    return vf.finish(ctx, "model_checking", cov, assumptions=[
        "types are bounded: wrapper depth <= 2 over 20 leaf kinds, structs of <= 2 fields plus one level of embedding; documents are the "
        "matching shape and its single-point perturbations (not all documents)",
        "numbers and strings are classes with one representative literal each on the boundaries named in spec/Bind.tla; the digits "
        "themselves are C19's subject",
        "under ConfigDefault documents with raw control characters or invalid UTF-8 in strings are not generated (the statement excludes them)",
        "quick tier: one seed-rotated slice of each family (the slices of all seeds together are the thorough universe)",
    ])
