"""C02 - no structurally malformed JSON accepted, no valid JSON rejected.

spec/JsonLex.tla (byte-class pushdown validator, strict and structural string modes) is
model-checked through spec/GenLex.tla (PDA = declarative grammar, strict within structural,
depth overflow is its own state) and the same TLC run dumps every reachable string with the
verdict the property requires; the Go harness replays each string, concretised several ways,
through every JSON-consuming API of the real library.
"""
import json
import os

from .. import vf
from . import lexcommon


def check(ctx):
    cfgs = lexcommon.configs(ctx)
    summ = lexcommon.run_lex(ctx, cfgs, envs=[None])
    return lexcommon.finish(ctx, summ, "model_checking")
