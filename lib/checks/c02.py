"""C02 - no structurally malformed JSON accepted, no valid JSON rejected.

spec/JsonLex.tla (byte-class pushdown validator, strict and structural string modes) is
model-checked through spec/GenLex.tla (PDA = declarative grammar, strict within structural,
depth overflow is its own state) and the same TLC run dumps every reachable string with the
verdict the property requires; the Go harness replays each string, concretised several ways,
through every JSON-consuming API of the real library.

Typed destinations ("Unmarshal into any type"): every proper prefix of the well-formed documents of
the binding universe (spec/GenBind.tla) decoded into the document's own typed destination must be
rejected - GenLex's invariant PrefixFree (a document that opens with a container or a string and
does not end in a blank has no proper prefix that is a document) is what makes every truncation
malformed; encoding/json.Valid must agree on each prefix.
"""
import json
import os

from .. import vf
from . import lexcommon, bindcommon


def check(ctx):
    cfgs = lexcommon.configs(ctx)
    summ = lexcommon.run_lex(ctx, cfgs, envs=[None])
    typed = typed_prefixes(ctx)
    sweep = byte_sweep(ctx)
    return lexcommon.finish(ctx, summ, "model_checking", extra_cov={"typed_prefixes": typed, "byte_sweep": sweep})


def byte_sweep(ctx):
    """GenLex's Recover mode over all 256 byte values: every byte inserted at every gap between tokens after 0..5 blanks, decoded
    into typed destinations (struct framing, slices, maps, RawMessage capture), interface{} and Valid; accepted exactly when
    encoding/json accepts."""
    known = vf.load_known(ctx.prop)
    sfile = os.path.join(ctx.work, "lexsweep.json")
    vf.vh(ctx, ["lexsweep", "-out", sfile, "-seed", ctx.seed], timeout=3000)
    s = json.load(open(sfile))
    recs = {}
    for b in s.get("bad") or []:
        recs.setdefault(b["sig"], b)
    for sig, n in (s.get("bad_by_sig") or {}).items():
        b = dict(recs.get(sig) or {"sig": sig})
        fid = vf.match_known(known, b)
        if fid:
            ctx.known_hits[fid] = ctx.known_hits.get(fid, 0) + n
        else:
            vf.violation(ctx, "%s: %s with the byte 0x%02x inserted after %s blank(s): %r (%d such cases)" % (
                b.get("api"), b.get("kind"), b.get("byte", 0), b.get("lead"), (b.get("text") or "")[:120], n), b)
    return {k: s[k] for k in ("cases", "evals", "gaps", "valid_variants", "wall_s")}


def typed_prefixes(ctx):
    known = vf.load_known(ctx.prop)
    if ctx.quick:
        fams = ("leaf", "st1", "st1l", "emb", "opts", "mapkeys", "wrap1", "st2")
        plan = [(f, (int(ctx.seed) + 1) % bindcommon.FAM_PARTS[f], bindcommon.FAM_PARTS[f]) for f in fams]
        stride = 2
    else:
        plan = sorted(set((f, (int(ctx.seed) + k * 3) % n, n) for f, n in bindcommon.FAM_PARTS.items() for k in range(min(n, 6))))
        stride = 1
    rs = bindcommon.gen(ctx, plan)
    sfile = os.path.join(ctx.work, "typedpfx.json")
    vf.vh(ctx, ["bind", "-prefixes", "-dump", ",".join(r["dump"] for r in rs), "-out", sfile, "-seed", ctx.seed, "-stride", stride], timeout=7200)
    for r in rs:
        os.remove(r["dump"])
    s = json.load(open(sfile))
    for c in s.get("crashes") or []:
        if c.startswith("unconfirmed"):
            ctx.notes.append(c[:300])
        else:
            vf.violation(ctx, "typed prefix worker died: " + c[:200], {"kind": "crash", "detail": c[:3000]})
    seen = {}
    for b in s.get("bad") or []:
        if not b["kind"].startswith("malformed_accepted"):
            continue            # faults belong to C05
        rec = dict(b)
        if b["kind"].endswith("ge32"):
            rec["kind"], rec["sig"] = "malformed_accepted", {"st": "run", "lx": "str", "tail": "ge32"}
        fid = vf.match_known(known, rec)
        if fid:
            ctx.known_hits[fid] = ctx.known_hits.get(fid, 0) + 1
        elif len(seen) < 10:
            seen[b["sig"]] = 1
            vf.violation(ctx, "Unmarshal into %s accepts the truncated document %s: %s" % (b["type"], b["text"], b["got"][:200]), rec)
    if s["cases"] and s.get("oracle_disagreements", 0) > 0.005 * s["cases"]:
        raise vf.Inconclusive("typed prefixes: encoding/json.Valid accepts %d prefixes the specification calls malformed" % s["oracle_disagreements"])
    return {"families": [p[0] for p in plan], "cases": s["cases"], "decodes": s["evals"], "oracle_disagreements": s.get("oracle_disagreements", 0),
            "states": sum(r["distinct"] for r in rs), "wall_s": s.get("wall_s")}
