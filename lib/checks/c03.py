"""C03 - Marshal agrees with encoding/json on errors and on the emitted JSON text.

Specification: spec/Emit.tla - Enc(T, V, addressable, opts): nil handling, numbers, strings,
json.Number, RawMessage, base64, arrays and slices, maps with sorted keys of every key kind
(string, integer, TextMarshaler), struct fields in encoding/json's order with tags, omitempty,
`,string`, embedding and dominance, Marshaler / TextMarshaler dispatch by receiver kind and
addressability (top-level by value or by pointer, through pointers, in slices, map values,
interfaces), erroring and invalid marshalers.  spec/GenEmit.tla enumerates bounded (type, value)
pairs under the std-compatible option set; TLC computes the document or the error for each.

Binding: each case is built with reflect (a fresh encoder program per distinct type) and encoded
with sonic.ConfigStd-equivalent frozen Config and with encoding/json; specification and
encoding/json must agree (else no verdict); then sonic must fail exactly when required and emit
the same tokens in the same order, identical number literals and string literals denoting the
same bytes.
"""
from .. import vf
from . import bindcommon, emitcommon

KINDS = ("panic", "error_required", "valid_rejected", "text_differs", "malformed_output", "error_not_wellformed")


def check(ctx):
    vf.build_harness(ctx)
    plan = emitcommon.plan_for(ctx)
    rs, sums = emitcommon.run_rounds(ctx, plan, 0)
    bindcommon.check_oracle(ctx, sums)
    emitcommon.judge(ctx, sums, KINDS)
    cov = emitcommon.coverage(ctx, rs, sums, plan, {
        "rule": "case = (type, value, top-level by value / by pointer) under the std-compatible option set = one initial state of GenEmit; "
                "each is encoded by encoding/json and by sonic (Marshal plus three other entry points and three option flips); every "
                "case encodes a value, so all are non-trivial; programs = distinct reflect-built types (summed over worker processes)"})
    return vf.finish(ctx, "model_checking", cov, assumptions=[
        "bounded types (as C01 plus marshaler types) and value classes per kind (zero / boundary numbers, float notation thresholds, NaN/Inf, "
        "strings needing escapes, HTML, U+2028, invalid UTF-8, nil / empty / non-empty containers, interfaces holding 11 dynamic types)",
        "number digits are encoding/json's (C19 decides them); the comparison unquotes string literals, so only escape spelling is ignored",
        "quick tier: one seed-rotated slice per family",
    ])
