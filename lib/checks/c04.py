"""C04 - Marshal output is well-formed JSON and round-trips, under every option set.

Specification: spec/Emit.tla composed with spec/Bind.tla in spec/GenEmit.tla: for every bounded
(type, value) and option set TLC checks the round-trip law on the specification itself -
Dec(T, Enc(T, V, o)) equals V up to what JSON cannot carry (nil vs empty containers, pointers to
nil, hidden fields, NaN written as null on request) - and that unrepresentable values are errors.
Option sets: the std-compatible one plus seeded random subsets of the 2^8 encoder option lattice
per (type, value).

Binding: sonic's output under the frozen Config of the option set must be the specification's
document (or an error where required), must parse as exactly one JSON value with nothing after it
(own strict parser and encoding/json.Valid), and decoding it with sonic and with encoding/json
into a fresh value of the same type must give the value the specification computed.
"""
from .. import vf
from . import bindcommon, emitcommon

KINDS = ("panic", "error_required", "valid_rejected", "text_differs", "malformed_output", "roundtrip_fails", "roundtrip_differs", "error_not_wellformed")


def check(ctx):
    vf.build_harness(ctx)
    plan = emitcommon.plan_for(ctx)
    nopts = ctx.pick(3, 6)
    rs, sums = emitcommon.run_rounds(ctx, plan, nopts)
    bindcommon.check_oracle(ctx, sums)
    emitcommon.judge(ctx, sums, KINDS)
    cov = emitcommon.coverage(ctx, rs, sums, plan, {
        "option_sets_per_value": nopts + 1,
        "rule": "case = (type, value, top-level by value / by pointer, option set) = one initial state of GenEmit; TLC checks the round-trip "
                "law on each; the harness encodes, parses strictly and decodes again with two decoders; all cases are non-trivial"})
    return vf.finish(ctx, "model_checking", cov, assumptions=[
        "option sets are sampled (std-compatible + random subsets per value), not all 256 per value; EscapeHTML and CompactMarshaler do not "
        "change the document and are exercised as spelling laws",
        "round trip is required for types JSON can carry into the same type (no interface{} or marshaler-only types) and when validation "
        "was not disabled; floats are compared with ==, their digits and the sign of zero are C19's",
        "bounded types and value classes as C03",
    ])
