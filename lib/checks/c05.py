"""C05 - results depend only on the input bytes; nothing outside the input is ever read.

The byte-level universes of the specification (GenLex: every consuming API on every viable prefix /
minimal rejected string; GenStr: quote, unquote, HTML escape, UTF-8 validation and correction) are
and every prefix of every document of the binding universe decoded into its typed destination (GenBind: the generated
decoder programs peek at the bytes after a token) are replayed with the input placed three ways: on the heap in an exact-size allocation, ending exactly
at a PROT_NONE page (for every tail alignment the lengths of the universe produce), and followed
in memory by an adversarial continuation chosen to complete or extend the last token (a closing
quote, `ull`, more digits, a backslash...). A fault on the guard page kills the worker (reported
with the input); every observation must be identical across placements (per-case digests).

TLA+ has no memory model: the specification contributes the exhaustive input sets (all truncations
of all documents - exactly the inputs on which a scanner is tempted to read on), the continuation
alphabet and the placement-independent expected result; over-reads that stay inside mapped memory
and do not change a result are invisible (stated limit).
"""
import json

from .. import vf
from . import lexcommon, strcommon, envdiff, bindcommon
import os


def bind_prefixes(ctx):
    """Every prefix of the binding universe's documents decoded into their typed destinations under the three placements."""
    if ctx.quick:
        fams = ("leaf", "st1", "st1l", "emb", "opts", "mapkeys", "wrap1")
        plan = [(f, int(ctx.seed) % bindcommon.FAM_PARTS[f], bindcommon.FAM_PARTS[f]) for f in fams]
        stride = 3
    else:
        plan = []
        for f, n in bindcommon.FAM_PARTS.items():
            for k in range(min(n, 4)):
                plan.append((f, (int(ctx.seed) + k * 5) % n, n))
        plan = sorted(set(plan))
        stride = 1
    rs = bindcommon.gen(ctx, plan)
    dumps = ",".join(r["dump"] for r in rs)
    out = {}
    # the default (JIT) decoder; the thorough tier also runs the alternative decoder
    for dec in ([None] if ctx.quick else [None, "SONIC_USE_OPTDEC=1"]):
        g = {}
        for place in (None, "VERIF_PLACE=guard", "VERIF_PLACE=adv"):
            env = ",".join(x for x in (dec, place) if x)
            tag = ("optdec-" if dec else "") + (place or "base").replace("VERIF_PLACE=", "")
            sfile = os.path.join(ctx.work, "bindpfx-%s.json" % tag)
            dfile = sfile[:-5] + ".dg"
            args = ["bind", "-prefixes", "-dump", dumps, "-out", sfile, "-digests", dfile, "-seed", ctx.seed, "-stride", stride]
            if env:
                args += ["-env", env]
            vf.vh(ctx, args, timeout=7200)
            s = json.load(open(sfile))
            s["digests"], s["env"], s["dumps"], s["dec"] = dfile, env, dumps, dec
            s["tlc"] = {"distinct": sum(r["distinct"] for r in rs), "generated": sum(r["generated"] for r in rs)}
            s["fam"] = "bindprefix"
            g[place or "base"] = s
        out["bindprefix" + ("/optdec" if dec else "")] = g
    out["_dumps"] = [r["dump"] for r in rs]
    return out


def compare_prefixes(ctx, base, other, env, known):
    """Digest comparison per (case, prefix length); the differing cases are re-run with observation logs in both placements."""
    a, b = envdiff.load(base["digests"]), envdiff.load(other["digests"])
    tags = envdiff.load.tags
    ids = sorted(set(a) & set(b))
    diff = [i for i in ids if a[i] != b[i]]
    untagged = [i for i in diff if tags.get(i, "-") == "-"]
    for tag in sorted(set(tags.get(i, "-") for i in diff) - {"-"}):
        lst = [i for i in diff if tags.get(i) == tag]
        rec = {"kind": "env_difference", "universe": "bindprefix", "env": env, "tag": tag, "count_with_tag": len(lst), "case_id": lst[0]}
        fid = vf.match_known(known, rec)
        if fid:
            ctx.known_hits[fid] = ctx.known_hits.get(fid, 0) + len(lst)
        else:
            untagged += lst
    if untagged:
        cases = sorted(set(i // 256 for i in untagged))[:200]
        only = os.path.join(ctx.work, "pfx-only.txt")
        open(only, "w").write("\n".join(map(str, cases)))
        det = {}
        for e in (None, env):
            dfile = os.path.join(ctx.work, "pfx-detail-%s.ndjson" % ("env" if e else "base"))
            args = ["bind", "-prefixes", "-dump", base["dumps"], "-out", os.path.join(ctx.work, "pfx-x.json"), "-only", only, "-detail", dfile, "-seed", ctx.seed]
            full = ",".join(x for x in (base.get("dec"), e) if x)
            if full:
                args += ["-env", full]
            vf.vh(ctx, args, timeout=3600)
            det[e] = {int(r["sig"]): r for r in map(json.loads, open(dfile))}
        shown = {}
        for cid in cases:
            x, y = det[None].get(cid), det[env].get(cid)
            if not x or not y:
                continue
            for lx, ly in zip(x["got"].split("\n"), y["got"].split("\n")):
                if lx != ly:
                    key = (x["type"], lx.split(": ", 1)[0][-12:])
                    if key in shown or len(shown) >= 12:
                        continue
                    shown[key] = 1
                    rec = {"kind": "env_difference", "universe": "bindprefix", "env": env, "type": x["type"], "document": x["text"], "opts": x["opts"],
                           "heap": lx[:1500], "placed": ly[:1500], "case_id": cid}
                    vf.violation(ctx, "Unmarshal into %s of the truncated document %s gives a different result under %s: %s | %s" % (
                        x["type"], lx.split(": ", 1)[0], env, lx.split(": ", 1)[-1][:160], ly.split(": ", 1)[-1][:160]), rec)
        if not shown:
            raise vf.Inconclusive("placement-dependent digests (%d) that the detailed re-run does not reproduce" % len(untagged))
    return len(ids), len(diff)


def check(ctx):
    known = vf.load_known(ctx.prop)
    total = different = states = trans = evals = 0
    per = []
    samples = []
    crashes = 0
    # smaller bounds than C02 (three placements of every case); the thorough tier uses C02's quick bounds
    if ctx.quick:
        cfgs = [("struct", lexcommon.A_STRUCT, 5, 2, "<<>>", "", 3), ("lex", lexcommon.A_LEX, 3, 3, "<<>>", "", 3),
                ("inarray", lexcommon.A_LEX, 3, 3, '<<"ls">>', "arr", 2)]
    else:
        cfgs = [("struct", lexcommon.A_STRUCT, 7, 2, "<<>>", "", 4), ("lex", lexcommon.A_LEX, 5, 3, "<<>>", "", 3),
                ("skipped", lexcommon.A_STRUCT, 6, 2, lexcommon.OBJ_PREFIX, "obj", 3), ("inarray", lexcommon.A_LEX, 4, 3, '<<"ls">>', "arr", 3)]
    lex = lexcommon.run_lex(ctx, cfgs, envs=[None, ["VERIF_PLACE=guard"], ["VERIF_PLACE=adv"]])
    groups = {}
    for s in lex:
        groups.setdefault(s["cfg"], {})[(s.get("env") or ["base"])[0]] = s
    st = strcommon.run(ctx, envs=(None, "VERIF_PLACE=guard", "VERIF_PLACE=adv"))
    for s in st:
        groups.setdefault("str/" + s["fam"], {})[s.get("env") or "base"] = s
    bp = bind_prefixes(ctx)
    bp_dumps = bp.pop("_dumps")
    groups.update(bp)
    for name, g in groups.items():
        base = g["base"]
        states += base["tlc"]["distinct"]
        trans += base["tlc"]["generated"]
        samples.extend((base.get("samples") or [])[:1])
        for env, s in g.items():
            evals += s["evals"]
            for c in s.get("crashes") or []:
                if c.startswith("unconfirmed"):
                    ctx.notes.append(c[:300])
                    continue
                crashes += 1
                rec = {"kind": "crash", "universe": name, "env": env, "detail": c[:3000]}
                fid = vf.match_known(known, rec)
                if fid:
                    ctx.known_hits[fid] = ctx.known_hits.get(fid, 0) + 1
                else:
                    vf.violation(ctx, "worker died with placement %s (read or write outside the input?): %s" % (env, c[:200]), rec)
            # faults / panics attributed to an API by the worker (a read past the guard page is recovered in-process)
            recs = {}
            for b in s.get("bad") or []:
                recs.setdefault(lexcommon.sigkey(b) if "sig" in b and isinstance(b["sig"], dict) else b.get("sig"), b)
            for key, n in (s.get("bad_by_sig") or {}).items():
                b = recs.get(key)
                if b is None or b.get("kind") not in ("fault", "panic", "fault_or_panic"):
                    continue        # disagreements with the specification's verdict are C02 / C20's business
                rec = dict(b)
                rec["env"], rec["universe"] = env, name
                if name.startswith("bindprefix"):
                    rec["sig"] = {k: "yes" for k, v in (b.get("feat") or {}).items() if v}
                    rec["api"] = "Unmarshal into " + str(b.get("type"))
                fid = vf.match_known(known, rec)
                if fid:
                    ctx.known_hits[fid] = ctx.known_hits.get(fid, 0) + n
                else:
                    vf.violation(ctx, "%s touched memory outside its input (%s placement): %s" % (rec.get("api"), env, b.get("text")), rec)
            if env == "base":
                continue
            if name.startswith("bindprefix"):
                n, d = compare_prefixes(ctx, base, s, env, known)
                total += n
                different += d
                per.append({"universe": name, "placement": env, "cases": n, "different": d})
                continue
            n, d = envdiff.compare(ctx, name.split("/")[0] if name.startswith("str") else ("bind -prefixes" if name == "bindprefix" else "lex"), base["digests"], s["digests"], env, known,
                                   "memory placement")
            total += n
            different += d
            per.append({"universe": name, "placement": env, "cases": n, "different": d})
    for f in bp_dumps:
        os.remove(f)
    cov = {
        "evaluations": evals,
        "distinct_nontrivial": total,
        "rule": "case = one state of GenLex / GenStr under one non-heap placement (guard page / adversarial continuation), compared by digest "
                "with the heap placement of the same case and seed",
        "samples": samples[:6],
        "states": states,
        "transitions": trans,
        "traces_validated_against_impl": total,
        "different": different,
        "worker_crashes": crashes,
        "per_universe": per,
    }
    return vf.finish(ctx, "exploration", cov, assumptions=[
        "reads outside the input are observable only through a fault on the guard page or a changed result",
        "inputs are those of the bounded universes and their padded/stretched concretisations (lengths up to a few hundred bytes)",
        "string-taking APIs get an unsafe string view of the placed bytes, so they see the same placement as the []byte APIs",
    ])
