"""C05 - results depend only on the input bytes; nothing outside the input is ever read.

The byte-level universes of the specification (GenLex: every consuming API on every viable prefix /
minimal rejected string; GenStr: quote, unquote, HTML escape, UTF-8 validation and correction) are
replayed with the input placed three ways: on the heap in an exact-size allocation, ending exactly
at a PROT_NONE page (for every tail alignment the lengths of the universe produce), and followed
in memory by an adversarial continuation chosen to complete or extend the last token (a closing
quote, `ull`, more digits, a backslash...). A fault on the guard page kills the worker (reported
with the input); every observation must be identical across placements (per-case digests).

TLA+ has no memory model: the specification contributes the exhaustive input sets (all truncations
of all documents - exactly the inputs on which a scanner is tempted to read on), the continuation
alphabet and the placement-independent expected result; over-reads that stay inside mapped memory
and do not change a result are invisible (stated limit).
"""
import json

from .. import vf
from . import lexcommon, strcommon, envdiff


def check(ctx):
    known = vf.load_known(ctx.prop)
    total = different = states = trans = evals = 0
    per = []
    samples = []
    crashes = 0
    # smaller bounds than C02 (three placements of every case); the thorough tier uses C02's quick bounds
    if ctx.quick:
        cfgs = [("struct", lexcommon.A_STRUCT, 5, 2, "<<>>", "", 3), ("lex", lexcommon.A_LEX, 3, 3, "<<>>", "", 3),
                ("inarray", lexcommon.A_LEX, 3, 3, '<<"ls">>', "arr", 2)]
    else:
        cfgs = [("struct", lexcommon.A_STRUCT, 7, 2, "<<>>", "", 4), ("lex", lexcommon.A_LEX, 5, 3, "<<>>", "", 3),
                ("skipped", lexcommon.A_STRUCT, 6, 2, lexcommon.OBJ_PREFIX, "obj", 3), ("inarray", lexcommon.A_LEX, 4, 3, '<<"ls">>', "arr", 3)]
    lex = lexcommon.run_lex(ctx, cfgs, envs=[None, ["VERIF_PLACE=guard"], ["VERIF_PLACE=adv"]])
    groups = {}
    for s in lex:
        groups.setdefault(s["cfg"], {})[(s.get("env") or ["base"])[0]] = s
    st = strcommon.run(ctx, envs=(None, "VERIF_PLACE=guard", "VERIF_PLACE=adv"))
    for s in st:
        groups.setdefault("str/" + s["fam"], {})[s.get("env") or "base"] = s
    for name, g in groups.items():
        base = g["base"]
        states += base["tlc"]["distinct"]
        trans += base["tlc"]["generated"]
        samples.extend((base.get("samples") or [])[:1])
        for env, s in g.items():
            evals += s["evals"]
            for c in s.get("crashes") or []:
                if c.startswith("unconfirmed"):
                    ctx.notes.append(c[:300])
                    continue
                crashes += 1
                rec = {"kind": "crash", "universe": name, "env": env, "detail": c[:3000]}
                fid = vf.match_known(known, rec)
                if fid:
                    ctx.known_hits[fid] = ctx.known_hits.get(fid, 0) + 1
                else:
                    vf.violation(ctx, "worker died with placement %s (read or write outside the input?): %s" % (env, c[:200]), rec)
            # faults / panics attributed to an API by the worker (a read past the guard page is recovered in-process)
            recs = {}
            for b in s.get("bad") or []:
                recs.setdefault(lexcommon.sigkey(b) if "sig" in b and isinstance(b["sig"], dict) else b.get("sig"), b)
            for key, n in (s.get("bad_by_sig") or {}).items():
                b = recs.get(key)
                if b is None or b.get("kind") not in ("fault", "panic", "fault_or_panic"):
                    continue        # disagreements with the specification's verdict are C02 / C20's business
                rec = dict(b)
                rec["env"], rec["universe"] = env, name
                fid = vf.match_known(known, rec)
                if fid:
                    ctx.known_hits[fid] = ctx.known_hits.get(fid, 0) + n
                else:
                    vf.violation(ctx, "%s touched memory outside its input (%s placement): %s" % (b.get("api"), env, b.get("text")), rec)
            if env == "base":
                continue
            n, d = envdiff.compare(ctx, name.split("/")[0] if name.startswith("str") else "lex", base["digests"], s["digests"], env, known,
                                   "memory placement")
            total += n
            different += d
            per.append({"universe": name, "placement": env, "cases": n, "different": d})
    cov = {
        "evaluations": evals,
        "distinct_nontrivial": total,
        "rule": "case = one state of GenLex / GenStr under one non-heap placement (guard page / adversarial continuation), compared by digest "
                "with the heap placement of the same case and seed",
        "samples": samples[:6],
        "states": states,
        "transitions": trans,
        "traces_validated_against_impl": total,
        "different": different,
        "worker_crashes": crashes,
        "per_universe": per,
    }
    return vf.finish(ctx, "exploration", cov, assumptions=[
        "reads outside the input are observable only through a fault on the guard page or a changed result",
        "inputs are those of the bounded universes and their padded/stretched concretisations (lengths up to a few hundred bytes)",
        "string-taking APIs get an unsafe string view of the placed bytes, so they see the same placement as the []byte APIs",
    ])
