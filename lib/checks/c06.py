"""C06 - returned data is caller-owned; buffers and inputs are never aliased or overrun.

Specification: spec/Pool.tla (buffers with identity, capacity class relative to LimitBufferSize and
owner; one encoding call = take, write/grow, optional post-processing swap, copy-out rule); TLC
checks that nothing the caller holds is in the pool and that results are pairwise distinct arrays,
for every choice sync.Pool can make, and generates all call histories up to the bound.

Binding: every history is replayed (LimitBufferSize scaled to 256, one P, GC off) on Marshal,
MarshalIndent, EncodeInto (dirty prefix, capacities around the exact need), stream Encode and
Node.MarshalJSON (raw and loaded): each result must equal encoding/json's text, earlier results
must keep their bytes while later calls run, and results the caller scribbles over must not affect
later ones; EncodeInto into buffers whose capacity ends at a PROT_NONE page for every capacity
0..N; decoded values re-read after the caller overwrites its input.
spec/EncBuf.tla states the reserve-then-write discipline of the emitting sites (fixed items, numbers with reserved width,
quoted strings whose escaped text outgrows the source: regrow-and-resume, and the second reservation for the closing quote);
TLC checks "never beyond the capacity" and "same bytes whatever the capacity and prefix" from every initial (capacity, prefix),
and that the variant without the closing reservation violates it. Binding: a zoo reaching every emitting site, encoded by
EncodeInto at EVERY capacity from the prefix length to three bytes beyond the text, capacity ending at a PROT_NONE page.
"""
import json
import os

from .. import vf


def check(ctx):
    vf.build_harness(ctx)
    known = vf.load_known(ctx.prop)
    mc = vf.tlc(ctx, "MCPool", "mc/Pool.cfg", name="pool-mc", defines={"MAXCALLS": ctx.pick(3, 4), "MUT": "{}"}, timeout=3000)
    if not mc["ok"]:
        raise vf.Inconclusive("Pool model violates %s" % mc["violated"])
    g = vf.tlc(ctx, "MCPool", "mc/Pool_gen.cfg", name="pool-gen", dump="states", defines={"MAXCALLS": ctx.pick(3, 4), "MUT": "{}"}, timeout=3000)
    # the overrun half: reserve-then-write discipline of every emitting site (spec/EncBuf.tla), all initial capacities and prefixes
    eb = vf.tlc(ctx, "EncBuf", "mc/EncBuf.cfg", name="encbuf", defines={"MAXCAP": ctx.pick(40, 120), "MAXPRE": 3, "MUT": "{}"}, timeout=3000, workers=4)
    if not eb["ok"]:
        raise vf.Inconclusive("EncBuf model violates %s" % eb["violated"])
    ebm = vf.tlc(ctx, "EncBuf", "mc/EncBuf.cfg", name="encbuf-mut", defines={"MAXCAP": 40, "MAXPRE": 3, "MUT": '{"NoClosingReserve"}'}, timeout=3000, workers=4)
    if ebm["violated"] != "Within":
        raise vf.Inconclusive("the EncBuf variant without the closing reservation does not violate Within")
    ebr = vf.tlc(ctx, "EncBuf", "mc/EncBuf.cfg", name="encbuf-mut2", defines={"MAXCAP": 40, "MAXPRE": 3, "MUT": '{"ResumeOverwrite"}'}, timeout=3000, workers=4)
    if ebr["violated"] != "Result":
        raise vf.Inconclusive("the EncBuf variant that overwrites the resume offset does not violate Result")
    sfile = os.path.join(ctx.work, "pool.json")
    vf.vh(ctx, ["pool", "-dump", g["dump"], "-out", sfile, "-seed", ctx.seed, "-guard", ctx.pick(300, 1500), "-encbufmax", ctx.pick(400, 4000)], timeout=3000)
    s = json.load(open(sfile))
    os.remove(g["dump"])
    for c in s.get("crashes") or []:
        if c.startswith("unconfirmed"):
            ctx.notes.append(c[:300])
        else:
            rec = {"kind": "crash", "detail": c[:3000]}
            fid = vf.match_known(known, rec)
            if fid:
                ctx.known_hits[fid] = ctx.known_hits.get(fid, 0) + 1
            else:
                vf.violation(ctx, "worker died (write past a buffer's capacity, or crash): " + c[:200], rec)
    for b in s.get("bad") or []:
        fid = vf.match_known(known, b)
        if fid:
            ctx.known_hits[fid] = ctx.known_hits.get(fid, 0) + s["bad_by_sig"].get(b["sig"], 1)
        else:
            vf.violation(ctx, "%s at call %s of %s: %s" % (b["kind"], b.get("step"), json.dumps(b.get("hist")), b["detail"][:200]), b)
    cov = {
        "states": mc["distinct"] + g["distinct"] + eb["distinct"],
        "transitions": mc["generated"] + g["generated"] + eb["generated"],
        "traces_validated_against_impl": s["histories"],
        "evaluations": s["evals"],
        "distinct_nontrivial": s["histories"],
        "rule": "history = sequence of encoding calls (6 entry points x {fits the pool limit, exceeds it} x {post-processing swap on/off}) up to "
                "the bound; all histories replayed; plus one guarded EncodeInto per capacity 0..N x 4 value/option variants; every history has "
                "at least one call; EncBuf: every zoo value x 2 option sets x prefixes {0,3} x every capacity up to the text length + 3",
        "samples": (s.get("samples") or [])[:5],
        "exhaustive": True,
        "guarded_buffers": s["guarded_buffers"],
        "encbuf_cases": s.get("encbuf_cases"),
        "replay": {k: s.get(k) for k in ("histories", "evals", "guarded_buffers", "encbuf_cases", "bad_by_sig", "wall_s")},
        "model_check": [{"cfg": r["name"], "distinct": r["distinct"], "generated": r["generated"], "wall_s": r["wall_s"]} for r in (mc, g, eb)],
    }
    return vf.finish(ctx, "model_checking", cov, assumptions=[
        "LimitBufferSize = 256 and initial buffer sizes = 64 in the replay stand for 1 MiB / 4 KiB (same code paths, public option variables)",
        "pool reuse is made deterministic with GOMAXPROCS=1 and GC off; which pooled buffer a call gets is sync.Pool's choice (the model covers all choices)",
        "an over-read or over-write that stays inside mapped memory and changes no observed byte is not visible to this check",
        "encoding/json is the reference for the expected bytes of each call",
    ])
