"""C07 - no input can crash, hang or panic the process, and every error value is usable.

Specification: spec/Limits.tla - every recursive traversal is a scanner with a bounded stack whose
overflow is an error transition, and every step consumes input (termination); TLC checks the
machine and the closed form of its verdict for small bounds.  spec/GenLimits.tla enumerates
(entry point, nesting shape, depth around and far beyond the bound, closed or truncated) with the
outcome class the machine requires.  spec/Bind.tla / GenBind.tla supply the malformed and
perturbed documents for every destination type (every single-point perturbation, non-JSON tokens).

Binding: every case runs in a worker process under a watchdog; a process death (fatal error,
SIGSEGV, stack exhaustion), an unrecovered panic or a timeout is attributed to its case and
confirmed by re-running it alone.  The error monitor is applied to every error returned in these
universes: Error() and Description() terminate without panic, the message is bounded, and a
reported position lies inside the input.
"""
import json
import os

from .. import vf
from . import bindcommon

DEPTHS_Q = "{100, 2048, 2049, 4095, 4096, 4097, 100000}"
DEPTHS_T = "{1, 100, 2000, 2047, 2048, 2049, 2050, 4000, 4094, 4095, 4096, 4097, 4098, 8192, 100000, 3000000}"


def check(ctx):
    vf.build_harness(ctx)
    known = vf.load_known(ctx.prop)
    m = vf.tlc(ctx, "GenLimits", "mc/GenLimits.cfg", name="limits-machine", defines={"MODE": "check", "DEPTHS": "{1}"}, timeout=600, workers=2)
    if not m["ok"]:
        raise vf.Inconclusive("Limits machine violates %s" % m["violated"])
    g = vf.tlc(ctx, "GenLimits", "mc/GenLimits.cfg", name="limits-gen", dump="states",
               defines={"MODE": "gen", "DEPTHS": ctx.pick(DEPTHS_Q, DEPTHS_T)}, timeout=600, workers=2)
    lfile = os.path.join(ctx.work, "lim.json")
    sums = []
    for env in ([None] if ctx.quick else [None, "SONIC_USE_OPTDEC=1", "SONIC_ENCODER_USE_VM=1"]):
        args = ["limits", "-dump", g["dump"], "-out", lfile, "-workers", "6"]
        if env:
            args += ["-env", env]
        vf.vh(ctx, args, timeout=7200)
        s = json.load(open(lfile))
        s["env"] = env
        sums.append(s)
    os.remove(g["dump"])
    for s in sums:
        for b in s.get("bad") or []:
            b = dict(b, env=s["env"])
            fid = vf.match_known(known, b)
            if fid:
                ctx.known_hits[fid] = ctx.known_hits.get(fid, 0) + 1
            else:
                c = b["case"]
                vf.violation(ctx, "%s: %s on %s nesting of depth %d (%s)%s: %s" % (
                    b["kind"], c["api"], c["shape"], c["depth"], "closed" if c["closed"] else "truncated",
                    " under " + s["env"] if s["env"] else "", b["detail"][:300]), b)
    # the malformed / perturbed documents of the binding universe: panics, crashes, error values
    plan = bindcommon.plan_for(ctx, ("leaf", "wrap1", "st1l", "st1w", "emb")) if ctx.quick else bindcommon.plan_for(ctx, ("leaf", "wrap1", "st1l", "st1w", "st2", "emb"))
    brs, bsums = bindcommon.run_rounds(ctx, plan)
    for s in bsums:
        for c in s.get("crashes") or []:
            if c.startswith("unconfirmed"):
                ctx.notes.append(c[:300])
            else:
                vf.violation(ctx, "decoder worker died: %s" % c[:200], {"kind": "crash", "detail": c[:3000]})
        for b in s.get("bad") or []:
            if b["kind"] in ("panic", "error_not_wellformed"):
                fid = vf.match_known(known, b)
                if fid:
                    ctx.known_hits[fid] = ctx.known_hits.get(fid, 0) + 1
                else:
                    vf.violation(ctx, "%s: %s <- %s: %s" % (b["kind"], b["type"], b["text"], b["got"][:200]), b)
    lim_cases = sum(s["cases"] for s in sums)
    cov = {
        "states": m["distinct"] + g["distinct"] + sum(r["distinct"] for r in brs),
        "transitions": m["generated"] + g["generated"] + sum(r["generated"] for r in brs),
        "traces_validated_against_impl": lim_cases + bindcommon.total(bsums, "cases"),
        "evaluations": lim_cases + bindcommon.total(bsums, "evals") * 2,
        "distinct_nontrivial": lim_cases + bindcommon.total(bsums, "cases"),
        "rule": "limit case = (entry point, shape, depth, closed/truncated), one worker-process execution each; binding case = one state of "
                "GenBind decoded through two entry points; every case executes library code on an input, so all are non-trivial",
        "samples": (sums[0].get("table") or [])[:5],
        "limit_outcomes": [{"env": s["env"], "outcomes": s["outcomes"], "max_ms": s["max_ms"], "max_error_message": s["max_msglen"]} for s in sums],
        "entry_points": 16,
        "depths": ctx.pick(DEPTHS_Q, DEPTHS_T),
    }
    return vf.finish(ctx, "exploration", cov, assumptions=[
        "'any size' is sampled at the depths listed (thorough: up to three million levels, i.e. documents of 3-18 MB); memory exhaustion of "
        "the sandbox would be exit 2, not a verdict",
        "the message bound of the error monitor is 2 KB (4 KB in the decode replays), the window of the excerpt being 32 bytes",
        "entry points: Unmarshal (interface{}, typed recursive struct, skipped field, RawMessage field; default and std config), Valid, Get "
        "with and without path, Node LoadAll / Interface / MarshalJSON, Searcher without validation, Preorder, StreamDecoder, Marshal of "
        "deep and cyclic values",
        "between 4001 levels and the bound the required outcome is 'value or error' (the bounds differ per entry point and shape); below "
        "4000 a closed document must be accepted, a truncated one rejected",
    ])
