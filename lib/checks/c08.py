"""C08 - codecs are safe and deterministic under arbitrary concurrent use.

Specification: spec/Cache.tla (the RCU program cache: lock-free Get on immutable snapshots,
Compute = lock + double check + compile + copy-on-write add with rehash + atomic publish), checked
by TLC: one compile per type, nothing returned is ever lost, snapshots immutable, tables
well-formed and every entry findable, mutual exclusion, termination.

Binding: every complete path of the 2-goroutine model is a schedule replayed with gated goroutines
on the real cache (hooks H1, verifhook bridge); a sample of them again in a -race build together
with stress runs (thousands of synthetic types with clustered hashes across the real 2048-entry
rehash; first use of fresh reflect-built types through Marshal/Unmarshal/Valid/Get racing Pretouch).
"""
import json
import os
import re

from .. import vf

W2 = "<<<<1,2>>,<<2,1>>>>"
W3 = "<<<<1,2>>,<<2,3>>,<<3,1>>>>"


def races_in(out):
    blocks = []
    for block in out.split("==================\n"):
        if "WARNING: DATA RACE" in block and "github.com/bytedance/sonic/" in block:
            blocks.append(block[:3000])
    return blocks


CRASH_MARKS = ("fatal error:", "panic:", "SIGSEGV", "SIGBUS", "unexpected fault address", "signal arrived")


def confirm_crash(ctx, rc, out, cmd, timeout, env, what):
    """A stress process that dies (a fault inside generated code cannot be recovered in-process) is an observation of the
    library under concurrent use: it is confirmed by running the same command again; twice dead = violation (with the stack),
    once = a note.  Anything else that fails (time-out, usage) stays inconclusive."""
    if rc == 0:
        return rc, out
    if not any(m in out for m in CRASH_MARKS):
        raise vf.Inconclusive("%s failed:\n%s" % (what, out[-2000:]))
    rc2, out2, _ = vf.run(cmd, timeout, env=env)
    if rc2 != 0 and any(m in out2 for m in CRASH_MARKS):
        i = min([out2.find(m) for m in CRASH_MARKS if m in out2])
        vf.violation(ctx, "%s: the process died under concurrent use, twice: %s" % (what, out2[i:i + 160].replace("\n", " ")),
                     {"kind": "crash", "what": what, "first": out[-3000:], "second": out2[max(0, i - 200):i + 4000]})
        return rc2, out2
    if rc2 != 0:
        raise vf.Inconclusive("%s failed:\n%s" % (what, out2[-2000:]))
    ctx.notes.append("unconfirmed crash of %s (died once, ran clean when repeated): %s" % (what, out[-300:]))
    return rc2, out2


def check(ctx):
    exe = vf.build_harness(ctx)
    exe_race = vf.build_harness(ctx, race=True)
    known = vf.load_known(ctx.prop)
    runs = []
    for name, procs, types, want, cap_ in (("2x2", "{1,2}", "{1,2}", W2, 2), ("3x3", "{1,2,3}", "{1,2,3}", W3, 2)) + \
            ((("3x3cap4", "{1,2,3}", "{1,2,3}", W3, 4),) if not ctx.quick else ()):
        r = vf.tlc(ctx, "MCCache", "mc/Cache.cfg", name="cache-" + name,
                   defines={"PROCS": procs, "TYPES": types, "WANT": want, "MUT": "{}", "INITCAP": cap_}, timeout=1800)
        if not r["ok"]:
            raise vf.Inconclusive("Cache model violates %s" % r["violated"])
        runs.append(r)
    g = vf.tlc(ctx, "MCCache", "mc/Cache_gen.cfg", name="cache-gen", dump="states",
               defines={"PROCS": "{1,2}", "TYPES": "{1,2}", "WANT": W2, "MUT": "{}", "INITCAP": 2}, timeout=1800)
    sums = []
    races = []
    s1 = os.path.join(ctx.work, "pc1.json")
    rc, out, _ = vf.run([exe, "pcache", "-dump", g["dump"], "-out", s1, "-seed", str(ctx.seed), "-stride", str(ctx.pick(3, 1)),
                         "-api", str(ctx.pick(40, 200)), "-encscale", str(ctx.pick(6, 30))], 1800)
    rc, out = confirm_crash(ctx, rc, out, [exe, "pcache", "-dump", g["dump"], "-out", s1, "-seed", str(ctx.seed), "-stride", str(ctx.pick(3, 1)),
                                           "-api", str(ctx.pick(40, 200)), "-encscale", str(ctx.pick(6, 30))], 1800, None, "pcache replay")
    if rc == 0:
        sums.append(json.load(open(s1)))
    s2 = os.path.join(ctx.work, "pc2.json")
    rc, out, _ = vf.run([exe_race, "pcache", "-dump", g["dump"], "-out", s2, "-seed", str(ctx.seed), "-stride", str(ctx.pick(97, 11)),
                         "-stress", str(ctx.pick(2600, 12000)), "-api", str(ctx.pick(300, 2000))], 9000, env={"GORACE": "halt_on_error=0 exitcode=0"})
    rc, out = confirm_crash(ctx, rc, out, [exe_race, "pcache", "-dump", g["dump"], "-out", s2, "-seed", str(ctx.seed), "-stride", str(ctx.pick(97, 11)),
                                           "-stress", str(ctx.pick(2600, 12000)), "-api", str(ctx.pick(300, 2000))], 9000,
                            {"GORACE": "halt_on_error=0 exitcode=0"}, "pcache -race run")
    if rc == 0:
        sums.append(json.load(open(s2)))
    races = races_in(out)
    os.remove(g["dump"])
    for s in sums:
        for b in s.get("bad") or []:
            fid = vf.match_known(known, b)
            if fid:
                ctx.known_hits[fid] = ctx.known_hits.get(fid, 0) + 1
            else:
                vf.violation(ctx, "program cache / concurrent first use: %s: %s (schedule %s)" % (b["kind"], b["detail"][:200], b.get("sched")), b)
    seen = set()
    for blk in races:
        frames = re.findall(r"github\.com/bytedance/sonic/[\w/\.\(\)\*]+", blk)
        key = "|".join(frames[:4])
        if key in seen:
            continue
        seen.add(key)
        rec = {"kind": "data_race", "frames": frames[:12], "report": blk}
        fid = vf.match_known(known, rec)
        if fid:
            ctx.known_hits[fid] = ctx.known_hits.get(fid, 0) + 1
        else:
            vf.violation(ctx, "data race: " + " <-> ".join(frames[:2]), rec)
    samples = []
    for s in sums:
        samples.extend(s.get("samples") or [])
    cov = {
        "states": sum(r["distinct"] for r in runs),
        "transitions": sum(r["generated"] for r in runs),
        "traces_validated_against_impl": sum(s["schedules"] for s in sums),
        "evaluations": sum(s["evals"] for s in sums) + sums[1]["stress"].get("fake_types", 0) * 2 * 8 + sums[1]["stress"].get("api_types", 0) * 8,
        "distinct_nontrivial": sum(s["schedules"] for s in sums),
        "rule": "schedule = complete path of the 2-goroutine Cache model (each goroutine performs two findOrCompile calls on two colliding "
                "types; InitCap 2 forces rehash during the race); replayed with gated goroutines on a private instance of the real cache; "
                "all schedules interleave two goroutines, so all are non-trivial",
        "samples": samples[:5],
        "race_reports": len(races),
        "replay": [{k: s[k] for k in ("schedules", "evals", "blocked_steps", "stress", "wall_s")} for s in sums],
        "model_check": [{"cfg": r["name"], "distinct": r["distinct"], "generated": r["generated"], "wall_s": r["wall_s"]} for r in runs],
    }
    return vf.finish(ctx, "model_checking", cov, assumptions=[
        "the model's InitCap (2, 4) stands for 4096; the real rehash point is crossed by the stress runs",
        "gated replay uses a private ProgramCache through the verif bridge; the library's own three cache instances are exercised by the API stress",
        "the Go race detector is trusted for the no-data-race half in the executed runs",
        "pools (buffers, stacks, FSMs, iterators) are exercised by the API stress under -race, not modelled step by step here (see C06)",
    ])
