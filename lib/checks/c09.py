"""C09 - codec results never depend on history (cache state, compile order, Pretouch).

Specification: spec/Session.tla (types with identity and printed name, first use vs. PretouchMany
batches, cache growth); TLC checks that every type is always served by its own codec and generates
all histories up to the bound.

Binding: each history runs in a fresh process (history replay), followed by a fixed probe of every
type of the family (two distinct types printing the same name, a recursive type with a
pointer-receiver marshaler field, a 60-field nested type); the probe results must equal those of a
process with an empty history; a crash of the process is a violation.
Types with equal 32-bit type hashes (pairs of reflect.StructOf types found by an FNV-1 collision search), their slices and
pointers, first used in both orders and after Pretouch, must each be served as if alone (spec/Cache.tla ServedOwn; the
variant that compares hashes only violates it under TLC).
"""
import json
import os

from .. import vf


def check(ctx):
    vf.build_harness(ctx)
    known = vf.load_known(ctx.prop)
    mh = ctx.pick(2, 3)
    r = vf.tlc(ctx, "MCSession", "mc/Session.cfg", name="session-mc", defines={"MAXHIST": 3, "MAPBACK": "ByType", "FILL": "TRUE"}, timeout=1800)
    if not r["ok"]:
        raise vf.Inconclusive("Session model violates %s" % r["violated"])
    # the program cache must serve a lookup with the entry of that very type, also when another type has the same 32-bit hash
    # (spec/Cache.tla ServedOwn); the variant that compares hashes only must violate it
    ch = vf.tlc(ctx, "MCCache", "mc/Cache.cfg", name="cache-samehash", timeout=1800,
                defines={"PROCS": "{1,2}", "TYPES": "{1,9}", "WANT": "<<<<1,9>>,<<9,1>>>>", "MUT": "{}", "INITCAP": 2})
    if not ch["ok"]:
        raise vf.Inconclusive("Cache model violates %s" % ch["violated"])
    chm = vf.tlc(ctx, "MCCache", "mc/Cache.cfg", name="cache-hashonly", timeout=1800,
                 defines={"PROCS": "{1,2}", "TYPES": "{1,9}", "WANT": "<<<<1,9>>,<<9,1>>>>", "MUT": '{"HashOnly"}', "INITCAP": 2})
    if chm["violated"] != "ServedOwn":
        raise vf.Inconclusive("the hash-only variant of Cache does not violate ServedOwn")
    g = vf.tlc(ctx, "MCSession", "mc/Session_gen.cfg", name="session-gen", dump="states",
               defines={"MAXHIST": mh, "MAPBACK": "ByType", "FILL": "TRUE"}, timeout=1800)
    sfile = os.path.join(ctx.work, "sess.json")
    envs = [None] if ctx.quick else [None, "SONIC_USE_OPTDEC=1", "SONIC_ENCODER_USE_VM=1"]
    sums = []
    for i, env in enumerate(envs):
        args = ["session", "-dump", g["dump"], "-out", sfile, "-seed", ctx.seed, "-stride", ctx.pick(11, 7 if i == 0 else 60)]
        if env:
            args += ["-env", env]
        vf.vh(ctx, args, timeout=9000)
        s = json.load(open(sfile))
        s["env"] = env
        sums.append(s)
    os.remove(g["dump"])
    for s in sums:
        for b in s.get("bad") or []:
            fid = vf.match_known(known, b)
            if fid:
                ctx.known_hits[fid] = ctx.known_hits.get(fid, 0) + 1
            else:
                vf.violation(ctx, "history dependence (%s) after %s: %s" % (b["kind"], json.dumps(b["history"]), b["detail"][:300]), b)
    samples = []
    for s in sums:
        samples.extend(s.get("samples") or [])
    cov = {
        "states": r["distinct"] + g["distinct"],
        "transitions": r["generated"] + g["generated"],
        "traces_validated_against_impl": sum(s["histories"] for s in sums),
        "evaluations": sum(s["evals"] for s in sums),
        "distinct_nontrivial": sum(s["histories"] for s in sums),
        "rule": "history = sequence of calls (first use by Marshal value / pointer / Unmarshal of 4 types, PretouchMany of 5 batches x 2 "
                "recursion depths, fill = 2200 unrelated types) up to the bound; a seeded stride sample of all histories is replayed, one "
                "fresh process each; every history has at least one call, so all are non-trivial",
        "samples": samples[:5],
        "replay": [{k: s.get(k) for k in ("env", "histories", "evals", "colliding_pairs", "bad_by_sig", "wall_s")} for s in sums],
        "model_check": [{"cfg": x["name"], "distinct": x["distinct"], "generated": x["generated"], "wall_s": x["wall_s"]} for x in (r, g)],
    }
    return vf.finish(ctx, "model_checking", cov, assumptions=[
        "the type family is fixed (4 types incl. two printing the same name); other types only as cache filler",
        "the probe compares printed results of Marshal (value, pointer, both stock configs) and Unmarshal per type",
        "compile options explored: recursion depth 0 and 1 (MaxInlineDepth left at its default)",
    ])
