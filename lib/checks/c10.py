"""C10 - generated code cooperates with the Go runtime: GC, stack growth, tracebacks.

Specification: spec/Runtime.tla - the obligation of generated code at call-outs (every live pointer
in a declared slot whenever the runtime may act; no runtime action inside generated code), checked
by TLC on the abstract program; and the schedule space: for each codec program with K call-outs to
user callbacks, every assignment of runtime events {none, full collection, stack growth that moves
the stack, traceback / stack dump, goroutine switches, nested sonic call, allocation burst} to
the call-outs.  The result of a run must not depend on the schedule.

Binding: every generated (program, schedule) runs on the real code in supervised worker processes:
the event is performed inside the user callback (UnmarshalJSON / UnmarshalText / MarshalJSON /
MarshalText on values, pointers, interfaces, map keys) while generated frames are on the stack;
the decoded value (re-read after a final collection) or the output bytes must equal the
event-free run.  A second pass repeats a stride of the schedules under asynchronous pressure
(GOGC=1, a goroutine forcing collections, allocating goroutines, CPU profiler walking the stacks).
"""
import json
import os

from .. import vf


def check(ctx):
    vf.build_harness(ctx)
    known = vf.load_known(ctx.prop)
    m = vf.tlc(ctx, "Runtime", "mc/Runtime.cfg", name="runtime-model", defines={"K": 2, "MODE": "model"}, timeout=600, workers=4)
    if not m["ok"]:
        raise vf.Inconclusive("Runtime model violates %s" % m["violated"])
    g = vf.tlc(ctx, "Runtime", "mc/Runtime.cfg", name="runtime-gen", dump="states", defines={"K": ctx.pick(3, 4), "MODE": "gen"}, timeout=1200, workers=4)
    runs = [("", 1, None), ("pressure", ctx.pick(2, 1), None)]
    if not ctx.quick:
        runs += [("", 3, "SONIC_ENCODER_USE_VM=1"), ("", 3, "SONIC_USE_OPTDEC=1"), ("pressure", 4, "SONIC_MODE=noavx2")]
    sums = []
    for mode, stride, env in runs:
        sfile = os.path.join(ctx.work, "rt.json")
        args = ["rtsched", "-dump", g["dump"], "-out", sfile, "-stride", stride]
        if mode:
            args += ["-mode", mode]
        if env:
            args += ["-env", env]
        vf.vh(ctx, args, timeout=7200)
        s = json.load(open(sfile))
        s["mode"], s["env"], s["stride"] = mode, env, stride
        sums.append(s)
    os.remove(g["dump"])
    for s in sums:
        for c in s.get("crashes") or []:
            if c.startswith("unconfirmed"):
                ctx.notes.append(c[:300])
                continue
            rec = {"kind": "crash", "detail": c[:4000], "mode": s["mode"], "env": s["env"]}
            fid = vf.match_known(known, rec)
            if fid:
                ctx.known_hits[fid] = ctx.known_hits.get(fid, 0) + 1
            else:
                vf.violation(ctx, "process died under a runtime schedule (%s %s): %s" % (s["mode"] or "synchronous", s["env"] or "", c[:200]), rec)
        for b in s.get("bad") or []:
            b = dict(b, env=s["env"])
            fid = vf.match_known(known, b)
            if fid:
                ctx.known_hits[fid] = ctx.known_hits.get(fid, 0) + 1
            else:
                vf.violation(ctx, "result depends on the runtime schedule: %s with %s (%s %s): want %s, got %s" % (
                    b["prog"], b["sched"], b["mode"] or "synchronous", s["env"] or "", b["base"][:120], b["got"][:120]), b)
    cov = {
        "states": m["distinct"] + g["distinct"],
        "transitions": m["generated"] + g["generated"],
        "traces_validated_against_impl": sum(s["cases"] for s in sums),
        "evaluations": sum(s["cases"] for s in sums),
        "distinct_nontrivial": sum(s["nontrivial"] for s in sums),
        "rule": "schedule = codec program x assignment of a runtime event to each of its K call-outs; non-trivial when at least one event "
                "other than 'none' actually fired inside a callback during the run (counted by the harness)",
        "samples": (sums[0].get("samples") or [])[:5],
        "events_fired": sum(s["events_fired"] for s in sums),
        "event_hist": sums[0].get("event_hist"),
        "runs": [{k: s[k] for k in ("mode", "env", "stride", "cases", "events_fired", "wall_s")} for s in sums],
        "programs": 10, "call_outs_per_program": ctx.pick(3, 4),
    }
    return vf.finish(ctx, "exploration", cov, assumptions=[
        "the correctness of stack maps, funcdata and write barriers is observed only through survival and result integrity under the forced "
        "schedules; the TLA+ model states the obligation and supplies the schedule space, it is not a proof about machine code",
        "events are forced at call-outs to user callbacks (the places where generated frames are live on the stack while arbitrary Go code "
        "runs); inside generated code the loader declares unsafe points, so preemption cannot be scheduled there; asynchronous pressure "
        "(GOGC=1, forced collections, profiler signals) covers the call-outs to the runtime itself (allocation, map assign, growslice)",
        "SONIC_SYNC_GC (a collection after every decoder opcode) is not used: it prints to stdout per opcode",
        "eight fixed codec programs (struct / slice / map / interface destinations and sources, TextMarshaler map keys)",
    ])
