"""C11 - the alternative decoder implementation (optdec, with and without fastmap) is observably equivalent.

Specification: spec/Bind.tla does not mention the implementation: it is a deterministic function of
(type, document, prior value, options), so the default decoder and the alternative one can only
both conform to it by producing the same observable result.  The bounded universe of GenBind
(the C01 families plus the option family) is replayed in three processes - default,
SONIC_USE_OPTDEC=1, SONIC_USE_OPTDEC=1 SONIC_USE_FASTMAP=1 - with identical seeds; every case's
observations (error or not, decoded value, for both entry points) are hashed, and every case whose
digest differs from the default decoder's is replayed again in both environments with its
observation log and reported.  Independently, a document on which the specification requires an
error and the alternative decoder returns none is reported ("both reject every malformed
document"), as is any crash of a worker process.
"""
import json
import os

from .. import vf
from . import bindcommon, envdiff

ENVS = ("SONIC_USE_OPTDEC=1", "SONIC_USE_OPTDEC=1,SONIC_USE_FASTMAP=1")
FAMS = ("bounds", "ifptr", "leaf", "mapkeys", "bigst", "rec", "deepst", "wrap1", "st1l", "st1w", "st2", "emb", "opts", "wrap2")


def details(ctx, dumps, ids, env, name):
    idf = os.path.join(ctx.work, "%s.ids" % name)
    open(idf, "w").write("\n".join(str(i) for i in ids))
    out = os.path.join(ctx.work, "%s.ndjson" % name)
    args = ["bind", "-dump", dumps, "-seed", ctx.seed, "-only", idf, "-detail", out, "-out", os.path.join(ctx.work, name + ".sum")]
    if env:
        args += ["-env", env]
    vf.vh(ctx, args, timeout=3600)
    return {int(r["sig"]): r for r in vf.read_ndjson(out)}


def check(ctx):
    vf.build_harness(ctx)
    known = vf.load_known(ctx.prop)
    plan = bindcommon.plan_for(ctx, FAMS)
    all_rs, per_env = [], {e: {"cases": 0, "different": 0, "evals": 0} for e in ENVS}
    cases = evals = 0
    samples = []
    per_round = 14
    for ri in range(0, len(plan), per_round):
        rs = bindcommon.gen(ctx, plan[ri:ri + per_round])
        sums = bindcommon.replay(ctx, rs, envs=(None,) + ENVS, name="bind-r%d" % (ri // per_round))
        dumps = ",".join(r["dump"] for r in rs)
        base = sums[0]
        cases += base["cases"]
        evals += base["evals"]
        samples += (base.get("samples") or [])[:2]
        for s in sums:
            for c in s.get("crashes") or []:
                if c.startswith("unconfirmed"):
                    ctx.notes.append(c[:300])
                else:
                    rec = {"kind": "crash", "detail": c[:3000], "env": s.get("env")}
                    fid = vf.match_known(known, rec)
                    if fid:
                        ctx.known_hits[fid] = ctx.known_hits.get(fid, 0) + 1
                    else:
                        vf.violation(ctx, "decoder worker died under %s: %s" % (s.get("env") or "default", c[:200]), rec)
        for s in sums[1:]:
            env = s["env"]
            per_env[env]["cases"] += s["cases"]
            per_env[env]["evals"] += s["evals"]
            # (1) malformed documents must be rejected by the alternative decoder too
            for b in s.get("bad") or []:
                if b["kind"] in ("error_required", "panic", "error_not_wellformed"):
                    b = dict(b, env=env)
                    fid = vf.match_known(known, b)
                    if fid:
                        ctx.known_hits[fid] = ctx.known_hits.get(fid, 0) + 1
                    else:
                        vf.violation(ctx, "alternative decoder (%s) %s: %s <- %s: %s" % (env, b["kind"], b["type"], b["text"], b["got"][:200]), b)
            # (2) every observable difference from the default decoder
            a, b_ = envdiff.load(base["digests"]), envdiff.load(s["digests"])
            ids = sorted(set(a) & set(b_))
            diff = [i for i in ids if a[i] != b_[i]]
            per_env[env]["different"] += len(diff)
            if diff:
                sample = diff if len(diff) <= 20000 else diff[:: len(diff) // 20000 + 1]   # every differing case is examined (a stride only beyond 20000)
                tag = env.replace("=", "").replace(",", "_")
                d0 = details(ctx, dumps, sample, None, "det-r%d-default-%s" % (ri, tag))
                d1 = details(ctx, dumps, sample, env, "det-r%d-%s" % (ri, tag))
                seen = {}
                for i in sample:
                    x, y = d0.get(i), d1.get(i)
                    if not x or not y or x["got"] == y["got"]:
                        continue
                    rec = {"kind": "env_difference", "env": env, "type": x["type"], "doc": x["doc"], "text": x["text"], "old": x["old"], "opts": x["opts"],
                           "feat": x["feat"], "spec": x["want"], "default": x["got"], "alternative": y["got"],
                           "soft": "soft=true" in x["want"]}
                    rec["default_err"] = x["got"].startswith("0 false")
                    rec["alt_err"] = y["got"].startswith("0 false")
                    rec["spec_hard"] = "hard=true" in x["want"]
                    # the part of the difference that lies in the escaped-key text plan (observations marked "esc")
                    xi, yi = x["got"].split(" ; "), y["got"].split(" ; ")
                    rec["esc_only"] = [o for o in xi if not o.startswith("esc")] == [o for o in yi if not o.startswith("esc")]
                    rec["default_esc_err"] = any(o.startswith("esc") and " false" in o[:12] for o in xi)
                    rec["alt_esc_err"] = any(o.startswith("esc") and " false" in o[:12] for o in yi)
                    fid = vf.match_known(known, rec)
                    if fid:
                        ctx.known_hits[fid] = ctx.known_hits.get(fid, 0) + 1
                        continue
                    key = (rec["type"], rec["doc"])
                    if key in seen:
                        continue
                    seen[key] = 1
                    vf.violation(ctx, "decoders differ under %s: %s <- %s (%s, prior %s): default %s | alternative %s" % (
                        env, rec["type"], rec["text"], rec["opts"], rec["old"], rec["default"][:160], rec["alternative"][:160]), rec)
        for r in rs:
            os.remove(r["dump"])
            r.pop("out", None)
        all_rs += rs
    cov = {
        "states": sum(r["distinct"] for r in all_rs),
        "transitions": sum(r["generated"] for r in all_rs),
        "traces_validated_against_impl": cases * (1 + len(ENVS)),
        "evaluations": (evals + sum(v["evals"] for v in per_env.values())) * 2,
        "distinct_nontrivial": cases,
        "rule": "case = one initial state of GenBind (type, document, prior destination, configuration), replayed with the same seed under the "
                "default decoder and under each alternative environment; compared by a digest over (error or not, decoded value) for "
                "Unmarshal and UnmarshalFromString in two spellings",
        "samples": samples[:5],
        "per_env": per_env,
        "exhaustive": not ctx.quick,
    }
    return vf.finish(ctx, "model_checking", cov, assumptions=[
        "the bounded universe of C01 (types, documents, configurations); the decoded value is compared through its deterministic rendering",
        "error texts and error types are not compared (the two implementations use different error types by design), only error-or-not",
        "every differing case is replayed with details (a stride only beyond 20000 per environment and round)",
    ])
