"""C12 - the interpreter (VM) encoder is observably equivalent to the JIT encoder.

Specification: spec/Emit.tla is one function of (type, value, addressability, options) and does not
mention the back end: two back ends can both conform only by returning the same bytes or both an
error.  The encoding universe of GenEmit (with sampled option sets) is replayed in two processes,
default (JIT) and SONIC_ENCODER_USE_VM=1, with identical seeds; every case's observation (error
or not, output bytes) is hashed and every case whose digest differs is replayed again in both
environments with its observation log and reported.  Conformance of the VM back end to the
specification is judged as for C03/C04 in the VM process as well (a crash of a worker is reported).
"""
import os

from .. import vf
from . import bindcommon, emitcommon, envdiff

ENV = "SONIC_ENCODER_USE_VM=1"


def details(ctx, dumps, ids, env, name):
    idf = os.path.join(ctx.work, "%s.ids" % name)
    open(idf, "w").write("\n".join(str(i) for i in ids))
    out = os.path.join(ctx.work, "%s.ndjson" % name)
    args = ["emit", "-dump", dumps, "-seed", ctx.seed, "-only", idf, "-detail", out, "-out", os.path.join(ctx.work, name + ".sum")]
    if env:
        args += ["-env", env]
    vf.vh(ctx, args, timeout=3600)
    return {int(r["sig"]): r for r in vf.read_ndjson(out)}


def check(ctx):
    vf.build_harness(ctx)
    known = vf.load_known(ctx.prop)
    plan = emitcommon.plan_for(ctx)
    stats = {"cases": 0, "different": 0}

    def on_round(rs, sums, ri):
        base, alt = sums[0], sums[1]
        dumps = ",".join(r["dump"] for r in rs)
        a, b = envdiff.load(base["digests"]), envdiff.load(alt["digests"])
        ids = sorted(set(a) & set(b))
        diff = [i for i in ids if a[i] != b[i]]
        stats["cases"] += len(ids)
        stats["different"] += len(diff)
        if not diff:
            return
        sample = diff if len(diff) <= 20000 else diff[:: len(diff) // 20000 + 1]   # every differing case is examined (a stride only beyond 20000)
        d0 = details(ctx, dumps, sample, None, "det-r%d-jit" % ri)
        d1 = details(ctx, dumps, sample, ENV, "det-r%d-vm" % ri)
        seen = set()
        for i in sample:
            x, y = d0.get(i), d1.get(i)
            if not x or not y or x["got"] == y["got"]:
                continue
            rec = {"kind": "env_difference", "env": ENV, "type": x["type"], "val": x["val"], "top": x["top"], "opts": x["opts"], "feat": x["feat"],
                   "spec": x["want"], "jit": x["got"], "vm": y["got"]}
            fid = vf.match_known(known, rec)
            if fid:
                ctx.known_hits[fid] = ctx.known_hits.get(fid, 0) + 1
                continue
            key = (rec["type"], rec["val"], rec["opts"])
            if key in seen:
                continue
            seen.add(key)
            vf.violation(ctx, "encoder back ends differ: %s value %s (by %s, options %s): JIT %s | VM %s" % (
                rec["type"], rec["val"], rec["top"], rec["opts"] or "-", rec["jit"][:160], rec["vm"][:160]), rec)

    rs, sums = emitcommon.run_rounds(ctx, plan, ctx.pick(2, 4), envs=(None, ENV), on_round=on_round)
    vm_sums = [s for s in sums if s.get("env")]
    # the VM back end against the specification (known deviations shared with the JIT are the same findings)
    emitcommon.judge(ctx, vm_sums, ("panic", "error_required", "valid_rejected", "text_differs", "malformed_output"), what="Marshal (VM)")
    for s in sums:
        if not s.get("env"):
            for c in s.get("crashes") or []:
                if not c.startswith("unconfirmed"):
                    vf.violation(ctx, "JIT worker died: %s" % c[:200], {"kind": "crash", "detail": c[:3000]})
    cov = emitcommon.coverage(ctx, rs, [s for s in sums if not s.get("env")], plan, {
        "compared_cases": stats["cases"], "different": stats["different"],
        "rule": "case = one initial state of GenEmit, replayed with the same seed under the JIT and under SONIC_ENCODER_USE_VM=1; compared by a "
                "digest over (error or not, output bytes); all cases encode a value, so all are non-trivial"})
    cov["traces_validated_against_impl"] = stats["cases"] * 2
    return vf.finish(ctx, "model_checking", cov, assumptions=[
        "the bounded encoding universe of C03/C04 with sampled option sets; outputs of unsorted maps are compared as produced (each process "
        "iterates its own map, so cases with unsorted multi-key maps can differ in order: the digest of such cases uses the sorted form)",
        "error texts are not compared, only error-or-not and the bytes",
    ])
