"""C13 - SIMD level does not change any result (AVX2 vs SSE).

The byte-level universes generated from the specification (GenLex: every consuming API; GenStr:
quote / unquote / HTML escape / UTF-8; GenNum: number conversion and printing; GenSearch: lookups,
views, Preorder) are replayed with SONIC_MODE unset and with SONIC_MODE=noavx2, with identical
seeds and concretisations (lengths and paddings around 16/32/64); every observation of every case
(accept/reject, values, output bytes, error texts and positions) is hashed per case and the two
digests must be equal. The encoder's emitting sites (spec/EncBuf.tla: every zoo value
at every buffer capacity, through EncodeInto) are run under both instruction sets as well. The specification contributes the input sets, the alignment/length
concretisation and the definition both variants must meet (checked by C02/C20/C19/C14).
"""
from .. import vf
from . import lexcommon, strcommon, numcommon, searchcommon, envdiff

ENV = "SONIC_MODE=noavx2"


def check(ctx):
    known = vf.load_known(ctx.prop)
    total = different = 0
    states = trans = evals = 0
    samples = []
    per = []
    cfgs = lexcommon.configs(ctx)
    lex = lexcommon.run_lex(ctx, cfgs, envs=[None, [ENV]])
    by_cfg = {}
    for s in lex:
        by_cfg.setdefault(s["cfg"], {})["env" if s.get("env") else "base"] = s
    for name, pair in by_cfg.items():
        n, d = envdiff.compare(ctx, "lex", pair["base"]["digests"], pair["env"]["digests"], ENV, known, "SIMD level")
        total += n
        different += d
        states += pair["base"]["tlc"]["distinct"]
        trans += pair["base"]["tlc"]["generated"]
        evals += pair["base"]["evals"] + pair["env"]["evals"]
        samples.extend(pair["base"].get("samples") or [])
        per.append({"universe": "lex/" + name, "cases": n, "different": d})
    for uni, mod in (("str", strcommon), ("num", numcommon), ("search", searchcommon)):
        sums = mod.run(ctx, envs=(None, ENV))
        groups = {}
        for s in sums:
            groups.setdefault(s.get("fam", uni), {})["env" if s.get("env") else "base"] = s
        for name, pair in groups.items():
            n, d = envdiff.compare(ctx, uni, pair["base"]["digests"], pair["env"]["digests"], ENV, known, "SIMD level")
            total += n
            different += d
            states += pair["base"]["tlc"]["distinct"]
            trans += pair["base"]["tlc"]["generated"]
            evals += pair["base"]["evals"] + pair["env"]["evals"]
            samples.extend((pair["base"].get("samples") or [])[:1])
            per.append({"universe": uni + "/" + str(name), "cases": n, "different": d})
    # the encoder's emitting sites at every buffer capacity (spec/EncBuf.tla; vh encbuf): the generated code picks native routines
    # and their modes by instruction set (base64, quoting), and a growth of the buffer in the middle of a value is where it
    # re-derives its registers. Expected bytes come from encoding/json; what C13 requires is that both instruction sets agree.
    import json as _json, os as _os
    eb = {}
    for tag, env in (("base", None), ("env", dict([ENV.split("=")]))):
        f = _os.path.join(ctx.work, "encbuf-%s.json" % tag)
        vf.vh(ctx, ["encbuf", "-out", f, "-seed", ctx.seed, "-encbufmax", ctx.pick(400, 4000)], timeout=3000, env=env)
        eb[tag] = _json.load(open(f))
    bsig, esig = eb["base"].get("bad_by_sig") or {}, eb["env"].get("bad_by_sig") or {}
    bdet = {b["detail"] for b in eb["base"].get("bad") or []}
    ebdiff = 0
    if bsig != esig or len(eb["base"].get("crashes") or []) != len(eb["env"].get("crashes") or []):
        ebdiff = 1
        only = [b for b in (eb["env"].get("bad") or []) if b["detail"] not in bdet] or [b for b in (eb["base"].get("bad") or [])]
        rec = {"kind": "encbuf_env_difference", "env": ENV, "base_bad_by_sig": bsig, "env_bad_by_sig": esig,
               "first": only[:3], "crashes_base": (eb["base"].get("crashes") or [])[:2], "crashes_env": (eb["env"].get("crashes") or [])[:2]}
        vf.violation(ctx, "EncodeInto over the emitting-site zoo differs between instruction sets (%s): %s" % (
            ENV, (only[0]["detail"] if only else "crash counts differ")[:200]), rec)
    total += eb["base"]["encbuf_cases"]
    different += ebdiff
    evals += eb["base"]["evals"] + eb["env"]["evals"]
    per.append({"universe": "encbuf", "cases": eb["base"]["encbuf_cases"], "different": ebdiff})
    cov = {
        "evaluations": evals,
        "distinct_nontrivial": total,
        "rule": "case = one state of GenLex / GenStr / GenNum / GenSearch (and one (value, capacity, prefix) of the EncBuf zoo), replayed with the same seed under both instruction sets; a case "
                "counts once; compared by a digest over all observations (results, outputs, error texts, positions)",
        "samples": samples[:6],
        "states": states,
        "transitions": trans,
        "traces_validated_against_impl": total,
        "different": different,
        "per_universe": per,
    }
    return vf.finish(ctx, "exploration", cov, assumptions=[
        "this host supports AVX2, so the default run uses the AVX2 routines and SONIC_MODE=noavx2 the SSE ones",
        "native entry points are reached through the public APIs of the four universes; routines no public API of these universes reaches are not compared",
        "digests collide with negligible probability (64-bit FNV over the observation text)",
    ])
