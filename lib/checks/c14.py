"""C14 - AST search and read-only views return exactly the addressed value.

Specification: spec/Search.tla over AstTree values: Lookup(J, path, flavour) (first occurrence of a
duplicated key; sonic.Get flavour vs Node flavour for index steps on objects), the views of a
located value, and the Preorder event sequence. TLC checks flavour agreement, consistency, identity
of the empty path and the event count, and enumerates every (document, path) pair of the bound.

Binding: each pair replayed through sonic.Get / GetFromString / GetCopyFromString / GetWithOptions
(all 8 option sets) / Searcher.GetByPath and through Node.GetByPath and step-by-step Index/Get from
NewRaw, NewRawConcurrentRead and loaded roots, with blank plans, escaped key spellings and scaled
string values; every view (Raw, Interface, InterfaceUseNumber, typed accessors, Map/Array,
iterators, ForEach, Len) compared with the specification; Preorder events compared for every
document; a token-streaming first-occurrence lookup over encoding/json is the second oracle.
Typed accessors: spec/AstCast.tla gives Cast(value, accessor) for every scalar class (number texts with the facts strconv
states about them, strings that are / are not number or boolean texts, literals, containers); every state replayed on the
value as located by each search entry point and option set, as a lazily reached child, after loading, after other reads.
"""
from .. import vf
from . import searchcommon
from . import castcommon


def check(ctx):
    sums = searchcommon.run(ctx)
    searchcommon.judge(ctx, sums)
    # the typed accessors of located values (spec/AstCast.tla; Len and wrapped Go values are C15's)
    cast = castcommon.run(ctx, "json", skipacc="Len")
    castcommon.judge(ctx, cast)
    s = sums[0]
    cov = {
        "states": s["tlc"]["distinct"] + cast["tlc"]["distinct"],
        "transitions": s["tlc"]["generated"],
        "traces_validated_against_impl": s["cases"],
        "evaluations": s["evals"] + cast["evals"],
        "distinct_nontrivial": s["distinct_nontrivial"],
        "rule": "GenSearch state = (document, path) with both lookup results and the views; replayed under 4 text plans x 12 search entry "
                "points / option sets + 6 node routes; non-trivial = non-empty path",
        "samples": (s.get("samples") or [])[:5],
        "exhaustive": True,
        "oracle_disagreements": s["oracle_disagreements"] + cast["oracle_disagreements"],
        "typed_accessors": castcommon.coverage(cast),
    }
    return vf.finish(ctx, "model_checking", cov, assumptions=[
        "documents are the finite set of spec/GenSearch.tla (depth <= 3, duplicate keys, empty keys); paths up to the bound over indexes -1..3 "
        "and keys a, b, z, empty",
        "negative indexes are outside the domain of sonic.Get and friends (documented panic) and are only used on Node.Index / GetByPath",
        "Raw is compared as a token sequence (blanks and escape spelling of the source may remain)",
    ])
