"""C15 - ast.Node behaves like a plain ordered tree; lazy loading is unobservable.

Specification: spec/AstTree.tla (the plain tree and every Node operation as a pure function),
spec/AstNode.tla (implementation-shaped container: raw/lazy/loaded, tombstones, l, key index;
TLC checks it refines AstTree), spec/GenAst.tla (operation sequences with required observations),
spec/trace/TraceAst.tla (monitor for recorded sequences, with named deviations), spec/AstCast.tla (the typed
accessors - Bool/Int64/Float64/Number/String, their Strict forms, Len, Type - as one function of the value a node
denotes; TLC checks coherence between JSON values and wrapped Go values, and that the as-built variants violate it).

Binding: (a) every GenAst behaviour replayed on real nodes created seven ways; (b) seeded long
sequences on documents crossing the 16-slot / 16-pair thresholds recorded (with hook H4) and
validated by TLC; (c) every AstCast state replayed on nodes denoting the value in every representation (raw, lazily
located, loaded, constructed, decoded, put into a tree and read back, wrapped by NewAny / SetAny / AddAny / SetAnyByIndex
with every Go kind holding the value), before and after other reads of the same node.
"""
import json
import os
import re

from .. import vf
from . import castcommon


def refinement(ctx):
    r = vf.tlc(ctx, "MCAstNode", "mc/AstNode.cfg", name="astnode", defines={"ASBUILT": '{}', "MAXOPS": ctx.pick(5, 9)}, timeout=3000)
    if not r["ok"]:
        raise vf.Inconclusive("AstNode does not refine AstTree in the model: %s" % r["violated"])
    # the generator's own invariants (sorting idempotent, paths resolve) on a small configuration
    r2 = vf.tlc(ctx, "GenAst", "mc/GenAst.cfg", name="genast-self", defines={"MAXOPS": 1, "PATHDEPTH": 1, "DOCSET": "small", "OPSET": "core"},
                timeout=1200, workers=4)
    if not r2["ok"]:
        raise vf.Inconclusive("GenAst invariants fail: %s" % r2["violated"])
    return [r, r2]


def replay(ctx):
    plans = [(2, 0, "all", "all"), (1, 1, "all", "all")] if ctx.quick else \
            [(2, 0, "all", "all"), (2, 1, "all", "core"), (3, 0, "small", "core")]
    out = []
    for i, (mo, pd, ds, os_) in enumerate(plans):
        r = vf.tlc(ctx, "GenAst", "mc/GenAst_noinv.cfg", name="genast%d" % i, dump="states",
                   defines={"MAXOPS": mo, "PATHDEPTH": pd, "DOCSET": ds, "OPSET": os_}, timeout=3000, workers=max(2, vf.NPROC // 2))
        if not r["ok"]:
            raise vf.Inconclusive("GenAst generation failed")
        sfile = os.path.join(ctx.work, "ast%d.json" % i)
        vf.vh(ctx, ["ast", "-dump", r["dump"], "-out", sfile, "-seed", ctx.seed], timeout=3000)
        s = json.load(open(sfile))
        s["tlc"] = {"distinct": r["distinct"], "generated": r["generated"]}
        s["constants"] = {"MaxOps": mo, "PathDepth": pd, "DocSet": ds, "OpSet": os_}
        os.remove(r["dump"])
        out.append(s)
    return out


def traces(ctx, known):
    tfile = os.path.join(ctx.work, "asttrace.ndjson")
    rc, out, _ = vf.vh(ctx, ["astrec", "-out", tfile, "-seed", ctx.seed, "-n", ctx.pick(500, 8000), "-ops", ctx.pick(40, 60)], timeout=1200)
    info = json.loads(out.strip().splitlines()[-1])
    allowed = sorted({f["deviation"] for f in known if f.get("deviation")})
    r = vf.tlc(ctx, "MCTraceAst", "trace/TraceAst.cfg", name="traceast", workers=1, files={tfile: "trace.ndjson"},
               defines={"ALLOWED": "{" + ", ".join('"%s"' % a for a in allowed) + "}"}, timeout=3000)
    o = r["out"]
    if r["rc"] != 0 or '"REJECTED"' not in o or '"DEVIATIONS"' not in o:
        raise vf.Inconclusive("trace validation did not complete:\n" + o[-2000:])
    i = o.index('"REJECTED"')
    j = o.index('"DEVIATIONS"')
    rej = re.findall(r'<<(\d+), (\d+), "((?:[^"\\]|\\.)*)">>', o[i:j])
    devs = re.findall(r'<<(\d+), "([A-Za-z_]+)">>', o[j:j + 2000000])
    lines = open(tfile).read().split("\n")
    by_dev = {}
    for tid, d in devs:
        by_dev[d] = by_dev.get(d, 0) + 1
    for d, n in by_dev.items():
        for f in known:
            if f.get("deviation") == d:
                ctx.known_hits[f["id"]] = ctx.known_hits.get(f["id"], 0) + n
    for tid, l, want in rej:
        l = int(l)
        b = l - 1
        while b > 0 and '"ev":"begin"' not in lines[b]:
            b -= 1
        rec = {"kind": "trace_rejected", "trace_id": int(tid), "line": l, "required_observation": want,
               "begin": json.loads(lines[b]), "events": [json.loads(x) for x in lines[b + 1:l]][-60:], "seed": ctx.seed}
        vf.violation(ctx, "recorded ast.Node trace %s: step at line %d observed %s, the tree requires %s" % (
            tid, l, json.loads(lines[l - 1]).get("obs", json.loads(lines[l - 1]).get("text", ""))[:80], want[:80]), rec)
    return {"traces": info["traces"], "ops": info["ops"], "rejected": len(rej), "deviations": by_dev, "tlc_wall_s": r["wall_s"],
            "allowed_deviations": allowed}


def check(ctx):
    vf.build_harness(ctx)
    known = vf.load_known(ctx.prop)
    mc, rep, tr, cast = vf.parallel([lambda: refinement(ctx), lambda: replay(ctx), lambda: traces(ctx, known), lambda: castcommon.run(ctx, "all")],
                                    nthreads=2)
    castcommon.judge(ctx, cast)
    for s in rep:
        for c in s.get("crashes") or []:
            if c.startswith("unconfirmed"):
                ctx.notes.append(c[:300])
            else:
                vf.violation(ctx, "ast worker died: " + c[:200], {"kind": "crash", "detail": c[:3000]})
        recs = {}
        for b in s.get("bad") or []:
            recs.setdefault(bad_key(b), b)
        for key, n in (s.get("bad_by_sig") or {}).items():
            b = recs.get(key)
            if b is None:
                vf.violation(ctx, "ast replay disagreement " + key, {"key": key})
                continue
            fid = vf.match_known(known, b)
            if fid:
                ctx.known_hits[fid] = ctx.known_hits.get(fid, 0) + n
            else:
                vf.violation(ctx, "ast.Node(%s) %s at step %d: %s want %s got %s (doc %s, ops %s)" % (
                    b["mode"], b["kind"], b["step"], b["op"], b["want"][:80], b["got"][:80], b["doc"][:80], b["seq"]), b)
    samples = []
    for s in rep:
        samples.extend(s.get("samples") or [])
    cov = {
        "states": sum(r["distinct"] for r in mc) + sum(s["tlc"]["distinct"] for s in rep) + cast["tlc"]["distinct"],
        "transitions": sum(r["generated"] for r in mc) + sum(s["tlc"]["generated"] for s in rep),
        "traces_validated_against_impl": tr["traces"],
        "evaluations": sum(s["evals"] for s in rep) + tr["ops"] + cast["evals"],
        "distinct_nontrivial": sum(s["distinct_nontrivial"] for s in rep),
        "rule": "GenAst state = (document, operation sequence with paths, required observations, final tree); each replayed on nodes "
                "created by NewRaw, NewRawConcurrentRead, GetFromString, UnmarshalJSON, sonic.Unmarshal, constructors and NewRaw+LoadAll, "
                "with and without blanks, value arguments raw or constructed; non-trivial = at least one operation",
        "samples": samples[:6],
        "exhaustive": True,
        "model_check": [{"cfg": r["name"], "distinct": r["distinct"], "generated": r["generated"], "wall_s": r["wall_s"]} for r in mc],
        "replay": [{k: s[k] for k in ("constants", "tlc", "cases", "evals", "wall_s")} for s in rep],
        "trace_validation": tr,
        "typed_accessors": castcommon.coverage(cast),
    }
    return vf.finish(ctx, "model_checking", cov, assumptions=[
        "documents and operation alphabets of the exhaustive part are the finite sets in spec/GenAst.tla; larger documents (up to 40 children, "
        "nesting 3, duplicate keys) only through seeded traces",
        "index threshold scaled to 2 and children scalar in the representation model (AstNode); the real constants are crossed by the traces",
        "keys are taken from the finite KeyUniverse of AstTree (TLA+ has no order on strings)",
        "Node.UnmarshalJSON is handed exact value bytes, as a decoder does",
    ])


def bad_key(b):
    s = b["sig"]

    def cls(x):
        if x in ("NX", "ERR", "T", "F", "OK", "ANYERR"):
            return x
        if x.startswith("PANIC"):
            return "PANIC"
        if x.startswith("TARGET-"):
            return "TARGET"
        if x and x[0].isdigit() and len(x) <= 2:
            return "int"
        return "text"
    return (b["kind"] + "|" + s.get("op", "") + "|lenrel=" + s.get("len_rel", "") + "|lendev=" + s.get("len_dev", "") + "|neg=" + s.get("negidx", "") +
            "|mut=" + s.get("after_mutation", "") + "|lazy=" + s.get("lazy_start", "") + "|dup=" + s.get("dupkeys", "") +
            "|want=" + cls(b["want"]) + "|got=" + cls(b["got"]))
