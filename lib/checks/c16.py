"""C16 - nodes declared concurrently readable really are.

Specification: spec/AstConc.tla (the raw -> parsed conversion against concurrent readers, with the
code's atomic steps and its RWMutex; TLC checks no torn (p, l) pair, sequential results, no
unsynchronised conflicting accesses, mutual exclusion, termination).

Binding: every complete path of the model (2 goroutines; a seeded sample for 3) is a schedule
that the harness replays on real nodes with goroutines gated at the library's instrumentation
points (hooks H0/H4), in a -race build: results must equal the sequential run and the race
detector must stay silent; plus ungated stress rounds under -race.
"""
import json
import os
import re

from .. import vf

OPS = '{"get","raw","marshal"}'


def check(ctx):
    exe = vf.build_harness(ctx, race=True)
    known = vf.load_known(ctx.prop)
    runs = []
    sums = []
    races = []
    plans = [("{1,2}", 1, 0)] + ([("{1,2,3}", 97, 4000)] if ctx.quick else [("{1,2,3}", 7, 60000)])
    for i, (procs, stride, limit) in enumerate(plans):
        r = vf.tlc(ctx, "AstConc", "mc/AstConc.cfg", name="astconc-mc%d" % i, defines={"PROCS": procs, "OPS": OPS, "FPL": "TRUE"}, timeout=1800)
        if not r["ok"]:
            raise vf.Inconclusive("AstConc violates %s in the model" % r["violated"])
        runs.append(r)
        g = vf.tlc(ctx, "AstConc", "mc/AstConc_gen.cfg", name="astconc-gen%d" % i, dump="states",
                   defines={"PROCS": procs, "OPS": OPS, "FPL": "TRUE"}, timeout=1800)
        sfile = os.path.join(ctx.work, "conc%d.json" % i)
        rc, out, wall = vf.run([exe, "astconc", "-dump", g["dump"], "-out", sfile, "-seed", str(ctx.seed), "-stride", str(stride),
                                "-limit", str(limit), "-stress", str(ctx.pick(100, 2000) if i == 0 else 0)],
                               2400, env={"GORACE": "halt_on_error=0 exitcode=0", "VERIF_SEED": str(ctx.seed)})
        if rc != 0 or not os.path.exists(sfile):
            raise vf.Inconclusive("astconc replay failed rc=%d:\n%s" % (rc, out[-3000:]))
        s = json.load(open(sfile))
        s["procs"] = procs
        s["tlc"] = {"distinct": g["distinct"], "generated": g["generated"]}
        sums.append(s)
        os.remove(g["dump"])
        for block in out.split("==================\n"):
            if "WARNING: DATA RACE" in block and "github.com/bytedance/sonic/" in block:
                races.append(block[:3000])
    for s in sums:
        for b in s.get("bad") or []:
            fid = vf.match_known(known, b)
            if fid:
                ctx.known_hits[fid] = ctx.known_hits.get(fid, 0) + 1
            else:
                vf.violation(ctx, "concurrent read %s: ops %s schedule %s want %s got %s" % (b["kind"], b["ops"], b.get("sched"), b.get("want"), b.get("got")), b)
    seen = set()
    for blk in races:
        frames = re.findall(r"github\.com/bytedance/sonic/[\w/\.\(\)\*]+", blk)
        key = "|".join(frames[:4])
        if key in seen:
            continue
        seen.add(key)
        rec = {"kind": "data_race", "frames": frames[:12], "report": blk}
        fid = vf.match_known(known, rec)
        if fid:
            ctx.known_hits[fid] = ctx.known_hits.get(fid, 0) + 1
        else:
            vf.violation(ctx, "data race reported by the race detector: " + " <-> ".join(frames[:2]), rec)
    samples = []
    for s in sums:
        samples.extend(s.get("samples") or [])
    cov = {
        "states": sum(r["distinct"] for r in runs),
        "transitions": sum(r["generated"] for r in runs),
        "traces_validated_against_impl": sum(s["schedules"] for s in sums),
        "evaluations": sum(s["evals"] for s in sums),
        "distinct_nontrivial": sum(s["schedules"] for s in sums),
        "rule": "a schedule is a complete path of AstConc (every goroutine finished); all of them for 2 goroutines, a seeded stride "
                "sample for 3; each is replayed with gated goroutines on NewRawConcurrentRead / GetWithOptions(ConcurrentRead) nodes "
                "in a -race build; every schedule interleaves at least two operations, so all are non-trivial",
        "samples": samples[:6],
        "race_reports": len(races),
        "replay": [{k: s[k] for k in ("procs", "tlc", "schedules", "evals", "blocked_steps", "stress_runs", "wall_s")} for s in sums],
        "model_check": [{"cfg": r["name"], "distinct": r["distinct"], "generated": r["generated"], "wall_s": r["wall_s"]} for r in runs],
    }
    return vf.finish(ctx, "model_checking", cov, assumptions=[
        "one shared node (its children get their own mutexes and are exercised through the read operations, not scheduled separately)",
        "a step that the real code cannot be paused at (no instrumentation point) runs together with the next gated step",
        "the Go race detector is trusted for the no-data-race half; it reports races that occur in the executed schedules",
    ])
