"""C17 - stream decoding is independent of chunking; the stream encoder delivers Marshal's bytes.

Specification: spec/Stream.tla (required result Ref(D, endk) over JsonLex's validator in stream
mode), spec/StreamImpl.tla (implementation-shaped model of stream.go against an adversarial
Reader; TLC checks it refines Ref for every chunking), spec/StreamEnc.tla (encoder and failing
Writer), spec/trace/TraceStream.tla (monitor for recorded executions).

Binding: (a) every stream of GenStream replayed on the real decoder under every chunking /
EOF delivery / empty reads / reader fault, three-way with encoding/json.Decoder;
(a') the same streams decoded value by value by the positional decoder.Decoder (spec/DecObj.tla):
values, Pos() after each value (encoding/json.Decoder.InputOffset is the agreement oracle),
CheckTrailings() before / after each value, failure when no complete value follows, Reset;
(b) StreamEnc cases replayed with a failing Writer at every position;
(c) seeded long streams around the 4096-byte buffer recorded and validated by TLC.
"""
import json
import os
import re

from .. import vf

A_QUICK = '{"d1","mi","sp","ls","rs","cm","qt","x","t","r","u","le","lb","rb","cl"}'
A_IMPL = '{"d1","mi","sp","ls","rs","cm","qt","x"}'
A_IMPL_T = '{"d1","mi","sp","ls","rs","cm","qt","x","t","le"}'


def model_check(ctx):
    runs = []
    # implementation-shaped decoder refines Ref under every Reader schedule
    cfgs = [(A_IMPL, ctx.pick(3, 5), 1)] if ctx.quick else [(A_IMPL, 5, 1), (A_IMPL_T, 4, 2)]
    for i, (alpha, maxlen, maxempty) in enumerate(cfgs):
        r = vf.tlc(ctx, "MCStreamImpl", "mc/StreamImpl.cfg", name="streamimpl%d" % i,
                   defines={"ALPHABET": alpha, "MAXLEN": maxlen, "MAXEMPTY": maxempty, "ASBUILT": "{}"}, timeout=3000)
        if not r["ok"]:
            raise vf.Inconclusive("StreamImpl does not refine Stream!Ref in the model (%s): the specification is inconsistent" % r["violated"])
        runs.append(r)
    # the positional decoder object: incremental decoding from Pos() = the values of the whole stream (spec/DecObj.tla)
    r = vf.tlc(ctx, "DecObj", "mc/DecObj.cfg", name="decobj",
               defines={"ALPHABET": A_IMPL, "MAXLEN": ctx.pick(3, 4), "MAXOPS": ctx.pick(3, 4)}, timeout=3000, workers=4)
    if not r["ok"]:
        raise vf.Inconclusive("DecObj does not agree with Stream!Ref in the model (%s): the specification is inconsistent" % r["violated"])
    runs.append(r)
    return runs


def replay_decoder(ctx):
    maxlen = ctx.pick(5, 6)
    out = []
    plans = [(A_QUICK, maxlen, True, 2)]
    if not ctx.quick:
        plans.append((A_QUICK, 7, False, 1))
    for i, (alpha, ml, full, m) in enumerate(plans):
        r = vf.tlc(ctx, "GenStream", "mc/GenStream.cfg", name="genstream%d" % i, dump="states",
                   defines={"ALPHABET": alpha, "MAXLEN": ml, "STRCAP": 2}, timeout=3000, workers=max(2, vf.NPROC // 2))
        if not r["ok"]:
            raise vf.Inconclusive("GenStream invariants fail: %s" % r["violated"])
        sfile = os.path.join(ctx.work, "stream%d.json" % i)
        vf.vh(ctx, ["stream", "-dump", r["dump"], "-out", sfile, "-seed", ctx.seed, "-m", m, "-full=%s" % ("true" if full else "false")], timeout=3000)
        s = json.load(open(sfile))
        s["tlc"] = {"distinct": r["distinct"], "generated": r["generated"]}
        s["constants"] = {"Alphabet": alpha, "MaxLen": ml, "all_chunkings": full}
        os.remove(r["dump"])
        out.append(s)
    return out


def replay_encoder(ctx):
    r = vf.tlc(ctx, "MCStreamEnc", "mc/StreamEnc.cfg", name="streamenc", dump="states",
               defines={"MAXL": ctx.pick(3, 5), "ASBUILT": "{}"}, timeout=600, workers=2)
    if not r["ok"]:
        raise vf.Inconclusive("StreamEnc model violates %s" % r["violated"])
    sfile = os.path.join(ctx.work, "streamenc.json")
    vf.vh(ctx, ["streamenc", "-dump", r["dump"], "-out", sfile], timeout=600)
    s = json.load(open(sfile))
    s["tlc"] = {"distinct": r["distinct"], "generated": r["generated"]}
    return s


def trace_validation(ctx):
    tfile = os.path.join(ctx.work, "trace.ndjson")
    rc, out, _ = vf.vh(ctx, ["streamrec", "-out", tfile, "-seed", ctx.seed, "-n", ctx.pick(400, 4000),
                             "-maxbytes", ctx.pick(300000, 3000000)], timeout=1200)
    info = json.loads(out.strip().splitlines()[-1])
    r = vf.tlc(ctx, "TraceStream", "trace/TraceStream.cfg", name="tracestream", workers=1,
               files={tfile: "trace.ndjson"}, timeout=3000)
    m = re.search(r'<<\s*"REJECTED",\s*\{([^}]*)\}\s*>>', r["out"], re.S)
    if not m or r["rc"] != 0:
        raise vf.Inconclusive("trace validation did not complete:\n" + r["out"][-2000:])
    rejected = set(int(x) for x in re.findall(r"\d+", m.group(1)))
    # map ids to traces
    begins = {}
    cur = None
    events = {}
    with open(tfile) as f:
        for line in f:
            if line.startswith('{"endk"') or '"ev":"begin"' in line[:200] or '"ev":"begin"' in line:
                e = json.loads(line)
                if e.get("ev") == "begin":
                    cur = e["id"]
                    begins[cur] = e
                    events[cur] = []
                    continue
            if cur in rejected or (cur is not None and (cur - 1) // 3 in {(x - 1) // 3 for x in rejected}):
                events[cur].append(line.strip())
    oracle = 0
    for rid in sorted(rejected):
        b = begins[rid]
        group = (rid - 1) // 3
        std_id = group * 3 + 1
        if std_id in rejected:
            oracle += 1 if rid == std_id else 0
            continue          # encoding/json itself does not conform: oracles disagree, case skipped
        rec = {"kind": "trace_rejected", "who": b["who"], "endk": b["endk"], "stream_classes": b["s"][:4000],
               "events": events.get(rid, [])[:400], "seed": ctx.seed, "stream_index": group,
               "how": "vh streamrec -seed %d ; trace id %d rejected by spec/trace/TraceStream.tla" % (ctx.seed, rid)}
        vf.violation(ctx, "recorded %s trace %d (stream %d of seed %d) is not a behaviour of Stream!Ref" % (b["who"], rid, group, ctx.seed), rec)
    return {"streams": info["streams"], "traces": info["traces"], "bytes": info["bytes"], "events": r["distinct"] - 1,
            "rejected": len(rejected), "oracle_disagreements": oracle, "tlc_wall_s": r["wall_s"]}


def check(ctx):
    vf.build_harness(ctx)
    known = vf.load_known(ctx.prop)
    mc, dec, enc, tr = vf.parallel([lambda: model_check(ctx), lambda: replay_decoder(ctx),
                                    lambda: replay_encoder(ctx), lambda: trace_validation(ctx)], nthreads=2)
    # decoder replay verdicts
    oracle = 0
    for s in dec:
        oracle += s["oracle_disagreements"]
        for c in s.get("crashes") or []:
            if c.startswith("unconfirmed"):
                ctx.notes.append(c[:300])
            else:
                vf.violation(ctx, "stream worker died: " + c[:200], {"kind": "crash", "detail": c[:3000]})
        recs = {}
        for b in s.get("bad") or []:
            recs.setdefault("|".join([b["cfg"], b["kind"], b["endk"], b["end"]]), b)
        for key, n in (s.get("bad_by_sig") or {}).items():
            b = recs.get(key) or {"cfg": key.split("|")[0], "kind": key.split("|")[1]}
            if b.get("kind") == "oracle_disagreement":
                continue
            fid = vf.match_known(known, b)
            if fid:
                ctx.known_hits[fid] = ctx.known_hits.get(fid, 0) + n
            else:
                vf.violation(ctx, "%s %s: input %s cuts %s expected %s got %s" % (
                    "decoder.Decoder" if b.get("cfg") == "decoder.Decoder" else "StreamDecoder(%s)" % b.get("cfg"),
                    b.get("kind"), b.get("text"), b.get("cuts"), b.get("expected"), b.get("got")), b)
    for b in enc.get("bad") or []:
        fid = vf.match_known(known, b)
        if fid:
            ctx.known_hits[fid] = ctx.known_hits.get(fid, 0) + 1
        else:
            vf.violation(ctx, "StreamEncoder %s: %s want %s got %s" % (b["kind"], b["case"], b["want"], b["got"]), b)
    samples = []
    for s in dec:
        samples.extend(s.get("samples") or [])
    samples.extend(enc.get("samples") or [])
    cov = {
        "states": sum(r["distinct"] for r in mc) + sum(s["tlc"]["distinct"] for s in dec) + enc["tlc"]["distinct"],
        "transitions": sum(r["generated"] for r in mc) + sum(s["tlc"]["generated"] for s in dec) + enc["tlc"]["generated"],
        "traces_validated_against_impl": tr["traces"],
        "evaluations": sum(s["evals"] for s in dec) + enc["evals"],
        "distinct_nontrivial": sum(s["distinct_nontrivial"] for s in dec),
        "rule": "GenStream state = one byte-class stream (error-free up to its last byte); each replayed under every composition of "
                "chunk boundaries x {EOF with last data, separately} x {empty reads} x {EOF, reader fault} x {ConfigStd, ConfigDefault}, "
                "and once value by value through decoder.Decoder (Decode / Pos / CheckTrailings / Reset); "
                "non-trivial = at least one value or more than one byte",
        "samples": samples[:8],
        "exhaustive": True,
        "oracle_disagreements": oracle + tr["oracle_disagreements"],
        "model_check": [{"cfg": r["name"], "distinct": r["distinct"], "generated": r["generated"], "wall_s": r["wall_s"]} for r in mc],
        "decoder_replay": [{k: s[k] for k in ("constants", "tlc", "cases", "evals", "oracle_disagreements", "kinds", "wall_s")} for s in dec],
        "encoder_replay": {k: enc[k] for k in ("cases", "evals", "kinds", "tlc")},
        "trace_validation": tr,
    }
    return vf.finish(ctx, "model_checking", cov, assumptions=[
        "stream length and alphabet bounded as stated in constants; longer streams only through seeded traces",
        "a Reader that has reported an error keeps reporting it (sticky reader), as encoding/json assumes too",
        "encoding/json.Decoder is the reference; cases on which it disagrees with Stream!Ref are skipped and counted",
        "Writers honour the io.Writer contract (a short write comes with an error)",
    ])
