"""C18 - each option has exactly its documented effect; entry points are equivalent.

Specification: spec/Options.tla - (1) the wiring Froze : Config -> (encoder word, decoder word):
every switch drives exactly its own flag(s); TLC enumerates all 2^16 configurations; (2) effects:
for every switch, every probe input and sampled settings of the other switches, the law that must
relate the result without and with the switch (EscapeHTML = encoding/json.HTMLEscape of the
output, SortMapKeys = byte-ordered keys and nothing else, ... ) or "same" (no other effect),
including the interactions between switches the code has (masking).  spec/Emit.tla and
spec/Bind.tla give the documents and values under option sets.

Binding: (1) the option words of the real Froze for all 65536 configurations (hook VerifFrozeOpts)
against the specification's flag sets; (2) every (switch, probe, others) pair replayed on the real
code and checked by the named law; decoder / encoder objects configured by setter methods against
the frozen Config; (3) the encoding universe under sampled option sets: specified document,
MarshalToString / MarshalIndent / Encoder.Encode against Marshal, and the textual laws of
EscapeHTML / SortMapKeys / CompactMarshaler on every case; (4) the binding universe's option
family (UseNumber, UseInt64, DisallowUnknownFields, CaseSensitive) with Unmarshal against
UnmarshalFromString.
"""
import json
import os

from .. import vf
from . import bindcommon, emitcommon


def check(ctx):
    vf.build_harness(ctx)
    known = vf.load_known(ctx.prop)
    w = vf.tlc(ctx, "Options", "mc/Options.cfg", name="options-wiring", dump="states", defines={"FAM": "wiring", "NOTHERS": 1}, timeout=1800)
    l = vf.tlc(ctx, "Options", "mc/Options.cfg", name="options-laws", dump="states", defines={"FAM": "laws", "NOTHERS": ctx.pick(8, 60)},
               timeout=1800, seed=ctx.seed)
    for r in (w, l):
        if not r["ok"]:
            raise vf.Inconclusive("Options model violates %s" % r["violated"])
    ofile = os.path.join(ctx.work, "opts.json")
    vf.vh(ctx, ["opts", "-wiring", w["dump"], "-laws", l["dump"], "-out", ofile], timeout=3600)
    os.remove(w["dump"])
    os.remove(l["dump"])
    osum = json.load(open(ofile))
    for b in osum.get("bad") or []:
        fid = vf.match_known(known, b)
        if fid:
            ctx.known_hits[fid] = ctx.known_hits.get(fid, 0) + 1
        elif b["kind"] == "wiring":
            vf.violation(ctx, "Froze wiring: flag(s) %s wrong for Config %s: %s" % (b["switch"], b["others"], b["detail"]), b)
        elif b["kind"] == "law":
            vf.violation(ctx, "switch %s on probe %s with %s on: required relation '%s' (%s) does not hold: off %s | on %s" % (
                b["switch"], b["probe"], b["others"], b["law"], b["detail"], b["off"][:120], b["on"][:120]), b)
        else:
            vf.violation(ctx, "entry point differs from the frozen Config (%s, probe %s): %s" % (b["switch"], b["probe"], b["detail"][:300]), b)
    # encoder side on the universe
    plan = emitcommon.plan_for(ctx, ("leaf", "wrap1", "st1l", "st1w", "st2", "emb", "bigmap") if ctx.quick else emitcommon.FAMS)
    ers, esums = emitcommon.run_rounds(ctx, plan, ctx.pick(2, 5))
    bindcommon.check_oracle(ctx, esums)
    emitcommon.judge(ctx, esums, ("panic", "error_required", "valid_rejected", "text_differs", "malformed_output", "entrypoint_mismatch",
                                  "html_law", "sort_law", "compact_law"))
    # decoder side: the option family
    brs, bsums = bindcommon.run_rounds(ctx, [("opts", 0, 1)])
    bindcommon.check_oracle(ctx, bsums)
    bindcommon.judge(ctx, bsums, "Unmarshal (options)")
    t = lambda sums, k: bindcommon.total(sums, k)
    cov = {
        "states": w["distinct"] + l["distinct"] + sum(r["distinct"] for r in ers + brs),
        "transitions": w["generated"] + l["generated"] + sum(r["generated"] for r in ers + brs),
        "traces_validated_against_impl": osum["configs"] + osum["pairs"] + t(esums, "cases") + t(bsums, "cases"),
        "evaluations": osum["evals"] + t(esums, "evals") * 9 + t(bsums, "evals") * 3,
        "distinct_nontrivial": osum["configs"] + osum["sensitive_pairs"] + t(esums, "cases") + t(bsums, "cases"),
        "rule": "wiring: one case per Config of the 2^16 lattice (all non-trivial: the option words are compared); laws: one case per "
                "(switch, probe, others), non-trivial when the specification names a law other than 'same' (counted in sensitive_pairs; the "
                "'same' pairs are the 'and no other' half); universe cases as in C04 / C01",
        "samples": (osum.get("samples") or [])[:5],
        "wiring_configs": osum["configs"], "law_pairs": osum["pairs"], "sensitive_pairs": osum["sensitive_pairs"], "laws_seen": osum["laws_seen"],
        "encode_cases": t(esums, "cases"), "decode_cases": t(bsums, "cases"),
        "exhaustive_wiring": True,
    }
    return vf.finish(ctx, "model_checking", cov, assumptions=[
        "the effect laws are checked on fixed probe inputs (one or two per switch) plus the encoding / binding universes, with sampled "
        "settings of the other switches (all 2^16 only for the wiring)",
        "UseInt64 together with UseNumber is rejected by the decoder by design (panic with a message) and is not a configuration here",
        "CopyString and NoValidateJSONSkip have no law other than 'same' on valid data; aliasing is C06's subject",
        "Valid / ValidString and the stream types' behaviour are covered by C02 and C17; here only their option setters",
    ])
