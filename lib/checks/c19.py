"""C19 - numbers convert exactly in both directions.

Specification: spec/Num.tla - which strings are number literals (the grammar of JsonLex), what each
destination kind does with each kind of literal, symbolic range membership of sign*(2^k+delta) per
integer width, and the notation rule of printed floats; TLC checks the rules total, monotone in
the width, the extremes in place, and the literal test equal to the validator's number DFA.

Binding: (A) every string over the number alphabet up to the bound, for 16 destination kinds plus
the UseNumber / UseInt64 variants and ast.Node accessors, three-way with encoding/json;
(B) every magnitude 2^k-1, 2^k, 2^k+1 (both signs) against every integer width, also as map keys;
(C) float boundary classes built exactly with math/big, judged by strconv.ParseFloat;
(D) printing of floats/integers against encoding/json and the notation rule.
The digits themselves are decided by strconv / math/big (stated limit of the technique).
"""
from .. import vf
from . import numcommon


def check(ctx):
    sums = numcommon.run(ctx)
    numcommon.judge(ctx, sums)
    s = sums[0]
    cov = {
        "states": s["tlc"]["distinct"],
        "transitions": s["tlc"]["generated"],
        "traces_validated_against_impl": s["cases"],
        "evaluations": s["evals"],
        "distinct_nontrivial": s["distinct_nontrivial"],
        "rule": "case = one literal shape (string over - 0 1-9 . e E +, every string to the bound, non-empty), one integer magnitude "
                "sign*(2^k+delta), or a batch of 20 boundary literals of one float class; each decoded into every destination kind",
        "samples": (s.get("samples") or [])[:5],
        "exhaustive": True,
        "oracle_disagreements": s["oracle_disagreements"],
        "float_classes": s.get("float_classes"),
        "bad_by_sig": s.get("bad_by_sig"),
    }
    return vf.finish(ctx, "exploration", cov, assumptions=[
        "correct rounding is decided by strconv.ParseFloat / FormatFloat and encoding/json (trusted base); TLC decides grammar, destination "
        "rules, integer range membership (symbolically) and the notation rule",
        "float boundary classes are built with math/big from seeded random floats (halfway points and their neighbours), not enumerated",
        "digits of exponents are not multiplied by the concretiser",
    ])
