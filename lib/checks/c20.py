"""C20 - quote, unquote, HTML-escape and UTF-8 routines match their definitions.

Specification: spec/Str.tla (Quote / Unquote transducers over content and escape-token classes with
both surrogate policies, HtmlEscape, UTF-8 well-formedness as a definition and as a scanner DFA,
byte-wise correction). TLC checks Unquote(Quote(s)) = s, HtmlEscape idempotent, strict policy only
adds errors, DFA = definition, correction well-formed and identity on well-formed input - on every
class string up to the bound - and the same run dumps every string with its expected output.

Binding: each string, concretised with ASCII padding (0..65 bytes on both sides, so that every
interesting byte meets every residue modulo 16/32 and outputs fill mid-string), goes through
encoder.Quote, unquote.String, encoder.HTMLEscape (with and without destination prefix),
utf8.Validate / ValidateString / CorrectWith, and through Marshal / Unmarshal (values and object
keys, both stock configs, UseUnicodeErrors); judged against the specification and against
strconv / encoding/json / unicode/utf8 (oracle agreement).
"""
from .. import vf
from . import strcommon


def check(ctx):
    sums = strcommon.run(ctx)
    strcommon.judge(ctx, sums)
    samples = []
    for s in sums:
        samples.extend(s.get("samples") or [])
    cov = {
        "states": sum(s["tlc"]["distinct"] for s in sums),
        "transitions": sum(s["tlc"]["generated"] for s in sums),
        "traces_validated_against_impl": sum(s["cases"] for s in sums),
        "evaluations": sum(s["evals"] for s in sums),
        "distinct_nontrivial": sum(s["distinct_nontrivial"] for s in sums),
        "rule": "GenStr state = one class string of one family (content / escape tokens / UTF-8 byte classes) with the expected output of "
                "Str; each replayed with several paddings through the routines and through Marshal/Unmarshal; non-trivial = non-empty string",
        "samples": samples[:6],
        "exhaustive": True,
        "oracle_disagreements": sum(s["oracle_disagreements"] for s in sums),
        "per_family": [{k: s[k] for k in ("fam", "constants", "tlc", "cases", "evals", "oracle_disagreements", "bad_by_sig", "wall_s")} for s in sums],
    }
    return vf.finish(ctx, "model_checking", cov, assumptions=[
        "class strings bounded in length (constants); longer inputs only through the ASCII padding of the concretiser",
        "strconv / encoding/json / unicode/utf8 are the references; a case on which they disagree with Str is skipped and counted",
        "escape spelling (\\\\b vs \\\\u0008) is not compared, only the denoted string",
    ])
