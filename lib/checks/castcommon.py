"""Shared driver for the typed-accessor universe spec/AstCast.tla (C14: values denoted by JSON text, as located by the
search entry points; C15: also Go values wrapped into the tree by NewAny / SetAny / AddAny, and Len)."""
import json
import os

from .. import vf


def run(ctx, only="all", skipacc=""):
    vf.build_harness(ctx)
    r = vf.tlc(ctx, "AstCast", "mc/AstCast.cfg", name="astcast", dump="states", defines={"ASBUILT": "{}"}, timeout=1200, workers=2)
    if not r["ok"]:
        raise vf.Inconclusive("AstCast violates %s" % r["violated"])
    # the specification must be able to tell the code as first read from the requirement (non-vacuity of Coherent)
    for dev in ("AnyNumberIsBool", "AnyUintStringWraps"):
        rb = vf.tlc(ctx, "AstCast", "mc/AstCast.cfg", name="astcast-" + dev, defines={"ASBUILT": '{"%s"}' % dev}, timeout=1200, workers=2)
        if rb["violated"] != "Coherent":
            raise vf.Inconclusive("the as-built variant %s does not violate Coherent" % dev)
    sfile = os.path.join(ctx.work, "cast-%s.json" % only)
    args = ["cast", "-dump", r["dump"], "-out", sfile, "-seed", ctx.seed, "-only", only]
    if skipacc:
        args += ["-skipacc", skipacc]
    vf.vh(ctx, args, timeout=3000)
    s = json.load(open(sfile))
    s["tlc"] = {"distinct": r["distinct"], "generated": r["generated"]}
    os.remove(r["dump"])
    if s["cases"] and s["oracle_disagreements"] * 200 > s["cases"]:
        raise vf.Inconclusive("strconv disputes the facts of %d of %d AstCast states" % (s["oracle_disagreements"], s["cases"]))
    return s


def judge(ctx, s):
    known = vf.load_known(ctx.prop)
    for c in s.get("crashes") or []:
        if c.startswith("unconfirmed"):
            ctx.notes.append(c[:300])
        else:
            vf.violation(ctx, "cast worker died: " + c[:200], {"kind": "crash", "detail": c[:3000]})
    recs = {}
    for b in s.get("bad") or []:
        recs.setdefault(b["sig"], b)
    for sig, n in (s.get("bad_by_sig") or {}).items():
        b = dict(recs.get(sig) or {"sig": sig})
        fid = vf.match_known(known, b)
        if fid:
            ctx.known_hits[fid] = ctx.known_hits.get(fid, 0) + n
        else:
            vf.violation(ctx, "typed accessor %s on %s value %r (%s, %s): required %s, got %s" % (
                b.get("acc"), (b.get("k") or "") + ("/" + b["gk"] if b.get("gk") else ""), b.get("s"), b.get("rep"), b.get("proto"),
                (b.get("want") or "")[:80], (b.get("got") or "")[:80]), b)


def coverage(s):
    return {"constants": {"values": "spec/AstCast.tla Values", "accessors": 12}, "tlc": s["tlc"], "cases": s["cases"], "evals": s["evals"],
            "representations": s["representations"], "unspecified": s["unspecified"], "oracle_disagreements": s["oracle_disagreements"],
            "wall_s": s["wall_s"]}
