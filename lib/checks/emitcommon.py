"""Shared driver for the encoding universe (spec/Emit.tla, spec/GenEmit.tla): C03, C04, C12, C18."""
import json
import os

from .. import vf
from . import bindcommon

FAMS = ("leaf", "wrap1", "st1l", "st1w", "st2", "emb", "bigmap", "mapkeys", "rec", "deepst", "st3", "wrap2")
PARTS_T = {"leaf": 1, "wrap1": 2, "st1": 8, "st1l": 1, "st1w": 8, "st2": 2, "emb": 1, "bigmap": 1, "mapkeys": 1, "rec": 1, "deepst": 1, "st3": 1, "wrap2": 32}
PARTS_Q = {"leaf": 1, "wrap1": 4, "st1": 16, "st1l": 1, "st1w": 16, "st2": 4, "emb": 1, "bigmap": 1, "mapkeys": 1, "rec": 2, "deepst": 1, "st3": 1, "wrap2": 128}


def plan_for(ctx, fams=FAMS):
    plan = []
    for fam in fams:
        if ctx.quick:
            q = PARTS_Q[fam]
            plan.append((fam, int(ctx.seed) % q, q))
        else:
            plan += [(fam, p, PARTS_T[fam]) for p in range(PARTS_T[fam])]
    return plan


def gen(ctx, plan, nopts):
    return bindcommon.gen(ctx, plan, module="GenEmit", cfg="mc/GenEmit.cfg", extra_defines={"NOPTS": nopts})


def run_rounds(ctx, plan, nopts, envs=(None,), per_round=14, on_round=None):
    all_rs, all_sums = [], []
    for i in range(0, len(plan), per_round):
        rs = gen(ctx, plan[i:i + per_round], nopts)
        sums = bindcommon.replay(ctx, rs, kind="emit", envs=envs, name="emit-r%d" % (i // per_round))
        if on_round:
            on_round(rs, sums, i // per_round)
        for r in rs:
            os.remove(r["dump"])
            r.pop("out", None)
        all_rs += rs
        all_sums += sums
    return all_rs, all_sums


def judge(ctx, sums, kinds=None, what="Marshal"):
    """kinds: restrict the verdict to these kinds of deviation (the others belong to another property)."""
    known = vf.load_known(ctx.prop)
    for s in sums:
        for c in s.get("crashes") or []:
            if c.startswith("unconfirmed"):
                ctx.notes.append(c[:300])
            else:
                vf.violation(ctx, "%s worker died: %s" % (what, c[:200]), {"kind": "crash", "detail": c[:3000], "env": s.get("env")})
        for b in s.get("bad") or []:
            if kinds and b.get("kind") not in kinds:
                continue
            b = dict(b)
            b["env"] = s.get("env")
            n = (s.get("bad_by_sig") or {}).get(b.get("sig"), 1)
            fid = vf.match_known(known, b)
            if fid:
                ctx.known_hits[fid] = ctx.known_hits.get(fid, 0) + n
            else:
                vf.violation(ctx, "%s %s: %s value %s (top-level by %s, options %s): want %s, got %s" % (
                    what, b.get("kind"), b.get("type"), b.get("val"), b.get("top"), b.get("opts") or "-", (b.get("want") or "")[:160], (b.get("got") or "")[:200]), b)


def coverage(ctx, rs, sums, plan, extra=None):
    t = lambda k: bindcommon.total(sums, k)
    samples = []
    for s in sums:
        samples += (s.get("samples") or [])[:2]
    cov = {
        "states": sum(r["distinct"] for r in rs),
        "transitions": sum(r["generated"] for r in rs),
        "traces_validated_against_impl": t("cases"),
        "evaluations": t("evals") * 9,
        "distinct_nontrivial": t("cases"),
        "programs": t("programs"),
        "roundtrips": t("roundtrips"),
        "no_std_oracle": t("no_std_oracle"),
        "samples": samples[:5],
        "exhaustive": not ctx.quick,
        "slices": ["%s %d/%d" % p for p in plan] if ctx.quick else "all",
        "oracle_disagreements": t("oracle_disagreements"),
        "bad_by_sig": sum(len(s.get("bad_by_sig") or {}) for s in sums),
        "model_check": [{"cfg": r["name"], "distinct": r["distinct"], "wall_s": r["wall_s"]} for r in rs][:80],
    }
    cov.update(extra or {})
    return cov
