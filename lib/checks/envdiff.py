"""Comparison of per-case observation digests between two environments (C11, C12, C13)."""
from .. import vf


def load(path):
    d = {}
    tags = {}
    with open(path) as f:
        for line in f:
            parts = line.split()
            d[int(parts[0])] = parts[1]
            tags[int(parts[0])] = parts[2] if len(parts) > 2 else "-"
    load.tags = tags
    return d


def compare(ctx, name, base_file, other_file, env, known, what):
    """Report every case whose digest differs between the two runs. Returns (#cases compared, #different)."""
    a, b = load(base_file), load(other_file)
    tags = load.tags
    ids = sorted(set(a) & set(b))
    diff = [i for i in ids if a[i] != b[i]]
    missing = len(set(a) ^ set(b))
    if missing:
        ctx.notes.append("%s: %d cases present in only one environment" % (name, missing))
    shown = 0
    by_tag = {}
    for i in diff:
        by_tag.setdefault(tags.get(i, "-"), []).append(i)
    for tag, lst in sorted(by_tag.items()):
      for i in lst[:3]:
        rec = {"kind": "env_difference", "universe": name, "case_id": i, "env": env, "tag": tag, "count_with_tag": len(lst), "digest_default": a[i], "digest_env": b[i],
               "how": "re-run `vh %s` on the same dump with VERIF_OBS_LOG=1 in both environments and diff the logs of case %d" % (name, i)}
        fid = vf.match_known(known, rec)
        if fid:
            ctx.known_hits[fid] = ctx.known_hits.get(fid, 0) + 1
        else:
            vf.violation(ctx, "%s: case %d (%s) of the %s universe is observably different under %s" % (what, i, tag, name, env), rec)
    return len(ids), len(diff)
