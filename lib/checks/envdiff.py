"""Comparison of per-case observation digests between two environments (C11, C12, C13)."""
from .. import vf


def load(path):
    d = {}
    with open(path) as f:
        for line in f:
            a, b = line.split()
            d[int(a)] = b
    return d


def compare(ctx, name, base_file, other_file, env, known, what):
    """Report every case whose digest differs between the two runs. Returns (#cases compared, #different)."""
    a, b = load(base_file), load(other_file)
    ids = sorted(set(a) & set(b))
    diff = [i for i in ids if a[i] != b[i]]
    missing = len(set(a) ^ set(b))
    if missing:
        ctx.notes.append("%s: %d cases present in only one environment" % (name, missing))
    for i in diff[:10]:
        rec = {"kind": "env_difference", "universe": name, "case_id": i, "env": env, "digest_default": a[i], "digest_env": b[i],
               "how": "re-run `vh %s` on the same dump with VERIF_OBS_LOG=1 in both environments and diff the logs of case %d" % (name, i)}
        fid = vf.match_known(known, rec)
        if fid:
            ctx.known_hits[fid] = ctx.known_hits.get(fid, 0) + 1
        else:
            vf.violation(ctx, "%s: case %d of the %s universe is observably different under %s" % (what, i, name, env), rec)
    return len(ids), len(diff)
