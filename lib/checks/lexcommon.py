"""Shared driver for the properties that replay the GenLex string universe (C02, C05, C13, ...)."""
import json
import os

from .. import vf

A_STRUCT = '{"lb","rb","ls","rs","cm","cl","qt","x","d1","mi","sp","n","u","l"}'
A_LEX = ('{"qt","bs","u","hx","x","ctl","tb","d0","d1","mi","pl","dt","le","t","r","f","a","l","s","n",'
         '"sp","ls","rs","cm","hi","nul","sl","b","ue"}')
OBJ_PREFIX = '<<"lb","qt","x","qt","cl">>'
A_INS = '{"lb","rb","ls","rs","cm","cl","qt","d1"}'
A_INS_T = '{"lb","rb","ls","rs","cm","cl","qt","d1","sp","n","u","l"}'


def configs(ctx):
    """(name, alphabet, maxlen, strcap, prefix-tuple, prefix-kind, concretisations)"""
    if ctx.quick:
        return [
            ("struct", A_STRUCT, 6, 2, "<<>>", "", 4),
            ("lex", A_LEX, 4, 3, "<<>>", "", 3),
            ("skipped", A_STRUCT, 5, 2, OBJ_PREFIX, "obj", 3),
            ("inarray", A_LEX, 4, 3, '<<"ls">>', "arr", 2),
            # a valid document with ONE offending byte inserted anywhere (GenLex Recover): config name ends in "+ins"
            ("struct+ins", A_INS, 8, 0, "<<>>", "", 2),
        ]
    return [
        ("struct", A_STRUCT, 9, 2, "<<>>", "", 4),
        ("lex", A_LEX, 6, 4, "<<>>", "", 3),
        ("skipped", A_STRUCT, 7, 2, OBJ_PREFIX, "obj", 3),
        ("inarray", A_LEX, 5, 3, '<<"ls">>', "arr", 3),
        ("struct+ins", A_INS_T, 8, 1, "<<>>", "", 3),
    ]


def gen(ctx, cfg, maxdepth=3):
    name, alpha, maxlen, strcap, prefix, pkind, m = cfg
    r = vf.tlc(ctx, "MCGenLex", "mc/GenLex.cfg", name="genlex-" + name, dump="states",
               defines={"MAXDEPTH": maxdepth, "ALPHABET": alpha, "MAXLEN": maxlen, "STRCAP": strcap, "PREFIX": prefix,
                        "RECOVER": "TRUE" if name.endswith("+ins") else "FALSE"},
               timeout=3000, workers=max(2, vf.NPROC // 2))
    if not r["ok"]:
        # the model itself violates one of its invariants: the spec is wrong, not the code
        raise vf.Inconclusive("GenLex model check failed (%s): %s" % (name, r["violated"]))
    return r


def run_lex(ctx, cfgs, envs):
    """For every config: TLC (check + dump), then replay in every environment. Returns list of summaries."""
    vf.build_harness(ctx)
    out = []

    def one(cfg):
        r = gen(ctx, cfg)
        res = []
        for env in envs:
            tag = cfg[0] + ("-" + "_".join(env).replace("=", "") if env else "")
            sfile = os.path.join(ctx.work, "lex-%s.json" % tag)
            dfile = os.path.join(ctx.work, "lex-%s.dg" % tag)
            args = ["lex", "-dump", r["dump"], "-out", sfile, "-seed", ctx.seed, "-m", cfg[6], "-prefix", cfg[5],
                    "-workers", max(2, vf.NPROC // 2), "-digests", dfile]
            if env:
                args += ["-env", ",".join(env)]
            vf.vh(ctx, args, timeout=3000, env=(dict(x.split("=", 1) for x in env) if env else None))
            s = json.load(open(sfile))
            s["digests"] = dfile
            s["cfg"] = cfg[0]
            s["constants"] = {"Alphabet": cfg[1], "MaxLen": cfg[2], "StrCap": cfg[3], "Prefix": cfg[4], "MaxDepth": 3}
            s["tlc"] = {"distinct": r["distinct"], "generated": r["generated"], "depth": r["depth"]}
            res.append(s)
        try:
            os.remove(r["dump"])
        except OSError:
            pass
        return res

    for lst in vf.parallel([lambda c=c: one(c) for c in cfgs], nthreads=2):
        out.extend(lst)
    return out


def judge(ctx, summaries):
    """Classify every disagreement: oracle disagreement (skipped), known finding, or violation."""
    known = vf.load_known(ctx.prop)
    oracle_dis = 0
    for s in summaries:
        for c in s.get("crashes") or []:
            if c.startswith("unconfirmed"):
                ctx.notes.append("unconfirmed worker death: " + c[:300])
                continue
            rec = {"api": "process", "kind": "crash", "detail": c[:3000], "cfg": s["cfg"], "env": s.get("env")}
            fid = vf.match_known(known, rec)
            if fid:
                ctx.known_hits[fid] = ctx.known_hits.get(fid, 0) + 1
            else:
                vf.violation(ctx, "worker process died: " + c[:200], rec)
        # bad_by_sig holds the complete counts; 'bad' holds up to 3 records per signature
        recs = {}
        for b in s.get("bad") or []:
            recs.setdefault(sigkey(b), b)
        for key, n in (s.get("bad_by_sig") or {}).items():
            b = recs.get(key)
            if b is None:
                # more signatures than kept records: be conservative, rebuild a record from the key
                parts = key.split("|")
                b = {"api": parts[0], "kind": parts[1], "sig": dict(p.split("=", 1) for p in parts[2:]), "text": "(record not kept)"}
            if b["kind"] == "oracle_disagreement":
                oracle_dis += n
                continue
            rec = dict(b)
            rec["cfg"] = s["cfg"]
            rec["env"] = s.get("env")
            fid = vf.match_known(known, rec)
            if fid:
                ctx.known_hits[fid] = ctx.known_hits.get(fid, 0) + n
            else:
                vf.violation(ctx, "%s %s on %s" % (b["api"], b["kind"], b.get("text")), rec)
    return oracle_dis


def sigkey(b):
    return "|".join([b["api"], b["kind"]] + ["%s=%s" % (k, b["sig"][k]) for k in sorted(b["sig"])])


def finish(ctx, summaries, level, extra_cov=None, assumptions=None):
    oracle_dis = judge(ctx, summaries)
    states = sum(s["tlc"]["distinct"] for s in summaries if not s.get("env"))
    trans = sum(s["tlc"]["generated"] for s in summaries if not s.get("env"))
    if states == 0:
        states = sum(s["tlc"]["distinct"] for s in summaries)
        trans = sum(s["tlc"]["generated"] for s in summaries)
    samples = []
    for s in summaries:
        samples.extend(s.get("samples") or [])
    cov = {
        "states": states,
        "transitions": trans,
        "traces_validated_against_impl": sum(s["cases"] for s in summaries),
        "evaluations": sum(s["evals"] for s in summaries),
        "distinct_nontrivial": sum(s["distinct_nontrivial"] for s in summaries),
        "rule": "every reachable state of GenLex is one byte-class string (viable prefix or minimal rejected string) "
                "with the verdict required by JsonLex; replayed with several concretisations (padding around SIMD block "
                "sizes, runs of 1..70 for blanks/string content) through every consuming API; non-trivial = non-empty "
                "string whose verdict is accept or reject",
        "samples": samples[:8],
        "exhaustive": True,
        "oracle_disagreements": oracle_dis,
        "per_config": [{k: s[k] for k in ("cfg", "constants", "tlc", "cases", "evals", "skipped", "by_verdict", "per_api", "bad_total", "env", "wall_s")}
                       for s in summaries],
    }
    if extra_cov:
        cov.update(extra_cov)
    assumptions = (assumptions or []) + [
        "MaxDepth=3 in the model stands for the code's 4096 (scaled cases are replayed by C07)",
        "encoding/json.Valid is the reference for 'valid'; a string on which it disagrees with the spec's strict verdict is skipped and counted",
        "strings longer than the bound are reached only by padding/stretching concretisations",
    ]
    return vf.finish(ctx, level, cov, assumptions)
