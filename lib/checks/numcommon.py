"""Shared driver for the Num universe (C19; reused by C11/C13)."""
import json
import os

from .. import vf


def run(ctx, envs=(None,)):
    vf.build_harness(ctx)
    r = vf.tlc(ctx, "GenNum", "mc/GenNum.cfg", name="gennum-shapes", dump="states",
               defines={"MAXLEN": ctx.pick(5, 7), "FAM": "shapes"}, timeout=3000)
    r2 = vf.tlc(ctx, "GenNum", "mc/GenNum.cfg", name="gennum-mags", dump="states", defines={"MAXLEN": 1, "FAM": "mags"}, timeout=600, workers=2)
    for x in (r, r2):
        if not x["ok"]:
            raise vf.Inconclusive("GenNum violates %s" % x["violated"])
    sums = []
    for env in envs:
        sfile = os.path.join(ctx.work, "num-%s.json" % (env or "default").replace("=", ""))
        dfile = sfile[:-5] + ".dg"
        args = ["num", "-dump", r["dump"], "-dumpmag", r2["dump"], "-out", sfile, "-seed", ctx.seed, "-floats", ctx.pick(120, 1500), "-digests", dfile]
        if env:
            args += ["-env", env]
        vf.vh(ctx, args, timeout=3000, env=(dict(x.split("=", 1) for x in env.split(",")) if env else None))
        s = json.load(open(sfile))
        s["env"], s["digests"] = env, dfile
        s["tlc"] = {"distinct": r["distinct"] + r2["distinct"], "generated": r["generated"] + r2["generated"]}
        sums.append(s)
    os.remove(r["dump"])
    return sums


def judge(ctx, sums):
    known = vf.load_known(ctx.prop)
    for s in sums:
        for c in s.get("crashes") or []:
            if c.startswith("unconfirmed"):
                ctx.notes.append(c[:300])
            else:
                vf.violation(ctx, "num worker died: " + c[:200], {"kind": "crash", "detail": c[:3000], "env": s.get("env")})
        recs = {}
        for b in s.get("bad") or []:
            recs.setdefault(b["sig"], b)
        for sig, n in (s.get("bad_by_sig") or {}).items():
            b = dict(recs.get(sig) or {"sig": sig, "kind": sig.split("|")[0], "dest": sig.split("|")[1], "class": sig.split("|")[2]})
            b["env"] = s.get("env")
            fid = vf.match_known(known, b)
            if fid:
                ctx.known_hits[fid] = ctx.known_hits.get(fid, 0) + n
            else:
                vf.violation(ctx, "number %s into %s (%s): literal %s want %s got %s" % (
                    b.get("kind"), b.get("dest"), b.get("class"), b.get("lit"), b.get("want"), b.get("got")), b)
