"""Shared driver for the Search universe (C14; reused by C13)."""
import json
import os

from .. import vf


def run(ctx, envs=(None,)):
    vf.build_harness(ctx)
    r = vf.tlc(ctx, "GenSearch", "mc/GenSearch.cfg", name="gensearch", dump="states",
               defines={"MAXPATH": 3, "DOCSET": "all"}, timeout=3000)
    if not r["ok"]:
        raise vf.Inconclusive("GenSearch violates %s" % r["violated"])
    sums = []
    for env in envs:
        sfile = os.path.join(ctx.work, "search-%s.json" % (env or "default").replace("=", ""))
        dfile = sfile[:-5] + ".dg"
        args = ["search", "-dump", r["dump"], "-out", sfile, "-seed", ctx.seed, "-digests", dfile]
        if env:
            args += ["-env", env]
        vf.vh(ctx, args, timeout=3000, env=(dict(x.split("=", 1) for x in env.split(",")) if env else None))
        s = json.load(open(sfile))
        s["env"], s["digests"] = env, dfile
        s["tlc"] = {"distinct": r["distinct"], "generated": r["generated"]}
        sums.append(s)
    os.remove(r["dump"])
    return sums


def judge(ctx, sums):
    known = vf.load_known(ctx.prop)
    for s in sums:
        for c in s.get("crashes") or []:
            if c.startswith("unconfirmed"):
                ctx.notes.append(c[:300])
            else:
                vf.violation(ctx, "search worker died: " + c[:200], {"kind": "crash", "detail": c[:3000], "env": s.get("env")})
        recs = {}
        for b in s.get("bad") or []:
            recs.setdefault(b["sig"], b)
        for sig, n in (s.get("bad_by_sig") or {}).items():
            b = dict(recs.get(sig) or {"sig": sig})
            b["env"] = s.get("env")
            fid = vf.match_known(known, b)
            if fid:
                ctx.known_hits[fid] = ctx.known_hits.get(fid, 0) + n
            else:
                vf.violation(ctx, "%s %s: doc %s path %s want %s got %s" % (b.get("api"), b.get("kind"), (b.get("text") or "")[:120],
                                                                          json.dumps(b.get("path")), (b.get("want") or "")[:80], (b.get("got") or "")[:80]), b)
