"""Shared driver for the Str universe (C20; reused by C13/C05)."""
import json
import os

from .. import vf

AQ = '{"a","qt","bs","nl","cr","tab","ctl","lt","gt","amp","u2","u3","u4","ls","bad"}'
AU = ('{"a","nl","lt","u2","bad","e_qt","e_bs","e_nl","e_ctl","e_sl","e_b","e_f","u_bmp","u_hi","u_lo",'
      '"e_bad","e_trunc","u_badhex","u_short"}')
AV = '{"asc","c8","c9","ca","l2","x0","e0","l3","ed","f0","l4","f4","x4"}'
ALPHA = {"quote": AQ, "unquote": AU, "utf8": AV}


def plans(ctx):
    return [("quote", 3, 4), ("unquote", 3, 4), ("utf8", 4, 3)] if ctx.quick else [("quote", 4, 6), ("unquote", 4, 6), ("utf8", 5, 4)]


def run(ctx, envs=(None,)):
    vf.build_harness(ctx)
    out = []

    def one(plan):
        fam, ml, m = plan
        r = vf.tlc(ctx, "GenStr", "mc/GenStr.cfg", name="genstr-" + fam, dump="states",
                   defines={"FAM": fam, "MAXLEN": ml, "ALPHABET": ALPHA[fam]}, timeout=3000, workers=max(2, vf.NPROC // 2))
        if not r["ok"]:
            raise vf.Inconclusive("GenStr(%s) violates %s" % (fam, r["violated"]))
        res = []
        for env in envs:
            sfile = os.path.join(ctx.work, "str-%s-%s.json" % (fam, (env or "default").replace("=", "")))
            dfile = sfile[:-5] + ".dg"
            args = ["str", "-dump", r["dump"], "-fam", fam, "-out", sfile, "-seed", ctx.seed, "-m", m, "-workers", max(2, vf.NPROC // 2), "-digests", dfile]
            if env:
                args += ["-env", env]
            vf.vh(ctx, args, timeout=3000, env=(dict(x.split("=", 1) for x in env.split(",")) if env else None))
            s = json.load(open(sfile))
            s["fam"], s["env"], s["digests"] = fam, env, dfile
            s["tlc"] = {"distinct": r["distinct"], "generated": r["generated"]}
            s["constants"] = {"Fam": fam, "MaxLen": ml, "Alphabet": ALPHA[fam]}
            res.append(s)
        os.remove(r["dump"])
        return res

    for lst in vf.parallel([lambda p=p: one(p) for p in plans(ctx)], nthreads=2):
        out.extend(lst)
    return out


def judge(ctx, sums):
    known = vf.load_known(ctx.prop)
    for s in sums:
        for c in s.get("crashes") or []:
            if c.startswith("unconfirmed"):
                ctx.notes.append(c[:300])
            else:
                vf.violation(ctx, "str worker died: " + c[:200], {"kind": "crash", "detail": c[:3000], "env": s.get("env")})
        recs = {}
        for b in s.get("bad") or []:
            recs.setdefault(b["sig"], b)
        for sig, n in (s.get("bad_by_sig") or {}).items():
            b = recs.get(sig, {"sig": sig, "kind": sig.split("|")[-1]})
            if b.get("kind") == "oracle_disagreement":
                continue
            b = dict(b)
            b["env"] = s.get("env")
            fid = vf.match_known(known, b)
            if fid:
                ctx.known_hits[fid] = ctx.known_hits.get(fid, 0) + n
            else:
                vf.violation(ctx, "%s %s on %s: want %s got %s" % (b.get("api"), b.get("kind"), b.get("text"), b.get("want"), b.get("got")), b)
