"""Regenerates MANIFEST.json from the table below:  python3 -m lib.manifest"""
import json
import os
import subprocess

from . import vf

CLAIMS = {
    "C01": dict(
        category="model_checking",
        technique="TLA+ binding contract Dec(T, J, old, opts) (spec/Bind.tla) evaluated by TLC over the bounded universe of types, "
                  "type-directed documents with all single-point perturbations, prior destinations and configurations (spec/GenBind.tla); "
                  "every case replayed on reflect-built types (a fresh decoder program each) against sonic and encoding/json with "
                  "oracle agreement (spec = encoding/json, else no verdict)",
        text="TLC computes for every bounded (type, document, prior value, configuration) case whether an error is required, whether "
             "either outcome is tolerated (malformed text only inside a skipped value) and the exact destination afterwards; the "
             "harness builds the type with reflect, decodes with encoding/json, sonic Unmarshal and UnmarshalFromString under the "
             "matching frozen Config and demands the required outcome and a deeply equal destination.",
        design_ref="DESIGN.md section 4 C01, section 11",
        note="bounded types (wrapper depth 2 over 20 leaf kinds, structs of <= 2 fields, one level of embedding) and documents (matching "
             "shape plus single-point perturbations); one representative literal per number / string class; three known deviations matched by "
             "feature predicates (integer map key \"01\", duplicate map key merging, UTF-8 repair before RawMessage); quick tier runs one "
             "seed-rotated slice per family",
        engine="bind",
    ),
    "C02": dict(
        category="model_checking",
        technique="TLA+ byte-class pushdown validator (JsonLex/GenLex) model-checked by TLC (PDA = grammar, strict within structural); "
                  "every reachable string replayed through all consuming APIs with oracle agreement against encoding/json.Valid",
        text="TLC enumerates exhaustively every viable prefix and minimal rejected string over byte-class alphabets up to the bound, "
             "checks the validator against a declarative grammar on each, and the harness replays each string (several concretisations "
             "around SIMD block sizes) through 15-17 real entry points; malformed-accepted / valid-rejected / panic on any is a violation.",
        design_ref="DESIGN.md section 4 C02, section 11",
        note="bounded string length and alphabet per config (in evidence); MaxDepth 3 stands for 4096; encoding/json.Valid trusted as reference; "
             "two known findings (trailing bytes after Get/NewRaw, unterminated string at 32-byte multiple) are matched by spec-level signature",
        engine="lex",
    ),
    "C17": dict(
        category="model_checking",
        technique="TLA+ specification of the required stream result (Stream!Ref) and of the decoder loop against an adversarial Reader "
                  "(StreamImpl refines Ref, TLC, all chunkings); all chunkings of every generated stream replayed on the real decoder three-way "
                  "with encoding/json; StreamEnc cases replayed with a failing Writer; recorded long-stream traces validated by TLC",
        text="TLC checks that the implementation-shaped decoder model returns exactly Ref's values and terminal condition under every Reader "
             "schedule of bounded streams; the harness replays every generated stream under every chunking / EOF delivery / empty reads / "
             "fault on the real StreamDecoder and validates recorded executions on long streams around the 4096-byte buffer with a trace spec.",
        design_ref="DESIGN.md section 4 C17, section 11",
        note="streams bounded (length, alphabet) in the exhaustive part; longer ones only by seeded traces; encoding/json.Decoder trusted as "
             "reference (disagreements skipped and counted); Reader errors assumed sticky; InputOffset/Buffered are not part of the verdict",
        engine="stream",
    ),
    "C15": dict(
        category="model_checking",
        technique="TLA+ plain-tree specification (AstTree) with every Node operation as a function; implementation-shaped container model "
                  "(AstNode: raw/lazy/loaded, tombstones, index) checked by TLC to refine it; GenAst operation sequences replayed on real "
                  "nodes created seven ways; recorded long sequences (hook H4) validated by TLC with named deviations",
        text="TLC proves refinement of the representation model for all bounded operation sequences and generates every sequence of the "
             "bounded alphabet with the required observations; the harness replays them on real ast.Node values and validates seeded long "
             "sequences on documents crossing the 16-slot/16-pair thresholds against the tree with a trace specification.",
        design_ref="DESIGN.md section 4 C15, section 11",
        note="finite document/operation alphabets in the exhaustive part; representation model is flat (scalar children) with scaled "
             "thresholds; keys from a finite universe; one known finding (Len on partially loaded nodes) matched through hook H4",
        engine="ast",
    ),
    "C16": dict(
        category="model_checking",
        technique="TLA+ model of the raw->parsed conversion against concurrent readers (AstConc: atomic t, plain p/l, RWMutex) checked by TLC "
                  "(no torn read, sequential results, no unsynchronised conflicting access, termination); every model path replayed as a "
                  "gated schedule on real nodes under the Go race detector",
        text="TLC explores all interleavings of the code's atomic steps for 2 and 3 goroutines; each complete path is a schedule that the "
             "harness enforces on real goroutines through the library's instrumentation points (-tags verif, -race); results must equal "
             "the sequential run and the race detector must stay silent; plus ungated stress.",
        design_ref="DESIGN.md section 4 C16, section 11",
        note="one shared node per schedule; steps without an instrumentation point run with the next gated step; the race detector is "
             "trusted for data races in executed schedules",
        engine="astconc",
    ),
    "C08": dict(
        category="model_checking",
        technique="TLA+ model of the RCU program cache (Cache: lock-free Get on immutable snapshots, Compute with double check, copy-on-write "
                  "add with rehash, atomic publish) checked by TLC; every 2-goroutine model path replayed as a gated schedule on the real "
                  "cache; -race runs of sampled schedules plus stress across the real rehash and through the public API",
        text="TLC checks one-compile-per-type, monotonicity, snapshot immutability, table well-formedness/findability, mutual exclusion and "
             "termination for 2x2 and 3x3 goroutines x types with rehash; schedules are enforced on real goroutines through instrumentation "
             "points; results must be the right codec, exactly one compile, no lost entry, no race report.",
        design_ref="DESIGN.md section 4 C08, section 11",
        note="InitCap scaled to 2/4 in the model; gated replay on a private cache instance via the verif bridge; pools exercised only by "
             "the API stress under -race; race detector trusted for executed runs",
        engine="pcache",
    ),
    "C09": dict(
        category="model_checking",
        technique="TLA+ model of process history (Session: type identity vs printed name, first use vs PretouchMany batches, cache fill) "
                  "checked by TLC; every generated history (seeded stride sample) replayed in a fresh process and probed against an "
                  "empty-history process",
        text="TLC enumerates all call histories up to the bound and checks that each type is always served by its own codec; the harness "
             "runs each history in a fresh process and compares a fixed Marshal/Unmarshal probe of all family types (incl. two distinct "
             "types printing the same name) with the fresh-process result; a crash is a violation.",
        design_ref="DESIGN.md section 4 C09, section 11",
        note="fixed 4-type family plus filler types; recursion depth 0/1 only; probe compares printed results; thorough tier repeats a "
             "sample under SONIC_USE_OPTDEC and SONIC_ENCODER_USE_VM",
        engine="session",
    ),
    "C06": dict(
        category="model_checking",
        technique="TLA+ model of buffer ownership (Pool: pooled buffers, growth, post-processing swap, copy-out rule) checked by TLC for every "
                  "choice sync.Pool can make; all generated call histories replayed with byte-level checks (earlier results unchanged, "
                  "scribbling over owned results harmless), guard-page EncodeInto for every capacity, decode-side input overwrite",
        text="TLC checks that no buffer held by the caller is ever in the pool and results are distinct arrays; the harness replays every "
             "history on the real entry points with LimitBufferSize scaled down, compares each result with encoding/json and all earlier "
             "results with private copies, writes into buffers ending at a PROT_NONE page, and re-reads decoded values after overwriting "
             "the input.",
        design_ref="DESIGN.md section 4 C06, section 11",
        note="limits scaled through the public option variables; single P and GC off for deterministic reuse; memory effects visible only "
             "through changed bytes or faults; encoding/json trusted for expected bytes",
        engine="pool",
    ),
    "C20": dict(
        category="model_checking",
        technique="TLA+ transducers for Quote/Unquote (both surrogate policies), HtmlEscape and the UTF-8 DFA/definition/correction (Str), "
                  "inverse and equivalence laws checked by TLC on every class string to the bound; every string replayed with alignment "
                  "paddings through the routines and through Marshal/Unmarshal, judged against the spec and the standard library",
        text="TLC checks Unquote(Quote(s)) = s, HtmlEscape idempotence, DFA = Unicode definition and correction laws exhaustively to the "
             "bound and emits each string with its expected output; the harness concretises with 0..65 bytes of ASCII padding on both "
             "sides and compares the real routines (direct and via Marshal/Unmarshal, values and keys) with the spec and std.",
        design_ref="DESIGN.md section 4 C20, section 11",
        note="bounded class strings; alignment/length only through padding; escape spelling not compared; std library trusted",
        engine="str",
    ),
    "C19": dict(
        category="exploration",
        technique="TLA+ specification of the number case structure (Num: literal grammar = JsonLex's DFA, destination rules, symbolic integer "
                  "range membership, notation rule) checked by TLC; every literal shape and magnitude replayed into every destination kind "
                  "three-way with encoding/json; float boundary classes built with math/big and judged by strconv",
        text="TLC enumerates every string over the number alphabet to the bound with the rule each destination applies and every "
             "magnitude 2^k+delta with its range verdict per width; the harness decodes each into 16 destination kinds (+UseNumber, UseInt64, "
             "map keys, ast accessors) and compares error-or-not and value bit for bit with encoding/json; printing is compared with "
             "encoding/json on thresholds, extremes and seeded bit patterns.",
        design_ref="DESIGN.md section 4 C19, section 5, section 11",
        note="the digits (correct rounding, shortest output) are decided by strconv/encoding/json - arithmetic is outside what TLC can state; "
             "two known findings (-0 integer literal loses its sign; float32 is rounded twice) matched by computed deviation signatures",
        engine="num",
    ),
    "C14": dict(
        category="model_checking",
        technique="TLA+ specification of path lookup (first duplicate, two flavours), views and Preorder events over the plain tree (Search / "
                  "AstTree), laws checked by TLC; every (document, path) pair replayed through all search entry points and option sets and "
                  "through Node routes, all views compared; token-streaming encoding/json lookup as second oracle",
        text="TLC enumerates every (document, path) of the bounded universe with the required result and views; the harness runs sonic.Get, "
             "GetFromString, GetCopyFromString, GetWithOptions x 8 option sets, Searcher and Node.GetByPath / stepwise Index/Get from raw, "
             "concurrent-read and loaded roots, under blank / escaped-key / scaled-string text plans, and compares every view; Preorder "
             "events are compared for every document.",
        design_ref="DESIGN.md section 4 C14, section 11",
        note="finite document set and path alphabet; negative indexes only on Node routes; Raw compared as a token sequence",
        engine="search",
    ),
    "C13": dict(
        category="exploration",
        technique="the four spec-generated byte-level universes (GenLex, GenStr, GenNum, GenSearch - TLC enumerated, with the alignment/length "
                  "concretisation) replayed under SONIC_MODE unset and noavx2 with identical seeds; per-case digests over every observation "
                  "must be equal",
        text="Cross-environment replay of TLC-enumerated inputs: every case of the lexical, string, number and search universes is executed "
             "with the AVX2 and with the SSE routines and everything observable is compared through a per-case digest.",
        design_ref="DESIGN.md section 4 C13, section 5, section 11",
        note="equality of two black boxes on spec-enumerated inputs (the definition both must meet is checked by C02/C14/C19/C20); native "
             "routines not reached by these universes are not compared; needs an AVX2 host",
        engine="lex,str,num,search",
    ),
    "C05": dict(
        category="exploration",
        technique="spec-generated input universes (GenLex: all truncations and minimal rejected strings; GenStr) replayed under three memory "
                  "placements - exact heap allocation, ending at a PROT_NONE page, followed by an adversarial continuation - with faults "
                  "attributed per API and per-case digests compared across placements",
        text="TLA+ has no memory model; the specification supplies the exhaustive set of inputs on which a scanner is tempted to read on "
             "(every truncation of every document), the continuation alphabet and the placement-independent expected result; the harness "
             "places each input three ways and requires identical observations and no fault.",
        design_ref="DESIGN.md section 4 C05, section 5, section 11",
        note="reads outside the input are visible only through a guard-page fault or a changed result; bounded inputs; two known native "
             "over-reads (literal near the end, leading zero at the end) matched by concrete predicates",
        engine="lex,str",
    ),
}

NOT_YET = "not yet claimed: check under construction (build phase), see DESIGN.md section 8"
NA_REASONS = {}


def main():
    props = [json.loads(l)["id"] for l in open(os.path.join(vf.ROOT, "properties.jsonl"))]
    hooks = []
    try:
        out = subprocess.run(["git", "-C", vf.REPO, "log", "--format=%h %s"], capture_output=True, text=True).stdout
        for line in out.splitlines():
            h, _, s = line.partition(" ")
            if s.startswith("verif:") or s.startswith("hook:"):
                hooks.append(h)
    except Exception:
        pass
    checks = []
    for p in props:
        c = CLAIMS.get(p)
        if not c:
            continue
        checks.append({
            "property_id": p,
            "quick_cmd": "bin/check %s --tier quick" % p,
            "thorough_cmd": "bin/check %s --tier thorough" % p,
            "evidence_file": "/verif/evidence/%s.json" % p,
            "replay_cmd_template": "bin/check %s --replay {path}" % p,
            "engine": c.get("engine", ""),
            "level_claimed": {"category": c["category"], "text": c["text"], "design_ref": c["design_ref"]},
            "level_note": c["note"],
            "technique": c["technique"],
        })
    m = {
        "version": 1,
        "setup_cmd": "bin/setup",
        "hooks": {
            "guard": "verif",
            "enable": "go build -tags verif (the harness module replaces github.com/bytedance/sonic => /repo and is rebuilt by every check)",
            "baseline_off_cmd": "bin/baseline_off",
            "source_commits": hooks,
            "add_only": True,
        },
        "engines": [
            {"name": "tlc", "path": "lib/vf.py", "serves_properties": sorted(CLAIMS), "kind_free_text": "TLC model checking / behaviour generation / trace validation of spec/*.tla"},
            {"name": "vh", "path": "harness/cmd/vh", "serves_properties": sorted(CLAIMS), "kind_free_text": "Go conformance harness: replays TLC behaviours against sonic, records traces"},
        ],
        "checks": checks,
        "notes": "Model-based verification with an explicit TLA+ specification (spec/), checked by TLC and bound to /repo by "
                 "replay of TLC-generated behaviours and by trace validation (harness/). See DESIGN.md.",
        "not_applicable": [{"property_id": p, "reason": NA_REASONS.get(p, NOT_YET)} for p in props if p not in CLAIMS],
    }
    json.dump(m, open(os.path.join(vf.ROOT, "MANIFEST.json"), "w"), indent=1)
    print("claimed:", sorted(CLAIMS), "not claimed:", [p for p in props if p not in CLAIMS])


if __name__ == "__main__":
    main()
