"""setup: build the harness (warms the Go build cache) and syntax-check every spec module."""
import os, sys
from . import vf

def main():
    ctx = vf.Ctx("SETUP", "quick", 0)
    try:
        vf.build_harness(ctx)
        vf.log("harness built")
        vf.build_harness(ctx, race=True)
        vf.log("race harness built")
    except vf.Inconclusive as e:
        print(e); return 1
    finally:
        ctx.cleanup()
    return 0

if __name__ == "__main__":
    sys.exit(main())
