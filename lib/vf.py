"""Core engine of the sonic verification framework.

TLC runner, harness builder, evidence writer, known-findings contract, verdict lines.
Every check module under lib/checks uses only what is here.
"""
import hashlib
import json
import os
import re
import shutil
import subprocess
import sys
import time

ROOT = os.path.dirname(os.path.dirname(os.path.abspath(__file__)))
REPO = os.environ.get("VERIF_REPO", "/repo")
SPEC = os.path.join(ROOT, "spec")
HARNESS = os.path.join(ROOT, "harness")
WORKROOT = os.path.join(ROOT, ".work")
TLA_CP = "/opt/veriftools/tla/tla2tools.jar:/opt/veriftools/tla/CommunityModules-deps.jar"
NPROC = os.cpu_count() or 4

GOENV = {
    "GOFLAGS": "-mod=mod",
    "GOPROXY": "off",
    "GOSUMDB": "off",
    "GOTOOLCHAIN": "local",
}


class Inconclusive(Exception):
    """Machinery problem (timeout, tool failure, dead driver): exit 2, never a verdict."""


def log(*a):
    print("[verif]", *a, flush=True)


class Ctx:
    def __init__(self, prop, tier, seed):
        self.prop = prop
        self.tier = tier
        self.seed = seed
        self.t0 = time.time()
        self.work = os.path.join(WORKROOT, "%s-%s-%d" % (prop, tier, os.getpid()))
        shutil.rmtree(self.work, ignore_errors=True)
        os.makedirs(self.work, exist_ok=True)
        self.violations = []      # list of (what, replay_path)
        self.known_hits = {}      # finding id -> count
        self.tlc_runs = []        # stats of each TLC run
        self.notes = []

    @property
    def quick(self):
        return self.tier == "quick"

    def pick(self, q, t):
        return q if self.quick else t

    def sub(self, name):
        d = os.path.join(self.work, name)
        os.makedirs(d, exist_ok=True)
        return d

    def cleanup(self):
        if os.environ.get("VERIF_KEEP") != "1":
            shutil.rmtree(self.work, ignore_errors=True)


# ---------------------------------------------------------------------------------------------
# processes

def run(cmd, timeout, env=None, cwd=None, stdin=None, check=False, capture=True):
    e = dict(os.environ)
    e.update(GOENV)
    if env:
        e.update(env)
    t0 = time.time()
    try:
        p = subprocess.run(cmd, cwd=cwd, env=e, input=stdin, timeout=timeout,
                           stdout=subprocess.PIPE if capture else None,
                           stderr=subprocess.STDOUT if capture else None)
    except subprocess.TimeoutExpired:
        raise Inconclusive("timeout after %ds: %s" % (timeout, " ".join(map(str, cmd))[:200]))
    out = p.stdout.decode("utf-8", "replace") if capture and p.stdout is not None else ""
    if check and p.returncode != 0:
        raise Inconclusive("command failed (%d): %s\n%s" % (p.returncode, " ".join(map(str, cmd))[:300], out[-4000:]))
    return p.returncode, out, time.time() - t0


# ---------------------------------------------------------------------------------------------
# TLC

_RE_STATES = re.compile(r"(\d+) states generated, (\d+) distinct states found, (\d+) states left on queue")
_RE_DEPTH = re.compile(r"The depth of the complete state graph search is (\d+)")
_RE_INV = re.compile(r"Error: Invariant (\S+) is violated")
_RE_ACTPROP = re.compile(r"Error: Action property (\S+) is violated")
_RE_TEMPORAL = re.compile(r"Error: Temporal properties were violated")


def tlc(ctx, module, cfg, name=None, workers=None, timeout=600, dump=None, simulate=None,
        depth=None, deadlock=False, seed=None, java_opts=None, extra=None, coverage=False,
        files=None, defines=None):
    """Run TLC on spec/<module>.tla with spec/mc/<cfg> in a private scratch copy.

    Returns dict(ok, generated, distinct, depth, violated, out, dir, dump). A TLC crash or timeout
    raises Inconclusive.  A property violation of the *model* is reported in 'violated' and left
    to the caller (a model-level counterexample is never by itself a VIOLATION of the code).
    """
    name = name or (module + "-" + os.path.splitext(os.path.basename(cfg))[0])
    d = ctx.sub("tlc-" + name)
    for f in os.listdir(SPEC):
        if f.endswith(".tla"):
            shutil.copy(os.path.join(SPEC, f), d)
    for sub in ("mc", "trace"):
        sd = os.path.join(SPEC, sub)
        if os.path.isdir(sd):
            for f in os.listdir(sd):
                if f.endswith(".tla") or f.endswith(".cfg"):
                    shutil.copy(os.path.join(sd, f), d)
    for src, dst in (files or {}).items():
        shutil.copy(src, os.path.join(d, dst))
    cfgpath = os.path.join(d, os.path.basename(cfg))
    if defines:
        # textual substitution of @NAME@ placeholders in the cfg and the module (constants per tier)
        for p in [cfgpath, os.path.join(d, module + ".tla")]:
            s = open(p).read()
            for k, v in defines.items():
                s = s.replace("@%s@" % k, str(v))
            open(p, "w").write(s)
    workers = workers or NPROC
    jopts = ["-XX:+UseParallelGC", "-Xss64m"] + (java_opts or [])
    if not any(o.startswith("-Xmx") for o in jopts):
        # the JVM default (a quarter of the machine per process) let parallel slice generators be OOM-killed when several checks
        # shared the machine; the slices need < 2 GB each (measured), the many-worker model checks < 8 GB
        jopts.append("-Xmx4g" if workers <= 2 else "-Xmx12g")
    cmd = ["java"] + jopts + ["-cp", TLA_CP, "tlc2.TLC", "-metadir", os.path.join(d, "meta"),
                              "-workers", str(workers), "-config", os.path.basename(cfg)]
    if not deadlock:
        cmd += ["-deadlock"]           # -deadlock = do NOT check deadlock
    if dump:
        cmd += ["-dump", dump]
    if simulate:
        cmd += ["-simulate", simulate]
    if depth:
        cmd += ["-depth", str(depth)]
    if seed is not None:
        cmd += ["-seed", str(seed)]
    if coverage:
        cmd += ["-coverage", "1"]
    cmd += (extra or [])
    cmd += [module + ".tla"]
    rc, out, wall = run(cmd, timeout, cwd=d)
    open(os.path.join(d, "tlc.out"), "w").write(out)
    res = {"name": name, "module": module, "cfg": os.path.basename(cfg), "rc": rc, "wall_s": round(wall, 2),
           "generated": 0, "distinct": 0, "depth": 0, "violated": None, "out": out, "dir": d,
           "dump": os.path.join(d, dump + ".dump") if dump else None}
    m = None
    for m in _RE_STATES.finditer(out):
        pass
    if m:
        res["generated"], res["distinct"] = int(m.group(1)), int(m.group(2))
    m = _RE_DEPTH.search(out)
    if m:
        res["depth"] = int(m.group(1))
    m = _RE_INV.search(out) or _RE_ACTPROP.search(out)
    if m:
        res["violated"] = m.group(1)
    elif _RE_TEMPORAL.search(out):
        res["violated"] = "temporal"
    elif "Error: Deadlock reached" in out:
        res["violated"] = "deadlock"
    res["ok"] = (rc == 0 and res["violated"] is None and "Model checking completed. No error has been found" in out) \
        or (simulate is not None and res["violated"] is None and rc == 0)
    if rc != 0 and res["violated"] is None and not ("POSTCONDITION" in out or "Postcondition" in out):
        raise Inconclusive("TLC failed (rc=%d) on %s/%s:\n%s" % (rc, module, cfg, out[-3000:]))
    ctx.tlc_runs.append({k: res[k] for k in ("name", "module", "cfg", "wall_s", "generated", "distinct", "depth", "violated")})
    return res


# ---------------------------------------------------------------------------------------------
# harness

_built = {}


def build_harness(ctx=None, race=False, tags="verif"):
    """(Re)build the Go harness against /repo's current working tree. Incremental through the Go cache."""
    key = (race, tags)
    if key in _built:
        return _built[key]
    bindir = os.path.join(WORKROOT, "bin")
    os.makedirs(bindir, exist_ok=True)
    out = os.path.join(bindir, "vh" + ("-race" if race else "") + ("" if tags == "verif" else "-" + tags.replace(",", "_")))
    shutil.copy(os.path.join(REPO, "go.sum"), os.path.join(HARNESS, "go.sum"))
    # go.sum of the harness = repo's + loader's (the loader is a separate module)
    with open(os.path.join(HARNESS, "go.sum"), "a") as f:
        ls = os.path.join(REPO, "loader", "go.sum")
        if os.path.exists(ls):
            f.write(open(ls).read())
        ex = os.path.join(HARNESS, "go.sum.extra")
        if os.path.exists(ex):
            f.write(open(ex).read())
    cmd = ["go", "build", "-tags", tags, "-o", out]
    if race:
        cmd.append("-race")
    cmd.append("./cmd/vh")
    rc, o, wall = run(cmd, 900, cwd=HARNESS)
    if rc != 0:
        raise Inconclusive("harness build failed:\n" + o[-6000:])
    _built[key] = out
    return out


def vh(ctx, args, timeout=600, env=None, race=False, stdin=None, check=True):
    exe = build_harness(ctx, race=race)
    e = {"VERIF_SEED": str(ctx.seed), "VERIF_TIER": ctx.tier}
    if env:
        e.update(env)
    rc, out, wall = run([exe] + list(map(str, args)), timeout, env=e, stdin=stdin)
    if check and rc not in (0,):
        raise Inconclusive("vh %s failed rc=%d:\n%s" % (" ".join(map(str, args))[:200], rc, out[-4000:]))
    return rc, out, wall


# ---------------------------------------------------------------------------------------------
# known findings / verdicts

def load_known(prop):
    p = os.path.join(ROOT, "known_findings.json")
    if not os.path.exists(p):
        return []
    kf = json.load(open(p))
    return [f for f in kf.get("findings", []) if f.get("property") == prop or prop in (f.get("also") or [])]


def write_replay(ctx, obj):
    os.makedirs(os.path.join(ROOT, "replays"), exist_ok=True)
    blob = json.dumps(obj, sort_keys=True, indent=1, default=str)
    h = hashlib.sha1(blob.encode()).hexdigest()[:12]
    path = os.path.join(ROOT, "replays", "%s-%s.json" % (ctx.prop, h))
    open(path, "w").write(blob)
    return path


def violation(ctx, what, replay_obj):
    path = write_replay(ctx, replay_obj)
    ctx.violations.append((what, path))
    return path


def finish(ctx, level, coverage, assumptions=None, extra=None):
    """Write evidence, print verdict lines, return the exit code."""
    known = load_known(ctx.prop)
    by_id = {f["id"]: f for f in known}
    for fid, n in sorted(ctx.known_hits.items()):
        f = by_id.get(fid, {})
        print("KNOWN-FINDING: property=%s %s (%s; %d case(s) this run)" % (ctx.prop, f.get("what", fid), fid, n), flush=True)
    ev = {
        "property_id": ctx.prop,
        "tier": ctx.tier,
        "seed": ctx.seed,
        "level": level,
        "coverage": coverage,
        "assumptions": assumptions or [],
        "wall_s": round(time.time() - ctx.t0, 2),
        "violations": len(ctx.violations),
    }
    cov = ev["coverage"]
    cov.setdefault("tlc_runs", ctx.tlc_runs)
    cov.setdefault("known_findings_hit", dict(ctx.known_hits))
    if ctx.notes:
        cov.setdefault("notes", ctx.notes)
    if extra:
        ev.update(extra)
    os.makedirs(os.path.join(ROOT, "evidence"), exist_ok=True)
    with open(os.path.join(ROOT, "evidence", ctx.prop + ".json"), "w") as f:
        json.dump(ev, f, indent=1, default=str)
    seen = set()
    for what, path in ctx.violations[:20]:
        if path in seen:
            continue
        seen.add(path)
        print("VIOLATION property=%s replay=%s  # %s" % (ctx.prop, path, what[:300]), flush=True)
    return 1 if ctx.violations else 0


def read_ndjson(path):
    out = []
    with open(path) as f:
        for line in f:
            line = line.strip()
            if line:
                out.append(json.loads(line))
    return out


def write_ndjson(path, rows):
    with open(path, "w") as f:
        for r in rows:
            f.write(json.dumps(r, separators=(",", ":")) + "\n")


def _match_value(pat, val):
    if isinstance(pat, list):
        return val in pat
    if isinstance(pat, dict):
        if not isinstance(val, dict):
            return False
        return all(_match_value(p, val.get(k)) for k, p in pat.items())
    return pat == val


def match_known(findings, record):
    """Return the id of the first known finding whose 'match' predicate covers the record, else None.
    A predicate is a dict of field -> value | list of values | nested dict; all fields must match."""
    for f in findings:
        m = f.get("match")
        if m and _match_value(m, record):
            return f["id"]
    return None


def parallel(jobs, nthreads=4):
    """Run callables in threads (they mostly wait for subprocesses); re-raise the first exception."""
    import concurrent.futures
    with concurrent.futures.ThreadPoolExecutor(max_workers=nthreads) as ex:
        futs = [ex.submit(j) for j in jobs]
        return [f.result() for f in futs]
