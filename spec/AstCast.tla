------------------------------- MODULE AstCast -------------------------------
(***************************************************************************)
(* Properties C14 / C15: the typed accessors of ast.Node as one pure       *)
(* function Cast(value, accessor) of the *value* a node denotes - never of *)
(* how the node came to be (raw text, lazily located, loaded, built by a   *)
(* constructor, wrapped Go value put into the tree by SetAny / AddAny).    *)
(*                                                                         *)
(* TLA+ has no string-to-number conversion, so every scalar carries the    *)
(* facts strconv states about its text (the harness re-derives each fact   *)
(* with strconv and gives no verdict on a value whose facts it disputes):  *)
(*   pi, i : ParseInt(s, 10, 64) succeeds, and the decimal it yields       *)
(*   pf, f : ParseFloat(s, 64) succeeds, and FormatFloat(., 'g', -1, 64)   *)
(*   t     : decimal of the float truncated to int64 ("?" where Go leaves  *)
(*           the conversion implementation-defined: result unspecified)    *)
(*   nz    : the number is not zero                                        *)
(*   pb    : ParseBool(s): "T" | "F" | "E"                                 *)
(*                                                                         *)
(* Values                                                                  *)
(*   k = "null" | "true" | "false" | "num" | "str" | "arr" | "obj"         *)
(*       what JSON text denotes (s = literal text / string content)        *)
(*   k = "any", gk = "bool" | "int" | "uint" | "float" | "string" | "jnum" *)
(*       | "other" : a Go value wrapped by NewAny (s = its text)           *)
(* Class(v) is the JSON kind the value marshals to; the casting accessors  *)
(* (Bool, Int64, Float64, Number, String) are functions of Class and the   *)
(* facts alone - a wrapped 5 and the literal 5 cast alike (Coherent).      *)
(* The Strict accessors export the value only when it already has the      *)
(* accessor's type; for wrapped values that is the Go type.                *)
(*                                                                         *)
(* Results: "b:T" "b:F" "i:<dec>" "f:<g>" "n:<text>" "s:<text>"            *)
(*          "E:unsupported" (ErrUnsupportType) "E:parse" (conversion error)*)
(*          "ANY" (unspecified: no requirement)                            *)
(***************************************************************************)
EXTENDS Naturals, Sequences, TLC

CONSTANT AsBuilt     \* named deviations of the implementation as first read ({} = the requirement)

Fact(pi, i, pf, f, t, nz, pb) == [pi |-> pi, i |-> i, pf |-> pf, f |-> f, t |-> t, nz |-> nz, pb |-> pb]
NoFact == Fact(FALSE, "", FALSE, "", "?", FALSE, "E")
V(k, gk, s, fact) == [k |-> k, gk |-> gk, s |-> s, fa |-> fact, n |-> 0]
C(k, n) == [k |-> k, gk |-> "", s |-> "", fa |-> NoFact, n |-> n]   \* container of n children

\* ---- the number texts of the universe with their facts ----
NumFacts == [
  n0      |-> [s |-> "0",    fa |-> Fact(TRUE, "0", TRUE, "0", "0", FALSE, "F")],
  n1      |-> [s |-> "1",    fa |-> Fact(TRUE, "1", TRUE, "1", "1", TRUE, "T")],
  nm1     |-> [s |-> "-1",   fa |-> Fact(TRUE, "-1", TRUE, "-1", "-1", TRUE, "E")],
  n5      |-> [s |-> "5",    fa |-> Fact(TRUE, "5", TRUE, "5", "5", TRUE, "E")],
  n200    |-> [s |-> "200",  fa |-> Fact(TRUE, "200", TRUE, "200", "200", TRUE, "E")],
  nm129   |-> [s |-> "-129", fa |-> Fact(TRUE, "-129", TRUE, "-129", "-129", TRUE, "E")],
  n70000  |-> [s |-> "70000", fa |-> Fact(TRUE, "70000", TRUE, "70000", "70000", TRUE, "E")],
  n5e9    |-> [s |-> "5000000000", fa |-> Fact(TRUE, "5000000000", TRUE, "5e+09", "5000000000", TRUE, "E")],
  nmz     |-> [s |-> "-0",   fa |-> Fact(TRUE, "0", TRUE, "-0", "0", FALSE, "E")],
  n1p5    |-> [s |-> "1.5",  fa |-> Fact(FALSE, "", TRUE, "1.5", "1", TRUE, "E")],
  nmp5    |-> [s |-> "-0.5", fa |-> Fact(FALSE, "", TRUE, "-0.5", "0", TRUE, "E")],
  n0p0    |-> [s |-> "0.0",  fa |-> Fact(FALSE, "", TRUE, "0", "0", FALSE, "E")],
  n2p0    |-> [s |-> "2.0",  fa |-> Fact(FALSE, "", TRUE, "2", "2", TRUE, "E")],
  n0p1    |-> [s |-> "0.1",  fa |-> Fact(FALSE, "", TRUE, "0.1", "0", TRUE, "E")],
  n1e2    |-> [s |-> "1e2",  fa |-> Fact(FALSE, "", TRUE, "100", "100", TRUE, "E")],
  n1Em2   |-> [s |-> "1E-2", fa |-> Fact(FALSE, "", TRUE, "0.01", "0", TRUE, "E")],
  nmax    |-> [s |-> "9223372036854775807", fa |-> Fact(TRUE, "9223372036854775807", TRUE, "9.223372036854776e+18", "?", TRUE, "E")],
  nmin    |-> [s |-> "-9223372036854775808", fa |-> Fact(TRUE, "-9223372036854775808", TRUE, "-9.223372036854776e+18", "?", TRUE, "E")],
  nover   |-> [s |-> "9223372036854775808", fa |-> Fact(FALSE, "", TRUE, "9.223372036854776e+18", "?", TRUE, "E")],
  numax   |-> [s |-> "18446744073709551615", fa |-> Fact(FALSE, "", TRUE, "1.8446744073709552e+19", "?", TRUE, "E")],
  n1e21   |-> [s |-> "1e+21", fa |-> Fact(FALSE, "", TRUE, "1e+21", "?", TRUE, "E")],
  n1e400  |-> [s |-> "1e400", fa |-> Fact(FALSE, "", FALSE, "", "?", FALSE, "E")],
  nlong   |-> [s |-> "123456789012345678", fa |-> Fact(TRUE, "123456789012345678", TRUE, "1.2345678901234568e+17", "?", TRUE, "E")] ]

\* ---- string contents that are not number texts ----
StrFacts == [
  sempty |-> [s |-> "",      fa |-> NoFact],
  sx     |-> [s |-> "x",     fa |-> NoFact],
  strue  |-> [s |-> "true",  fa |-> Fact(FALSE, "", FALSE, "", "?", FALSE, "T")],
  sfalse |-> [s |-> "false", fa |-> Fact(FALSE, "", FALSE, "", "?", FALSE, "F")],
  sT     |-> [s |-> "T",     fa |-> Fact(FALSE, "", FALSE, "", "?", FALSE, "T")],
  st     |-> [s |-> "t",     fa |-> Fact(FALSE, "", FALSE, "", "?", FALSE, "T")],
  sTRUE  |-> [s |-> "TRUE",  fa |-> Fact(FALSE, "", FALSE, "", "?", FALSE, "T")],
  sf     |-> [s |-> "f",     fa |-> Fact(FALSE, "", FALSE, "", "?", FALSE, "F")],
  stRUE  |-> [s |-> "tRUE",  fa |-> NoFact],
  splus5 |-> [s |-> "+5",    fa |-> Fact(TRUE, "5", TRUE, "5", "5", TRUE, "E")],
  ssp1   |-> [s |-> " 1",    fa |-> NoFact],
  snull  |-> [s |-> "null",  fa |-> NoFact],
  squote |-> [s |-> "a\"b\\c", fa |-> NoFact],
  s1x    |-> [s |-> "1x",    fa |-> NoFact],
  sdot   |-> [s |-> ".",     fa |-> NoFact] ]

JsonNums == {V("num", "", NumFacts[x].s, NumFacts[x].fa) : x \in DOMAIN NumFacts \ {"n1e21"}} \cup {V("num", "", "1e21", NumFacts.n1e21.fa)}
JsonStrs == {V("str", "", StrFacts[x].s, StrFacts[x].fa) : x \in DOMAIN StrFacts}
            \cup {V("str", "", NumFacts[x].s, NumFacts[x].fa) : x \in {"n0", "n1", "nm1", "n1p5", "n1e2", "nmax", "nover", "n1e400", "nmz"}}
JsonLits == {V("null", "", "null", NoFact), V("true", "", "true", NoFact), V("false", "", "false", NoFact)}
JsonCons == {C("arr", 0), C("arr", 2), C("obj", 0), C("obj", 1)}

AnyBools  == {V("any", "bool", "true", NoFact), V("any", "bool", "false", NoFact)}
AnyInts   == {V("any", "int", NumFacts[x].s, NumFacts[x].fa) : x \in {"n0", "n1", "nm1", "n5", "n200", "nm129", "n70000", "n5e9", "nmax", "nmin"}}
AnyUints  == {V("any", "uint", NumFacts[x].s, NumFacts[x].fa) : x \in {"n0", "n5", "n200", "n70000", "n5e9", "numax", "nover"}}
\* a wrapped float's text is FormatFloat(x, 'g', -1, 64): the facts are those of that text
AnyFloats == {V("any", "float", NumFacts[x].s, NumFacts[x].fa) : x \in {"n0", "nmz", "n1", "n5", "n1p5", "nmp5", "n0p1", "n1e21"}}
AnyStrs   == {V("any", "string", StrFacts[x].s, StrFacts[x].fa) : x \in {"sempty", "sx", "strue", "sf", "splus5", "squote"}}
             \cup {V("any", "string", NumFacts[x].s, NumFacts[x].fa) : x \in {"n1", "n0", "n1p5", "nover", "n1e400"}}
AnyJnums  == {V("any", "jnum", NumFacts[x].s, NumFacts[x].fa) : x \in {"n0", "n1", "n5", "n1p5", "n1e2", "nover", "n1e400"}}
AnyOther  == {V("any", "other", "", NoFact)}

Values == JsonNums \cup JsonStrs \cup JsonLits \cup JsonCons
          \cup AnyBools \cup AnyInts \cup AnyUints \cup AnyFloats \cup AnyStrs \cup AnyJnums \cup AnyOther

Casting == {"Bool", "Int64", "Float64", "Number", "String"}
Strict  == {"StrictBool", "StrictInt64", "StrictFloat64", "StrictNumber", "StrictString"}
Accessors == Casting \cup Strict \cup {"Len", "Type"}
LooseOf(a) == CASE a = "StrictBool" -> "Bool" [] a = "StrictInt64" -> "Int64" [] a = "StrictFloat64" -> "Float64"
                [] a = "StrictNumber" -> "Number" [] a = "StrictString" -> "String"

\* ---- the JSON kind a value marshals to ----
Class(v) ==
  IF v.k # "any" THEN v.k
  ELSE CASE v.gk = "bool" -> v.s            \* "true" | "false"
         [] v.gk \in {"int", "uint", "float", "jnum"} -> "num"
         [] v.gk = "string" -> "str"
         [] OTHER -> "other"

Unsup == "E:unsupported"
PErr  == "E:parse"
Unspec == "ANY"
B(b) == IF b THEN "b:T" ELSE "b:F"
IsErr(r) == r \in {Unsup, PErr}

IntOf(v)   == IF v.fa.pi THEN "i:" \o v.fa.i ELSE IF v.fa.pf THEN (IF v.fa.t = "?" THEN Unspec ELSE "i:" \o v.fa.t) ELSE PErr
FloatOf(v) == IF v.fa.pf THEN "f:" \o v.fa.f ELSE PErr

\* ---- the casting accessors: functions of Class(v) and the facts ----
CastLoose(v, a) ==
  LET c == Class(v) IN
  CASE c \in {"arr", "obj", "other"} -> Unsup
    [] c = "null"  -> (CASE a = "Bool" -> B(FALSE) [] a = "Int64" -> "i:0" [] a = "Float64" -> "f:0" [] a = "Number" -> "n:0" [] a = "String" -> "s:")
    [] c = "true"  -> (CASE a = "Bool" -> B(TRUE)  [] a = "Int64" -> "i:1" [] a = "Float64" -> "f:1" [] a = "Number" -> "n:1" [] a = "String" -> "s:true")
    [] c = "false" -> (CASE a = "Bool" -> B(FALSE) [] a = "Int64" -> "i:0" [] a = "Float64" -> "f:0" [] a = "Number" -> "n:0" [] a = "String" -> "s:false")
    [] c = "num"   -> (CASE a = "Bool"    -> IF v.fa.pi \/ v.fa.pf THEN B(v.fa.nz) ELSE PErr
                         [] a = "Int64"   -> IntOf(v)
                         [] a = "Float64" -> FloatOf(v)
                         [] a = "Number"  -> "n:" \o v.s        \* the text itself, whatever its size
                         [] a = "String"  -> "s:" \o v.s)
    [] c = "str"   -> (CASE a = "Bool"    -> IF v.fa.pb = "E" THEN PErr ELSE B(v.fa.pb = "T")
                         [] a = "Int64"   -> IntOf(v)
                         [] a = "Float64" -> FloatOf(v)
                         [] a = "Number"  -> IF v.fa.pi \/ v.fa.pf THEN "n:" \o v.s ELSE PErr
                         [] a = "String"  -> "s:" \o v.s)

\* ---- named deviations (the code as first read): Number() of a wrapped integer or float is "1"/"0";
\*      String() of a wrapped unsigned integer goes through int ----
Deviates(v, a) ==
  \/ "AnyNumberIsBool" \in AsBuilt /\ v.k = "any" /\ v.gk \in {"int", "uint", "float"} /\ a = "Number"
  \/ "AnyUintStringWraps" \in AsBuilt /\ v.k = "any" /\ v.gk = "uint" /\ a = "String" /\ ~v.fa.pi
Deviation(v, a) == IF a = "Number" THEN (IF v.fa.nz THEN "n:1" ELSE "n:0") ELSE "s:-wrapped"

\* ---- the strict accessors ----
CastStrict(v, a) ==
  IF v.k # "any"
  THEN CASE a = "StrictBool"    -> IF v.k \in {"true", "false"} THEN B(v.k = "true") ELSE Unsup
         [] a = "StrictInt64"   -> IF v.k = "num" THEN (IF v.fa.pi THEN "i:" \o v.fa.i ELSE PErr) ELSE Unsup
         [] a = "StrictFloat64" -> IF v.k = "num" THEN FloatOf(v) ELSE Unsup
         [] a = "StrictNumber"  -> IF v.k = "num" THEN "n:" \o v.s ELSE Unsup
         [] a = "StrictString"  -> IF v.k = "str" THEN "s:" \o v.s ELSE Unsup
  ELSE CASE a = "StrictBool"    -> IF v.gk = "bool" THEN B(v.s = "true") ELSE Unsup
         [] a = "StrictInt64"   -> IF v.gk \in {"int", "uint"} THEN (IF v.fa.pi THEN "i:" \o v.fa.i ELSE Unspec)   \* uint64 beyond int64
                                   ELSE IF v.gk = "jnum" THEN (IF v.fa.pi THEN "i:" \o v.fa.i ELSE PErr) ELSE Unsup
         [] a = "StrictFloat64" -> IF v.gk = "float" THEN FloatOf(v) ELSE IF v.gk = "jnum" THEN Unspec ELSE Unsup
         [] a = "StrictNumber"  -> IF v.gk = "jnum" THEN "n:" \o v.s ELSE Unsup
         [] a = "StrictString"  -> IF v.gk = "string" THEN "s:" \o v.s ELSE Unsup

StrLen(s) == Len(s)
Cast(v, a) ==
  IF Deviates(v, a) THEN Deviation(v, a)
  ELSE CASE a \in Casting -> CastLoose(v, a)
         [] a \in Strict  -> CastStrict(v, a)
         [] a = "Len"     -> (CASE v.k \in {"arr", "obj"} -> "i:" \o ToString(v.n)
                                [] v.k = "null" -> "i:0"
                                [] v.k = "str"  -> "i:" \o ToString(StrLen(v.s))
                                [] v.k = "any"  -> Unspec
                                [] OTHER -> Unsup)
         [] a = "Type"    -> "t:" \o v.k

\* ---- generator: one state per (value, accessor) with the required result ----
VARIABLES val, acc, res
vars == <<val, acc, res>>
Init == val \in Values /\ acc \in Accessors /\ res = Cast(val, acc)
Next == FALSE /\ UNCHANGED vars
Spec == Init /\ [][Next]_vars

\* ---- checked on the specification ----
\* a strict accessor that answers gives the casting accessor's answer
StrictRefines == acc \in Strict /\ ~IsErr(res) /\ res # Unspec => Cast(val, LooseOf(acc)) \in {res, Unspec}
\* every scalar casts to every type or fails to parse: "unsupported" is for containers and foreign Go values only
ScalarsCast == acc \in Casting /\ Class(val) \notin {"arr", "obj", "other"} => res # Unsup
\* values that marshal to the same JSON text cast alike, however they are represented
Coherent == acc \in Casting =>
              \A w \in Values : Class(w) = Class(val) /\ w.s = val.s /\ Class(val) \in {"num", "str", "true", "false"}
                                  => Cast(w, acc) \in {res, Unspec} \/ res = Unspec
\* the casts agree among themselves: zero is false, an integer casts to the float of the same number
ZeroIsFalse == Class(val) = "num" /\ acc = "Bool" /\ res = "b:F" => Cast(val, "Int64") \in {"i:0", Unspec}
TextKept == Class(val) \in {"num", "str"} /\ acc = "String" => res = "s:" \o val.s
=============================================================================
