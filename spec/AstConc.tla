------------------------------- MODULE AstConc -------------------------------
(***************************************************************************)
(* Property C16: a node declared concurrently readable (ConcurrentRead /   *)
(* NewRawConcurrentRead / after Load) starts *raw*; the first reader that  *)
(* needs its structure converts it in place while other goroutines read.   *)
(*                                                                         *)
(* Fields of the node: t (atomic), p, l (plain) and an RWMutex.            *)
(* Steps are the code's own atomic steps (ast/node.go, parser.go):         *)
(*   reader needing structure (Get, Index, typed accessors, Interface ...):*)
(*     loadt ; if raw: Lock ; re-check ; parse ; l := ; p := ; t :=(atomic)*)
(*     ; Unlock ; then read p, l                                           *)
(*   Raw():        RLock ; isRaw ; read p ; read l ; RUnlock               *)
(*   MarshalJSON():isRaw ; read p ; read l      -- the raw fast path; it   *)
(*                 takes the read lock only if FastPathLocked              *)
(* The hook points of /repo (vhook.Emit in lock/unlock/rlock/runlock and   *)
(* between the three stores of assign) are exactly the step boundaries, so *)
(* a path of this model is a schedule the harness can replay.              *)
(*                                                                         *)
(* Checked: no torn (p, l) observation, every result equals the sequential *)
(* one, no conflicting plain accesses unordered by synchronisation, mutual *)
(* exclusion, no deadlock.                                                 *)
(***************************************************************************)
EXTENDS Naturals, Sequences, FiniteSets, TLC

CONSTANTS Procs,            \* goroutines
          OpsAllowed,       \* subset of {"get", "raw", "marshal"}
          FastPathLocked    \* TRUE: MarshalJSON's raw fast path takes the read lock (required); FALSE: as built

VARIABLES t, p, l,          \* node fields: t \in {"raw","parsed"}, p \in {"src","tree"}, l \in {"srclen","cnt"}
          wr, rds,          \* RWMutex: writer (or "none"), set of readers
          op, pc,           \* per goroutine: operation and program counter
          seen,             \* per goroutine: [t, p, l] as observed ("" = not read)
          res,              \* per goroutine: result ("" while running)
          unsync,           \* goroutines that read p or l without lock after observing raw
          wrote,            \* goroutines that wrote p or l
          sched             \* history: sequence of <<proc, step>> (the schedule to replay)
vars == <<t, p, l, wr, rds, op, pc, seen, res, unsync, wrote, sched>>

None == 0   \* procs are positive integers

Init == /\ t = "raw" /\ p = "src" /\ l = "srclen" /\ wr = None /\ rds = {}
        /\ op \in [Procs -> OpsAllowed]
        /\ pc = [q \in Procs |-> "start"]
        /\ seen = [q \in Procs |-> [t |-> "", p |-> "", l |-> ""]]
        /\ res = [q \in Procs |-> ""]
        /\ unsync = {} /\ wrote = {} /\ sched = <<>>

Go(q, to) == pc' = [pc EXCEPT ![q] = to]
Log(q, step) == sched' = Append(sched, <<q, step>>)

\* result of reading (p, l): what the caller gets back
ResultOf(pp, ll) == IF pp = "src" /\ ll = "srclen" THEN "rawtext"
                    ELSE IF pp = "tree" /\ ll = "cnt" THEN "treetext"
                    ELSE "TORN"

\* ---- get: needs the parsed structure ----
GetLoadT(q) == /\ pc[q] = "start" /\ op[q] = "get"
               /\ seen' = [seen EXCEPT ![q].t = t]
               /\ Go(q, IF t = "raw" THEN "g_lock" ELSE "g_read")
               /\ Log(q, "loadt") /\ UNCHANGED <<t, p, l, wr, rds, op, res, unsync, wrote>>
GetLock(q) == /\ pc[q] = "g_lock" /\ wr = None /\ rds = {}
              /\ wr' = q /\ Go(q, "g_check")
              /\ Log(q, "lock") /\ UNCHANGED <<t, p, l, rds, op, seen, res, unsync, wrote>>
GetCheck(q) == /\ pc[q] = "g_check"
               /\ Go(q, IF t = "raw" THEN "g_l" ELSE "g_unlock")      \* double check under the lock
               /\ Log(q, "recheck") /\ UNCHANGED <<t, p, l, wr, rds, op, seen, res, unsync, wrote>>
GetStoreL(q) == /\ pc[q] = "g_l" /\ l' = "cnt" /\ wrote' = wrote \cup {q} /\ Go(q, "g_p")
                /\ Log(q, "assign.l") /\ UNCHANGED <<t, p, wr, rds, op, seen, res, unsync>>
GetStoreP(q) == /\ pc[q] = "g_p" /\ p' = "tree" /\ Go(q, "g_t")
                /\ Log(q, "assign.p") /\ UNCHANGED <<t, l, wr, rds, op, seen, res, unsync, wrote>>
GetStoreT(q) == /\ pc[q] = "g_t" /\ t' = "parsed" /\ Go(q, "g_unlock")
                /\ Log(q, "assign.t") /\ UNCHANGED <<p, l, wr, rds, op, seen, res, unsync, wrote>>
GetUnlock(q) == /\ pc[q] = "g_unlock" /\ wr' = None /\ Go(q, "g_read")
                /\ Log(q, "unlock") /\ UNCHANGED <<t, p, l, rds, op, seen, res, unsync, wrote>>
GetRead(q) == /\ pc[q] = "g_read"          \* after t was seen parsed (atomic acquire) or after own unlock
              /\ res' = [res EXCEPT ![q] = IF ResultOf(p, l) = "treetext" THEN "child" ELSE "TORN"]
              /\ Go(q, "done")
              /\ Log(q, "read") /\ UNCHANGED <<t, p, l, wr, rds, op, seen, unsync, wrote>>

\* ---- Raw(): read lock around the raw test and the reads ----
RawRLock(q) == /\ pc[q] = "start" /\ op[q] = "raw" /\ wr = None
               /\ rds' = rds \cup {q} /\ Go(q, "r_read")
               /\ Log(q, "rlock") /\ UNCHANGED <<t, p, l, wr, op, seen, res, unsync, wrote>>
RawRead(q) == /\ pc[q] = "r_read"
              /\ res' = [res EXCEPT ![q] = IF t = "raw" THEN ResultOf(p, l) ELSE "treetext"]
              /\ Go(q, "r_unlock")
              /\ Log(q, "rawread") /\ UNCHANGED <<t, p, l, wr, rds, op, seen, unsync, wrote>>
RawRUnlock(q) == /\ pc[q] = "r_unlock" /\ rds' = rds \ {q} /\ Go(q, "done")
                 /\ Log(q, "runlock") /\ UNCHANGED <<t, p, l, wr, op, seen, res, unsync, wrote>>

\* ---- MarshalJSON(): raw fast path ----
MarIsRaw(q) == /\ pc[q] = "start" /\ op[q] = "marshal"
               /\ (FastPathLocked => wr = None)
               /\ rds' = IF FastPathLocked THEN rds \cup {q} ELSE rds
               /\ seen' = [seen EXCEPT ![q].t = t]
               /\ Go(q, IF t = "raw" THEN "m_p" ELSE "m_enc")
               /\ Log(q, "israw") /\ UNCHANGED <<t, p, l, wr, op, res, unsync, wrote>>
MarReadP(q) == /\ pc[q] = "m_p"
               /\ seen' = [seen EXCEPT ![q].p = p]
               /\ unsync' = IF FastPathLocked THEN unsync ELSE unsync \cup {q}
               /\ Go(q, "m_l")
               /\ Log(q, "readp") /\ UNCHANGED <<t, p, l, wr, rds, op, res, wrote>>
MarReadL(q) == /\ pc[q] = "m_l"
               /\ res' = [res EXCEPT ![q] = ResultOf(seen[q].p, l)]
               /\ rds' = rds \ {q}
               /\ Go(q, "done")
               /\ Log(q, "readl") /\ UNCHANGED <<t, p, l, wr, op, seen, unsync, wrote>>
MarEncode(q) == /\ pc[q] = "m_enc"          \* t was seen parsed: plain reads are ordered after the stores
                /\ res' = [res EXCEPT ![q] = IF ResultOf(p, l) = "treetext" THEN "treetext" ELSE "TORN"]
                /\ rds' = rds \ {q}
                /\ Go(q, "done")
                /\ Log(q, "encode") /\ UNCHANGED <<t, p, l, wr, op, seen, unsync, wrote>>

Step(q) == GetLoadT(q) \/ GetLock(q) \/ GetCheck(q) \/ GetStoreL(q) \/ GetStoreP(q) \/ GetStoreT(q) \/ GetUnlock(q) \/ GetRead(q)
           \/ RawRLock(q) \/ RawRead(q) \/ RawRUnlock(q)
           \/ MarIsRaw(q) \/ MarReadP(q) \/ MarReadL(q) \/ MarEncode(q)
Next == \E q \in Procs : Step(q)
Spec == Init /\ [][Next]_vars /\ WF_vars(Next)

\* ---- properties ----
AllDone == \A q \in Procs : pc[q] = "done"
NoTorn == \A q \in Procs : res[q] # "TORN"
\* sequential results: Raw/MarshalJSON give the raw text or the re-encoded text (same JSON value), get gives the child
Sequential == \A q \in Procs : res[q] # "" =>
                 CASE op[q] = "get" -> res[q] = "child"
                   [] OTHER -> res[q] \in {"rawtext", "treetext"}
\* two conflicting plain accesses with no synchronisation between the goroutines
NoRace == ~(\E r \in unsync : \E w \in wrote : r # w)
MutexOK == (wr # None => rds = {}) /\ (wr # None => pc[wr] \in {"g_check", "g_l", "g_p", "g_t", "g_unlock"})
\* everybody finishes (no deadlock, no lost wake-up) - checked as a liveness property
Terminates == <>AllDone
=============================================================================
