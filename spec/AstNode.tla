------------------------------- MODULE AstNode -------------------------------
(***************************************************************************)
(* Implementation-shaped model of one ast.Node container (ast/node.go,     *)
(* buffer.go, parser.go): the hidden representation                        *)
(*     raw -> lazy (parser cursor + parsed slots) -> loaded                *)
(* with soft-deleted slots (tombstones), the logical length l, and the key *)
(* index that objects get once they are fully loaded and hold more than    *)
(* IdxT pairs.  Children are scalars here; nesting is covered by AstTree   *)
(* (replay and trace validation), this module is about the representation. *)
(*                                                                         *)
(* Every operation is applied to the representation and to the plain tree  *)
(* (AstTree!Apply on abs); TLC checks that the two observations agree      *)
(* after every operation sequence (refinement) and that the representation *)
(* invariants hold.                                                        *)
(*                                                                         *)
(* AsBuilt switches model the code before the fix: commits in /repo:       *)
(*   "NegIdx"        nodeAt/pairAt accept a negative index after a delete  *)
(*   "IndexLastWins" BuildIndex lets the last duplicate win                *)
(*   "MoveRange"     Move does not check the logical range with tombstones *)
(* and the documented deviation that stays (known finding):                *)
(*   "LenLazy"       Len returns the number of children parsed so far      *)
(***************************************************************************)
EXTENDS AstTree, FiniteSets

CONSTANTS Docs,        \* initial documents (AstTree arrays / objects of scalars)
          MaxOps, IdxT, AsBuilt

Has(d) == d \in AsBuilt
TOMB == [key |-> "", val |-> Num(0), live |-> FALSE]
Slot(k, v) == [key |-> k, val |-> v, live |-> TRUE]

VARIABLES abs,      \* the plain tree
          isobj, src,  \* the document: kind and children as slots (never changes)
          repr,     \* "raw" | "lazy" | "loaded"
          cur,      \* lazy: number of source children parsed
          slots,    \* parsed / stored children, tombstones included
          l,        \* logical length field
          hasidx,   \* object index built
          obs,      \* <<implementation, tree>> observation of the last operation
          nops
vars == <<abs, isobj, src, repr, cur, slots, l, hasidx, obs, nops>>

SrcOf(d) == IF IsObj(d) THEN [i \in 1..Len(d.e) |-> Slot(d.e[i].key, d.e[i].val)]
            ELSE [i \in 1..Len(d.e) |-> Slot("", d.e[i])]

Init == /\ abs \in Docs /\ isobj = IsObj(abs) /\ src = SrcOf(abs)
        /\ repr = "raw" /\ cur = 0 /\ slots = <<>> /\ l = 0 /\ hasidx = FALSE /\ obs = <<"", "">> /\ nops = 0

\* ---- representation helpers (functions of an explicit state record) ----
St == [repr |-> repr, cur |-> cur, slots |-> slots, l |-> l, hasidx |-> hasidx]

Live(ss) == SelectSeq(ss, LAMBDA x : x.live)

\* checkRaw / parseRaw: raw -> lazy (or loaded at once when the container is empty)
Ensure(s) == IF s.repr # "raw" THEN s
             ELSE IF src = <<>> THEN [s EXCEPT !.repr = "loaded"]
             ELSE [s EXCEPT !.repr = "lazy"]

\* the transition lazy -> loaded builds the index for big objects (newObject / setObject)
Finish(s) == IF s.cur = Len(src)
             THEN [s EXCEPT !.repr = "loaded", !.hasidx = isobj /\ Len(s.slots) > IdxT]
             ELSE s

\* skipNextNode / skipNextPair: parse one more child
Step(s) == Finish([s EXCEPT !.cur = s.cur + 1, !.slots = Append(s.slots, src[s.cur + 1]), !.l = s.l + 1])

RECURSIVE LoadAll(_)
LoadAll(s0) == LET s == Ensure(s0) IN IF s.repr = "lazy" THEN LoadAll(Step(s)) ELSE s

RECURSIVE LoadUntilLen(_, _)
LoadUntilLen(s, i) == IF s.repr = "lazy" /\ ~(s.l > i) THEN LoadUntilLen(Step(s), i) ELSE s

\* parse on until a pair with the key has been parsed: [s, p] with p its slot, 0 if the source ends first
RECURSIVE LoadUntilKey(_, _)
LoadUntilKey(s, key) ==
  IF s.repr # "lazy" THEN [s |-> s, p |-> 0]
  ELSE LET t == Step(s) IN
       IF src[s.cur + 1].key = key THEN [s |-> t, p |-> Len(t.slots)] ELSE LoadUntilKey(t, key)

\* nodeAt / pairAt: physical position (1-based) of logical index i, 0 if none
PhysOf(s, i) ==
  IF s.repr = "lazy" \/ Len(s.slots) = s.l
  THEN (IF i >= 0 /\ i < Len(s.slots) THEN i + 1 ELSE 0)
  ELSE IF i < 0 /\ ~Has("NegIdx") THEN 0
  ELSE LET RECURSIVE F(_, _)
           F(j, k) == IF j > Len(s.slots) THEN 0
                      ELSE IF s.slots[j].live /\ k - 1 < 0 THEN j
                      ELSE F(j + 1, IF s.slots[j].live THEN k - 1 ELSE k)
       IN F(1, i)

\* linkedPairs.Get: index (first or last duplicate) or linear search (first)
KeyPos(s, key) ==
  LET cand == {j \in 1..Len(s.slots) : s.slots[j].live /\ s.slots[j].key = key} IN
  IF cand = {} THEN 0
  ELSE IF s.hasidx /\ Has("IndexLastWins") THEN CHOOSE j \in cand : \A k \in cand : k <= j
  ELSE CHOOSE j \in cand : \A k \in cand : j <= k

\* skipKey: search the parsed part, then parse on
GetKey(s0, key) ==
  LET s == Ensure(s0)
      p == KeyPos(s, key)
  IN IF p # 0 THEN [s |-> s, p |-> p] ELSE LoadUntilKey(s, key)

\* skipIndex
GetIdx(s0, i) ==
  LET s == Ensure(s0) IN
  IF s.l > i THEN [s |-> s, p |-> PhysOf(s, i)]
  ELSE LET t == LoadUntilLen(s, i) IN
       [s |-> t, p |-> IF t.l > i /\ Len(t.slots) > Len(s.slots) THEN Len(t.slots) ELSE 0]

\* Pop: drop tombstones at the tail, then one live slot
RECURSIVE PopTail(_)
PopTail(s) == IF s.slots = <<>> THEN s
              ELSE LET last == s.slots[Len(s.slots)]
                       rest == [s EXCEPT !.slots = SubSeq(s.slots, 1, Len(s.slots) - 1)]
                   IN IF last.live THEN [rest EXCEPT !.l = s.l - 1] ELSE PopTail(rest)

Commit(s) == /\ repr' = s.repr /\ cur' = s.cur /\ slots' = s.slots /\ l' = s.l /\ hasidx' = s.hasidx

RenderSlots(ss) ==
  LET v == Live(ss) IN
  IF isobj THEN Render(Obj([i \in 1..Len(v) |-> Pair(v[i].key, v[i].val)]))
  ELSE Render(Arr([i \in 1..Len(v) |-> v[i].val]))

\* ---- operations: implementation side returns [s, o] ----
ImplApply(op) ==
  CASE op.o = "Len" ->
         LET s == IF Has("LenLazy") THEN Ensure(St) ELSE LoadAll(St) IN [s |-> s, o |-> ToString(s.l)]
    [] op.o = "Index" ->
         LET g == GetIdx(St, op.i) IN [s |-> g.s, o |-> IF g.p = 0 THEN "NX" ELSE Render(g.s.slots[g.p].val)]
    [] op.o = "Get" ->
         IF ~isobj THEN [s |-> Ensure(St), o |-> "ERR"]
         ELSE LET g == GetKey(St, op.key) IN [s |-> g.s, o |-> IF g.p = 0 THEN "NX" ELSE Render(g.s.slots[g.p].val)]
    [] op.o = "Set" ->
         IF ~isobj THEN [s |-> Ensure(St), o |-> "ERR"]
         ELSE LET g == GetKey(St, op.key) IN
              IF g.p = 0 THEN [s |-> [g.s EXCEPT !.slots = Append(g.s.slots, Slot(op.key, op.v)), !.l = g.s.l + 1], o |-> "F"]
              ELSE [s |-> [g.s EXCEPT !.slots[g.p] = Slot(op.key, op.v)], o |-> "T"]
    [] op.o = "SetByIndex" ->
         LET g == GetIdx(St, op.i) IN
         IF g.p = 0 THEN [s |-> g.s, o |-> "NX"]
         ELSE [s |-> [g.s EXCEPT !.slots[g.p] = Slot(g.s.slots[g.p].key, op.v)], o |-> "T"]
    [] op.o = "Add" ->
         IF isobj THEN [s |-> Ensure(St), o |-> "ERR"]
         ELSE LET s == LoadAll(St) IN [s |-> [s EXCEPT !.slots = Append(s.slots, Slot("", op.v)), !.l = s.l + 1], o |-> "OK"]
    [] op.o = "Unset" ->
         IF ~isobj THEN [s |-> Ensure(St), o |-> "ERR"]
         ELSE LET s == LoadAll(St)
                  p == KeyPos(s, op.key)
              IN IF p = 0 THEN [s |-> s, o |-> "F"]
                 ELSE [s |-> [s EXCEPT !.slots[p] = TOMB, !.l = s.l - 1], o |-> "T"]
    [] op.o = "UnsetByIndex" ->
         LET s == LoadAll(St)
             p == PhysOf(s, op.i)
         IN IF p = 0 THEN [s |-> s, o |-> "NX"]
            ELSE IF op.i = s.l - 1 THEN [s |-> PopTail(s), o |-> "T"]
            ELSE [s |-> [s EXCEPT !.slots[p] = TOMB, !.l = s.l - 1], o |-> "T"]
    [] op.o = "Pop" -> [s |-> PopTail(LoadAll(St)), o |-> "OK"]
    [] op.o = "Move" ->
         IF isobj THEN [s |-> Ensure(St), o |-> "ERR"]
         ELSE LET s == LoadAll(St)
                  tomb == Len(s.slots) # s.l
                  inr(x) == x >= 0 /\ x < s.l
                  \* translation of logical into physical positions; an index beyond the logical
                  \* length stays untranslated (as built) or makes Move a no-op (fixed)
                  ps == IF tomb /\ ~inr(op.j) THEN (IF Has("MoveRange") THEN op.j + 1 ELSE 0) ELSE PhysOf(s, op.j)
                  pd == IF tomb /\ ~inr(op.i) THEN (IF Has("MoveRange") THEN op.i + 1 ELSE 0) ELSE PhysOf(s, op.i)
              IN IF ps < 1 \/ pd < 1 \/ ps > Len(s.slots) \/ pd > Len(s.slots) \/ (tomb /\ ~Has("MoveRange") /\ (~inr(op.i) \/ ~inr(op.j)))
                 THEN [s |-> s, o |-> "OK"]
                 ELSE [s |-> [s EXCEPT !.slots = InsertAt(RemoveAt(s.slots, ps), pd, s.slots[ps])], o |-> "OK"]
    [] op.o = "Load" -> [s |-> LoadAll(St), o |-> "OK"]
    [] op.o = "Marshal" ->
         \* raw nodes answer with their source text; anything else is loaded first
         IF repr = "raw" THEN [s |-> St, o |-> RenderSlots(src)]
         ELSE LET s == LoadAll(St) IN [s |-> s, o |-> RenderSlots(s.slots)]

Vals == {Num(7)}
Keys == {"a", "b", "z"}
Ops == {Op("Len", 0, 0, "", Num(0)), Op("Pop", 0, 0, "", Num(0)), Op("Load", 0, 0, "", Num(0)), Op("Marshal", 0, 0, "", Num(0))}
  \cup {Op("Index", i, 0, "", Num(0)) : i \in (0 - 1)..3}
  \cup {Op("Get", 0, 0, k, Num(0)) : k \in Keys}
  \cup {Op("Set", 0, 0, k, v) : k \in Keys, v \in Vals}
  \cup {Op("SetByIndex", i, 0, "", v) : i \in (0 - 1)..3, v \in Vals}
  \cup {Op("Add", 0, 0, "", v) : v \in Vals}
  \cup {Op("Unset", 0, 0, k, Num(0)) : k \in Keys}
  \cup {Op("UnsetByIndex", i, 0, "", Num(0)) : i \in (0 - 1)..3}
  \cup {Op("Move", i, j, "", Num(0)) : i \in 0..3, j \in 0..3}

Next ==
  /\ nops < MaxOps
  /\ \E op \in Ops :
       LET r == ImplApply(op)
           a == Apply(abs, op)
       IN /\ Commit(r.s) /\ abs' = a.t /\ obs' = <<r.o, a.obs>> /\ nops' = nops + 1
  /\ UNCHANGED <<isobj, src>>

Spec == Init /\ [][Next]_vars

\* ---- refinement and representation invariants ----
ObsEq == obs[1] = obs[2]
\* the live slots followed by the unparsed source are the tree
AbsIsRepr ==
  LET rest == SubSeq(src, cur + 1, Len(src))
      all == IF repr = "raw" THEN src ELSE Live(slots) \o (IF repr = "lazy" THEN rest ELSE <<>>)
  IN RenderSlots(all) = Render(abs)
ReprInv == /\ (repr = "loaded" => l = Len(Live(slots)))
           /\ (repr = "lazy" => l = Len(slots) /\ cur = Len(slots) /\ \A i \in 1..Len(slots) : slots[i].live)
           /\ (repr = "raw" => l = 0 /\ slots = <<>>)
           /\ (hasidx => repr = "loaded" /\ isobj)
=============================================================================
