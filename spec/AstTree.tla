------------------------------- MODULE AstTree -------------------------------
(***************************************************************************)
(* The plain ordered tree that an ast.Node must be indistinguishable from   *)
(* (property C15): values, the operations of the Node API as pure functions *)
(* Apply(target, op) -> [t: new target, obs: what the caller observes], and *)
(* the canonical text MarshalJSON must produce.                             *)
(*                                                                         *)
(* Values                                                                  *)
(*   Num(n)  Str(s)  Null                                                  *)
(*   Arr(<<v1, ..>>)                                                       *)
(*   Obj(<<[key |-> k, val |-> v], ..>>)   -- a *sequence*: order and      *)
(*                                            duplicate keys are observable*)
(* Observations are strings:                                               *)
(*   the JSON text of a located node, "NX" (does not exist), "ERR" (the    *)
(*   operation does not apply to this kind of node), "T"/"F", "OK",        *)
(*   decimal numbers, and comma separated listings for iteration.          *)
(* Nothing here knows about raw / lazy / loaded representations,           *)
(* tombstones, chunks or indexes: that is the point.                       *)
(***************************************************************************)
EXTENDS Naturals, Sequences, TLC

Num(n)  == [k |-> "num", n |-> n, s |-> "", e |-> <<>>]
Str(s)  == [k |-> "str", n |-> 0, s |-> s, e |-> <<>>]
Null    == [k |-> "null", n |-> 0, s |-> "", e |-> <<>>]
\* a literal that is neither an integer nor a string nor null: true, false, and number texts with a fraction or an exponent
\* (s is its JSON text; what encoding/json decodes it to is tabulated in LitIface)
Lit(s)  == [k |-> "lit", n |-> 0, s |-> s, e |-> <<>>]
LitTexts == {"true", "false", "1.5", "-0.5", "1e3", "2.0"}
LitIface(s) == CASE s = "1e3" -> "1000" [] s = "2.0" -> "2" [] OTHER -> s     \* float64 printed the way encoding/json prints it
LitIsBool(s) == s \in {"true", "false"}
Arr(es) == [k |-> "arr", n |-> 0, s |-> "", e |-> es]
Obj(ps) == [k |-> "obj", n |-> 0, s |-> "", e |-> ps]
Pair(key, v) == [key |-> key, val |-> v]

IsArr(v) == v.k = "arr"
IsObj(v) == v.k = "obj"

\* ---- canonical text ----
RECURSIVE Render(_)
RECURSIVE JoinVals(_, _)
RECURSIVE JoinPairs(_, _)
JoinVals(es, i)  == IF i > Len(es) THEN "" ELSE (IF i > 1 THEN "," ELSE "") \o Render(es[i]) \o JoinVals(es, i + 1)
JoinPairs(ps, i) == IF i > Len(ps) THEN ""
                    ELSE (IF i > 1 THEN "," ELSE "") \o "\"" \o ps[i].key \o "\":" \o Render(ps[i].val) \o JoinPairs(ps, i + 1)
Render(v) == CASE v.k = "num"  -> ToString(v.n)
               [] v.k = "str"  -> "\"" \o v.s \o "\""
               [] v.k = "null" -> "null"
               [] v.k = "lit"  -> v.s
               [] v.k = "arr"  -> "[" \o JoinVals(v.e, 1) \o "]"
               [] v.k = "obj"  -> "{" \o JoinPairs(v.e, 1) \o "}"

\* ---- helpers on sequences ----
RemoveAt(s, i) == SubSeq(s, 1, i - 1) \o SubSeq(s, i + 1, Len(s))
InsertAt(s, i, x) == SubSeq(s, 1, i - 1) \o <<x>> \o SubSeq(s, i, Len(s))
FirstKey(ps, key) == IF \E i \in 1..Len(ps) : ps[i].key = key
                     THEN CHOOSE i \in 1..Len(ps) : ps[i].key = key /\ \A j \in 1..(i - 1) : ps[j].key # key
                     ELSE 0

\* stable insertion sort of pairs by key (keys are compared as strings of one character here)
\* TLA+ has no order on strings: the keys the models and the recorded traces may use are listed here in
\* byte order (which is the order SortKeys must produce)
KeyUniverse == << "", "a", "b", "c", "d", "k00", "k01", "k02", "k03", "k04",
                 "k05", "k06", "k07", "k08", "k09", "k10", "k11", "k12", "k13", "k14",
                 "k15", "k16", "k17", "k18", "k19", "k20", "k21", "k22", "k23", "k24",
                 "k25", "k26", "k27", "k28", "k29", "k30", "k31", "k32", "k33", "k34",
                 "k35", "k36", "k37", "k38", "k39", "k40", "k41", "k42", "k43", "k44",
                 "k45", "k46", "k47", "k48", "k49", "z" >>
KeyOrd(x) == CHOOSE i \in 1..Len(KeyUniverse) : KeyUniverse[i] = x
KeyLess(a, b) == KeyOrd(a) < KeyOrd(b)
RECURSIVE SortPairs(_)
SortPairs(ps) ==
  IF Len(ps) <= 1 THEN ps ELSE
  LET rest == SortPairs(SubSeq(ps, 2, Len(ps)))
      x == ps[1]
      \* x preceded every element of rest: it goes before the first element that is not smaller (stable)
      pos == IF \E i \in 1..Len(rest) : ~KeyLess(rest[i].key, x.key)
             THEN CHOOSE i \in 1..Len(rest) : ~KeyLess(rest[i].key, x.key) /\ \A j \in 1..(i - 1) : KeyLess(rest[j].key, x.key)
             ELSE Len(rest) + 1
  IN InsertAt(rest, pos, x)

RECURSIVE SortRec(_)
SortRec(v) == CASE v.k = "obj" -> Obj(SortPairs([i \in 1..Len(v.e) |-> Pair(v.e[i].key, SortRec(v.e[i].val))]))
                [] v.k = "arr" -> Arr([i \in 1..Len(v.e) |-> SortRec(v.e[i])])
                [] OTHER -> v

\* SortKeys(false): arrays are transparent, the first object met on each branch is sorted, nothing below it
RECURSIVE SortNR(_)
SortNR(v) == CASE v.k = "obj" -> Obj(SortPairs(v.e))
               [] v.k = "arr" -> Arr([i \in 1..Len(v.e) |-> SortNR(v.e[i])])
               [] OTHER -> v

\* Interface(): what encoding/json would decode the text into, rendered canonically:
\* objects become Go maps (last duplicate wins) printed with sorted keys
\* (num: the UseNumber conversions keep a number's text)
RECURSIVE IfaceRenderX(_, _)
DedupLast(ps) == SelectSeq([i \in 1..Len(ps) |-> [p |-> ps[i], last |-> \A j \in (i + 1)..Len(ps) : ps[j].key # ps[i].key]],
                           LAMBDA x : x.last)
IfaceRenderX(v, num) ==
  CASE v.k = "arr" -> "[" \o (LET RECURSIVE J(_)
                                  J(i) == IF i > Len(v.e) THEN "" ELSE (IF i > 1 THEN "," ELSE "") \o IfaceRenderX(v.e[i], num) \o J(i + 1)
                              IN J(1)) \o "]"
    [] v.k = "obj" -> LET d == DedupLast(v.e)
                          ps == SortPairs([i \in 1..Len(d) |-> d[i].p])
                          RECURSIVE J(_)
                          J(i) == IF i > Len(ps) THEN ""
                                  ELSE (IF i > 1 THEN "," ELSE "") \o "\"" \o ps[i].key \o "\":" \o IfaceRenderX(ps[i].val, num) \o J(i + 1)
                      IN "{" \o J(1) \o "}"
    [] v.k = "lit" -> IF num THEN v.s ELSE LitIface(v.s)
    [] OTHER -> Render(v)
IfaceRender(v) == IfaceRenderX(v, FALSE)
IfaceNumRender(v) == IfaceRenderX(v, TRUE)

\* ---- addressing a target below the root ----
\* a step is [t |-> "i", i |-> n, key |-> ""] or [t |-> "k", i |-> 0, key |-> k]
StepI(i) == [t |-> "i", i |-> i, key |-> ""]
StepK(k) == [t |-> "k", i |-> 0, key |-> k]

Child(v, st) ==   \* position (1-based) of the child a step designates, 0 if none
  IF st.t = "i" THEN (IF (IsArr(v) \/ IsObj(v)) /\ st.i >= 0 /\ st.i < Len(v.e) THEN st.i + 1 ELSE 0)
  ELSE (IF IsObj(v) THEN FirstKey(v.e, st.key) ELSE 0)

ChildVal(v, p) == IF IsObj(v) THEN v.e[p].val ELSE v.e[p]

RECURSIVE Resolves(_, _)
Resolves(v, path) == path = <<>> \/ (Child(v, path[1]) # 0 /\ Resolves(ChildVal(v, Child(v, path[1])), Tail(path)))

RECURSIVE At(_, _)
At(v, path) == IF path = <<>> THEN v ELSE At(ChildVal(v, Child(v, path[1])), Tail(path))

\* ---- operations ----
\* op = [o |-> name, i |-> int, j |-> int, key |-> string, v |-> value]
Op(o, i, j, key, v) == [o |-> o, i |-> i, j |-> j, key |-> key, v |-> v]
Res(t, obs) == [t |-> t, obs |-> obs]
BoolObs(b) == IF b THEN "T" ELSE "F"

Listing(v) ==
  IF IsArr(v) THEN JoinVals(v.e, 1)
  ELSE IF IsObj(v) THEN JoinPairs(v.e, 1)
  ELSE "ERR"

Apply(t, op) ==
  LET n == Len(t.e) IN
  CASE op.o = "Len" ->
         Res(t, IF t.k \in {"arr", "obj"} THEN ToString(n) ELSE IF t.k = "null" THEN "0"
                ELSE IF t.k = "str" THEN "STRLEN" ELSE "ERR")
    [] op.o = "Index" ->
         Res(t, IF IsArr(t) THEN (IF op.i >= 0 /\ op.i < n THEN Render(t.e[op.i + 1]) ELSE "NX")
                ELSE IF IsObj(t) THEN (IF op.i >= 0 /\ op.i < n THEN Render(t.e[op.i + 1].val) ELSE "NX")
                ELSE "ERR")
    [] op.o = "Get" ->
         Res(t, IF IsObj(t) THEN (LET p == FirstKey(t.e, op.key) IN IF p = 0 THEN "NX" ELSE Render(t.e[p].val)) ELSE "ERR")
    [] op.o = "IndexOrGet" ->
         Res(t, IF ~IsObj(t) THEN "ERR"
                ELSE IF op.i >= 0 /\ op.i < n /\ t.e[op.i + 1].key = op.key THEN Render(t.e[op.i + 1].val)
                ELSE LET p == FirstKey(t.e, op.key) IN IF p = 0 THEN "NX" ELSE Render(t.e[p].val))
    [] op.o = "Set" ->
         IF t.k = "null" THEN Res(Obj(<<Pair(op.key, op.v)>>), "F")
         ELSE IF ~IsObj(t) THEN Res(t, "ERR")
         ELSE LET p == FirstKey(t.e, op.key) IN
              IF p = 0 THEN Res(Obj(Append(t.e, Pair(op.key, op.v))), "F")
              ELSE Res(Obj([t.e EXCEPT ![p] = Pair(op.key, op.v)]), "T")
    [] op.o = "SetByIndex" ->
         IF t.k = "null" /\ op.i = 0 THEN Res(Arr(<<op.v>>), "F")
         ELSE IF IsArr(t) THEN (IF op.i >= 0 /\ op.i < n THEN Res(Arr([t.e EXCEPT ![op.i + 1] = op.v]), "T") ELSE Res(t, "NX"))
         ELSE IF IsObj(t) THEN (IF op.i >= 0 /\ op.i < n
                                THEN Res(Obj([t.e EXCEPT ![op.i + 1] = Pair(t.e[op.i + 1].key, op.v)]), "T") ELSE Res(t, "NX"))
         ELSE Res(t, "ANYERR")
    [] op.o = "Add" ->
         IF t.k = "null" THEN Res(Arr(<<op.v>>), "OK")
         ELSE IF IsArr(t) THEN Res(Arr(Append(t.e, op.v)), "OK")
         ELSE Res(t, "ERR")
    [] op.o = "Unset" ->
         IF ~IsObj(t) THEN Res(t, "ERR")
         ELSE LET p == FirstKey(t.e, op.key) IN
              IF p = 0 THEN Res(t, "F") ELSE Res(Obj(RemoveAt(t.e, p)), "T")
    [] op.o = "UnsetByIndex" ->
         IF IsArr(t) \/ IsObj(t)
         THEN (IF op.i >= 0 /\ op.i < n THEN Res([t EXCEPT !.e = RemoveAt(t.e, op.i + 1)], "T") ELSE Res(t, "NX"))
         ELSE Res(t, "ERR")
    [] op.o = "Pop" ->
         IF IsArr(t) \/ IsObj(t) THEN Res([t EXCEPT !.e = IF n = 0 THEN <<>> ELSE SubSeq(t.e, 1, n - 1)], "OK")
         ELSE Res(t, "ERR")
    [] op.o = "Move" ->   \* Move(dst, src): remove src, insert at dst; out of range: no effect
         IF ~IsArr(t) THEN Res(t, "ERR")
         ELSE IF op.i >= 0 /\ op.i < n /\ op.j >= 0 /\ op.j < n
              THEN Res(Arr(InsertAt(RemoveAt(t.e, op.j + 1), op.i + 1, t.e[op.j + 1])), "OK")
              ELSE Res(t, "OK")
    [] op.o = "SortKeys" -> Res(IF op.i = 1 THEN SortRec(t) ELSE SortNR(t), "OK")
    [] op.o = "Load"      -> Res(t, "OK")
    [] op.o = "Marshal"   -> Res(t, Render(t))
    [] op.o = "Iterate"   -> Res(t, Listing(t))
    [] op.o = "Interface" -> Res(t, IfaceRender(t))
    \* ---- further read-only views (none changes the tree) ----
    \* the iterator objects (Values / Properties driven by HasNext + Next): the children in order, each exactly once,
    \* HasNext true exactly while one is left
    [] op.o = "Values"     -> Res(t, IF IsArr(t) THEN Listing(t) ELSE "ANYERR")
    [] op.o = "Properties" -> Res(t, IF IsObj(t) THEN Listing(t) ELSE "ANYERR")
    \* IndexPair(i): the i-th member (key and value) of an object, nothing otherwise
    [] op.o = "IndexPair" ->
         Res(t, IF IsObj(t) /\ op.i >= 0 /\ op.i < n THEN "\"" \o t.e[op.i + 1].key \o "\":" \o Render(t.e[op.i + 1].val) ELSE "NX")
    \* IndexOrGetWithIdx(i, key): IndexOrGet and the position of the member it returned (-1: none)
    [] op.o = "IndexOrGetWithIdx" ->
         Res(t, IF ~IsObj(t) THEN "ANYERR"
                ELSE IF op.i >= 0 /\ op.i < n /\ t.e[op.i + 1].key = op.key THEN Render(t.e[op.i + 1].val) \o "@" \o ToString(op.i)
                ELSE LET p == FirstKey(t.e, op.key) IN IF p = 0 THEN "NX@-1" ELSE Render(t.e[p].val) \o "@" \o ToString(p - 1))
    \* the children handed out as Go containers of nodes: i = 0 InterfaceUseNode, 1 MapUseNode, 2 ArrayUseNode
    \* (a map keeps the last of duplicated keys and has no order: printed with sorted keys; the values keep theirs)
    [] op.o = "UseNode" ->
         Res(t, IF IsArr(t) /\ op.i \in {0, 2} THEN Render(t)
                ELSE IF IsObj(t) /\ op.i \in {0, 1}
                     THEN (LET d == DedupLast(t.e) IN Render(Obj(SortPairs([i \in 1..Len(d) |-> d[i].p]))))
                ELSE IF op.i = 0 THEN Render(t) ELSE "ANYERR")
    \* GetByPath with one or two steps: j = 0 <<i>>, 1 <<key>>, 2 <<key, i>>, 3 <<i, key>>
    [] op.o = "GetByPath" ->
         LET path == CASE op.j = 0 -> <<StepI(op.i)>> [] op.j = 1 -> <<StepK(op.key)>>
                       [] op.j = 2 -> <<StepK(op.key), StepI(op.i)>> [] OTHER -> <<StepI(op.i), StepK(op.key)>>
         IN Res(t, IF Resolves(t, path) THEN Render(At(t, path)) ELSE "ANYERR")
    \* Cap: defined (without an error) exactly for containers and null; the number itself is allocation, not tree
    \* (a node not yet parsed to its end has room for what it has parsed only)
    [] op.o = "Cap" -> Res(t, IF t.k \in {"arr", "obj", "null"} THEN "OK" ELSE "ANYERR")
    \* Raw: the text of the value (compared as JSON: blanks of the source do not count)
    [] op.o = "Raw" -> Res(t, Render(t))

RECURSIVE Put(_, _, _)
Put(v, path, nv) ==
  IF path = <<>> THEN nv ELSE
  LET p == Child(v, path[1]) IN
  IF IsObj(v) THEN Obj([v.e EXCEPT ![p] = Pair(v.e[p].key, Put(v.e[p].val, Tail(path), nv))])
  ELSE Arr([v.e EXCEPT ![p] = Put(v.e[p], Tail(path), nv)])
=============================================================================
