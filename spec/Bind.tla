-------------------------------- MODULE Bind --------------------------------
(***************************************************************************)
(* The binding contract of Unmarshal (properties C01, C11, C18, C07): what *)
(* decoding a JSON document J into a Go destination of type T that already *)
(* holds the value old must leave there, rule by rule, as encoding/json    *)
(* defines it.  Types, documents and values are abstract terms; numbers and *)
(* strings are classes whose concrete representatives the Go harness owns.  *)
(*                                                                         *)
(* TYPES   [k |-> leaf kind]                                               *)
(*         [k |-> "ptr"|"slice", e |-> T]   [k |-> "arr", n |-> 0..2, e]    *)
(*         [k |-> "map", key |-> "str"|"txt"| any integer kind, e |-> T]    *)
(*         [k |-> "st", f |-> <<field>>], field = [tag, jn, t]              *)
(*   leaf kinds: bool, i8..int, u8..uint, f32, f64, str, iface (interface{})*)
(*     num (json.Number), raw (json.RawMessage), bytes ([]byte),           *)
(*     uj (struct with pointer-receiver UnmarshalJSON that records its     *)
(*     input), ut (struct with pointer-receiver UnmarshalText)             *)
(*   tags: none | ren (json:"jn") | dash (json:"-") | str (json:",string") *)
(*         | omit (json:",omitempty") | omitstr (json:",omitempty,string")  *)
(*         | emb (anonymous struct field)                                  *)
(*                                                                         *)
(* DOCUMENTS [j |-> "null"|"t"|"f"], [j |-> "n", c |-> number class],      *)
(*         [j |-> "s", c |-> string class], [j |-> "a", e |-> <<J>>],       *)
(*         [j |-> "o", m |-> <<[k |-> key, v |-> J]>>] (ordered, duplicates *)
(*         allowed), [j |-> "x", c] (a token that is not JSON),            *)
(*         [j |-> "xs", c] (a hole in the structure: nothing where a value  *)
(*         must stand, e.g. after a trailing comma)                        *)
(*                                                                         *)
(* RESULT  [hard, soft, v]: hard = an error every implementation must      *)
(*         report; soft = the document is not JSON but only inside a value *)
(*         that is skipped rather than stored (the property's one          *)
(*         tolerated leniency: there sonic may accept or reject);          *)
(*         v = the destination afterwards (meaningful when no error).      *)
(***************************************************************************)
EXTENDS Naturals, Sequences, FiniteSets, TLC

Nil == [g |-> "nil"]
IntKinds == {"i8", "i16", "i32", "i64", "int"}
UintKinds == {"u8", "u16", "u32", "u64", "uint"}
FloatKinds == {"f32", "f64"}
NumKinds == IntKinds \cup UintKinds \cup FloatKinds
Bits(k) == CASE k \in {"i8", "u8"} -> 8 [] k \in {"i16", "u16"} -> 16 [] k \in {"i32", "u32"} -> 32 [] OTHER -> 64
LeafKinds == NumKinds \cup {"bool", "str", "iface", "num", "raw", "bytes", "uj", "ut"}

\* ---- number literal classes (concrete literal owned by the harness) ----
\*  z 0 | nz -0 | p7 7 | p9 9 (only as a prior value) | p12 12 | n3 -3 | n200 -200 | p200 200 | p300 300 | p40000 40000 | p70000 70000
\*  p3e9 3000000000 | p5e9 5000000000 | p2_63 2^63 | n2_63 -2^63 | p2_64 2^64 | f1_5 1.5 | f1_0 1.0 | e1e2 1e2
\*  f1e39 1e39 | big 1e400 | f1e21 1e21 | f1e20 1e20 | f1em6 0.000001 | f1em7 0.0000001 (the notation thresholds of printed floats)
\* exact boundaries of every integer width: i<min|max>W, one beyond (iminmW = min - 1, imaxpW = max + 1), u<max>W and umaxpW = max + 1
BoundLits == {"iminm64", "iminm32", "imin32", "iminm16", "imin16", "iminm8", "imin8", "imax8", "imaxp8", "umax8", "umaxp8", "imax16", "imaxp16", "umax16", "umaxp16", "imax32", "imaxp32", "umax32", "umaxp32", "imax64", "umax64"}
BoundKey(c) == CASE c = "iminm64" -> "-9223372036854775809" [] c = "iminm32" -> "-2147483649" [] c = "imin32" -> "-2147483648" [] c = "iminm16" -> "-32769" [] c = "imin16" -> "-32768" [] c = "iminm8" -> "-129" [] c = "imin8" -> "-128" [] c = "imax8" -> "127" [] c = "imaxp8" -> "128" [] c = "umax8" -> "255" [] c = "umaxp8" -> "256" [] c = "imax16" -> "32767" [] c = "imaxp16" -> "32768" [] c = "umax16" -> "65535" [] c = "umaxp16" -> "65536" [] c = "imax32" -> "2147483647" [] c = "imaxp32" -> "2147483648" [] c = "umax32" -> "4294967295" [] c = "umaxp32" -> "4294967296" [] c = "imax64" -> "9223372036854775807" [] c = "umax64" -> "18446744073709551615"
IntLits == {"z", "nz", "p7", "p12", "n3", "n200", "p200", "p300", "p40000", "p70000", "p3e9", "p5e9", "p2_63", "n2_63", "p2_64"} \cup BoundLits
NumClasses == IntLits \cup {"f1_5", "f1_0", "e1e2", "f1e39", "big", "f1e21", "f1e20", "f1em6", "f1em7"}
\* smallest signed / unsigned width that holds the integer literal (99 = none)
SBits(c) == CASE c \in {"imin8", "imax8"} -> 8 [] c \in {"imin16", "iminm8", "imaxp8", "umax8", "umaxp8", "imax16"} -> 16 [] c \in {"imin32", "iminm16", "imaxp16", "umax16", "umaxp16", "imax32"} -> 32 [] c \in {"iminm32", "imaxp32", "umax32", "umaxp32", "imax64"} -> 64
              [] c \in {"z", "nz", "p7", "p12", "n3"} -> 8 [] c \in {"n200", "p200", "p300"} -> 16 [] c \in {"p40000", "p70000"} -> 32
              [] c \in {"p3e9", "p5e9", "n2_63"} -> 64 [] OTHER -> 99
UBits(c) == CASE c \in {"imax8", "imaxp8", "umax8"} -> 8 [] c \in {"umaxp8", "imax16", "imaxp16", "umax16"} -> 16 [] c \in {"umaxp16", "imax32", "imaxp32", "umax32"} -> 32 [] c \in {"umaxp32", "imax64", "umax64"} -> 64
              [] c \in {"z", "p7", "p12", "p200"} -> 8 [] c \in {"p300", "p40000"} -> 16 [] c \in {"p70000", "p3e9"} -> 32
              [] c \in {"p5e9", "p2_63"} -> 64 [] OTHER -> 99
FloatOk(c, k) == c # "big" /\ (k = "f32" => c # "f1e39")

\* ---- string literal classes ----
\*  sx "x" | se "" | s12 "12" | sb64 "YWI=" | sesc "a\né\"" | snull "null" | strue "true" | sq "\"x\"" | ssur "\ud800"
\*  sctl (a raw control character inside: not JSON) | sbad (an invalid UTF-8 byte inside)
\*  q7 "7", q200 "200", ... : a string whose content is the number literal of that class (for `,string` fields and json.Number)
QClasses == {"q7", "q200", "q300", "q40000", "q70000", "q3e9", "q5e9", "qn3", "q1_5", "q2_63"}
\*  sb1 "YQ==" (one byte), sb3 "YWJj" (three bytes): the other base64 paddings
\*  the doubly quoted forms a `,string` string field meets: sq "\"x\"" (well formed), sqe "\"a\\nb\"" (an escape inside the inner literal),
\*  sqo "\"x" (inner literal never closed), sqbs "\"x\\" (it ends with an escaped backslash where the closing quote should be),
\*  sqt "\"x\"y" (bytes after the inner closing quote)
SQBad == {"sqo", "sqbs", "sqt"}
StrClasses == {"sx", "se", "s12", "sb64", "sb1", "sb3", "sesc", "snull", "strue", "sq", "sqe", "ssur", "sctl", "sbad"} \cup SQBad \cup QClasses
B64Ok == {"se", "sb64", "snull", "strue", "sb1", "sb3"}
\* the literal that the content of a string class spells (for `,string` fields), or "none"
Inner(c) == CASE c = "s12" -> [j |-> "n", c |-> "p12"] [] c = "snull" -> [j |-> "null"] [] c = "strue" -> [j |-> "t"]
              [] c = "sq" -> [j |-> "s", c |-> "sx"] [] c = "sqe" -> [j |-> "s", c |-> "sanb"]
              [] c = "q7" -> [j |-> "n", c |-> "p7"] [] c = "q200" -> [j |-> "n", c |-> "p200"] [] c = "q300" -> [j |-> "n", c |-> "p300"]
              [] c = "q40000" -> [j |-> "n", c |-> "p40000"] [] c = "q70000" -> [j |-> "n", c |-> "p70000"]
              [] c = "q3e9" -> [j |-> "n", c |-> "p3e9"] [] c = "q5e9" -> [j |-> "n", c |-> "p5e9"] [] c = "qn3" -> [j |-> "n", c |-> "n3"]
              [] c = "q1_5" -> [j |-> "n", c |-> "f1_5"] [] c = "q2_63" -> [j |-> "n", c |-> "p2_63"]
              [] OTHER -> [j |-> "none"]

\* ue = UseUnicodeErrors: an escape that is not a valid surrogate pair is an error instead of U+FFFD
Opts == [num : {"none", "usenumber", "useint64"}, cs : BOOLEAN, duf : BOOLEAN, vs : BOOLEAN, ue : BOOLEAN]

\* ---- documents ----
RECURSIVE HasX(_)
HasX(J) == CASE J.j \in {"x", "xs"} -> TRUE
             [] J.j = "s" -> J.c = "sctl"
             [] J.j = "a" -> \E i \in 1..Len(J.e) : HasX(J.e[i])
             [] J.j = "o" -> \E i \in 1..Len(J.m) : HasX(J.m[i].v)
             [] OTHER -> FALSE

\* structural damage is never tolerated, wherever it is: the leniency for skipped values covers their content only
RECURSIVE HasXS(_)
HasXS(J) == CASE J.j = "xs" -> TRUE
              [] J.j = "a" -> \E i \in 1..Len(J.e) : HasXS(J.e[i])
              [] J.j = "o" -> \E i \in 1..Len(J.m) : HasXS(J.m[i].v)
              [] OTHER -> FALSE

Ok(v) == [hard |-> FALSE, soft |-> FALSE, v |-> v]
Hard == [hard |-> TRUE, soft |-> FALSE, v |-> Nil]
\* a value that is skipped: only its being JSON at all matters
Skip(J, keep) == [hard |-> FALSE, soft |-> HasX(J), v |-> keep]
\* kind mismatch: an error, and the value is skipped
Mismatch(J) == [hard |-> TRUE, soft |-> HasX(J), v |-> Nil]

\* ---- a recursive Go type ----
\*   type R struct { V int; Next *R `json:"next"`; Kids []R `json:"kids"` }
\* [k |-> "rec", d |-> n] stands for R where the document (or value) nests R at most n more times: it is the unfolding of the
\* definition (the generated code reaches R again through a recursion opcode, not through a copy of its program)
RecField(n, jn, t) == [tag |-> IF n = jn THEN "none" ELSE "ren", n |-> n, jn |-> jn, t |-> t]
Unfold(T) == IF T.k # "rec" THEN T
             ELSE LET sub == [k |-> "rec", d |-> IF T.d = 0 THEN 0 ELSE T.d - 1]
                  IN [k |-> "st", f |-> <<RecField("V", "V", [k |-> "int"]),
                                          RecField("Next", "next", [k |-> "ptr", e |-> sub]),
                                          RecField("Kids", "kids", [k |-> "slice", e |-> sub])>>]

\* ---- zero and prior values ----
RECURSIVE Zero(_)
Zero(T) == CASE T.k = "rec" -> Zero(Unfold(T))
             [] T.k \in NumKinds -> [g |-> "n", as |-> T.k, c |-> "z"]
             [] T.k = "bool" -> [g |-> "b", b |-> FALSE]
             [] T.k = "str" -> [g |-> "s", c |-> "se"]
             [] T.k = "num" -> [g |-> "n", as |-> "num", c |-> "se"]
             [] T.k = "uj" -> [g |-> "uj", d |-> [j |-> "none"]]
             [] T.k = "ut" -> [g |-> "ut", c |-> "none"]
             [] T.k = "arr" -> [g |-> "a", e |-> [i \in 1..T.n |-> Zero(T.e)]]
             [] T.k = "st" -> [g |-> "st", f |-> [i \in 1..Len(T.f) |-> Zero(T.f[i].t)]]
             [] OTHER -> Nil      \* ptr, slice, map, iface, raw, bytes

RECURSIVE Pre(_)
Pre(T) == CASE T.k = "rec" -> IF T.d = 0 THEN [g |-> "st", f |-> <<[g |-> "n", as |-> "int", c |-> "p9"], Nil, Nil>>] ELSE Pre(Unfold(T))
            [] T.k \in NumKinds -> [g |-> "n", as |-> T.k, c |-> "p9"]
            [] T.k = "bool" -> [g |-> "b", b |-> TRUE]
            [] T.k = "str" -> [g |-> "s", c |-> "old"]
            [] T.k = "num" -> [g |-> "n", as |-> "num", c |-> "p9"]
            [] T.k = "iface" -> [g |-> "s", c |-> "old"]
            \* "ifp": an interface{} destination that already holds a non-nil pointer to an E
            [] T.k = "ifp" -> [g |-> "i", t |-> [k |-> "ptr", e |-> T.e], v |-> [g |-> "p", e |-> Pre(T.e)]]
            [] T.k = "raw" -> [g |-> "raw", d |-> [j |-> "n", c |-> "p9"]]
            [] T.k = "bytes" -> [g |-> "by", c |-> "old"]
            [] T.k = "uj" -> [g |-> "uj", d |-> [j |-> "n", c |-> "p9"]]
            [] T.k = "ut" -> [g |-> "ut", c |-> "old"]
            [] T.k = "ptr" -> [g |-> "p", e |-> Pre(T.e)]
            [] T.k = "slice" -> [g |-> "a", e |-> <<Pre(T.e), Pre(T.e), Pre(T.e)>>]
            [] T.k = "arr" -> [g |-> "a", e |-> [i \in 1..T.n |-> Pre(T.e)]]
            [] T.k = "map" -> [g |-> "m", m |-> {[k |-> (IF T.key \in {"str", "txt"} THEN "old" ELSE "9"), v |-> Pre(T.e)]}]
            [] T.k = "st" -> [g |-> "st", f |-> [i \in 1..Len(T.f) |-> Pre(T.f[i].t)]]

\* "precap": the prior value whose slices have ONE visible element and spare capacity holding two stale ones (the backing array of
\* a slice that was longer before).  encoding/json decodes element i of a longer document INTO the stale slot (it extends the
\* length without clearing), so what a partial or null element leaves there is observable; `spare` is not part of the value
\* (two slices are equal when their visible elements are)
RECURSIVE PreCap(_)
PreCap(T) == CASE T.k = "slice" /\ T.e.k # "u8" -> [g |-> "a", e |-> <<PreCap(T.e)>>, spare |-> <<Pre(T.e), Pre(T.e)>>]
               [] T.k = "ptr" -> [g |-> "p", e |-> PreCap(T.e)]
               [] T.k = "arr" -> [g |-> "a", e |-> [i \in 1..T.n |-> PreCap(T.e)]]
               [] T.k = "st" -> [g |-> "st", f |-> [i \in 1..Len(T.f) |-> PreCap(T.f[i].t)]]
               [] T.k = "rec" -> IF T.d = 0 THEN Pre(T) ELSE PreCap(Unfold(T))
               [] OTHER -> Pre(T)
RECURSIVE HasSlice(_)
HasSlice(T) == CASE T.k = "slice" -> T.e.k # "u8"
                 [] T.k \in {"ptr", "arr"} -> HasSlice(T.e)
                 [] T.k = "st" -> \E i \in 1..Len(T.f) : HasSlice(T.f[i].t)
                 [] T.k = "rec" -> T.d > 0
                 [] OTHER -> FALSE
\* the slots a JSON array's elements are decoded into: the visible elements, then the stale ones within the capacity
Olds(old) == IF old = Nil THEN <<>> ELSE IF "spare" \in DOMAIN old THEN old.e \o old.spare ELSE old.e

\* ---- interface{} destination: the generic value ----
StrVal(c, o) == IF c = "sctl" \/ (c = "ssur" /\ o.ue) THEN Hard ELSE Ok([g |-> "s", c |-> c])

RECURSIVE Generic(_, _)
RECURSIVE GenericSeq(_, _, _)
RECURSIVE GenericObj(_, _, _, _)
Generic(J, o) ==
  CASE J.j = "x" -> Hard
    [] J.j = "null" -> Ok(Nil)
    [] J.j = "t" -> Ok([g |-> "b", b |-> TRUE])
    [] J.j = "f" -> Ok([g |-> "b", b |-> FALSE])
    [] J.j = "n" -> IF o.num = "usenumber" THEN Ok([g |-> "n", as |-> "num", c |-> J.c])
                    ELSE IF o.num = "useint64" /\ J.c \in IntLits /\ SBits(J.c) <= 64 THEN Ok([g |-> "n", as |-> "i64", c |-> J.c])
                    ELSE IF J.c = "big" THEN Hard ELSE Ok([g |-> "n", as |-> "f64", c |-> J.c])
    [] J.j = "s" -> StrVal(J.c, o)
    [] J.j = "a" -> GenericSeq(J.e, 1, o)
    [] J.j = "o" -> GenericObj(J.m, 1, {}, o)
GenericSeq(e, i, o) ==
  IF i > Len(e) THEN Ok([g |-> "a", e |-> <<>>])
  ELSE LET h == Generic(e[i], o)
           r == GenericSeq(e, i + 1, o)
       IN [hard |-> h.hard \/ r.hard, soft |-> h.soft \/ r.soft, v |-> [g |-> "a", e |-> <<h.v>> \o r.v.e]]
\* the key "~sur" stands for a key spelled with a lone surrogate escape: it denotes "~surfix" (with U+FFFD), or is an error under ue
KeyOf(k) == IF k = "~sur" THEN "~surfix" ELSE k
GenericObj(m, i, acc, o) ==
  IF i > Len(m) THEN Ok([g |-> "m", m |-> acc])
  ELSE LET h == Generic(m[i].v, o)
           r == GenericObj(m, i + 1, {x \in acc : x.k # KeyOf(m[i].k)} \cup {[k |-> KeyOf(m[i].k), v |-> h.v]}, o)
       IN [hard |-> h.hard \/ r.hard \/ (m[i].k = "~sur" /\ o.ue), soft |-> h.soft \/ r.soft, v |-> r.v]

\* ---- struct fields: encoding/json's typeFields (promotion, dominance) for embedding depth <= 1 ----
EmbStruct(t) == IF t.k = "ptr" THEN t.e ELSE t
Cands(T) ==
  LET Top(i) == LET f == T.f[i] IN
        IF f.tag = "dash" THEN {}
        ELSE IF f.tag = "emb" THEN
             LET S == EmbStruct(f.t) IN
             {[d |-> 1, path |-> <<i, j>>, jn |-> S.f[j].jn, tagged |-> S.f[j].tag = "ren", q |-> S.f[j].tag \in {"str", "omitstr"},
               omit |-> S.f[j].tag \in {"omit", "omitstr"}, t |-> S.f[j].t]
                : j \in {x \in 1..Len(S.f) : S.f[x].tag \notin {"dash", "emb"}}}
        ELSE {[d |-> 0, path |-> <<i>>, jn |-> f.jn, tagged |-> f.tag = "ren", q |-> f.tag \in {"str", "omitstr"},
               omit |-> f.tag \in {"omit", "omitstr"}, t |-> f.t]}
  IN UNION {Top(i) : i \in 1..Len(T.f)}
Dominant(T) ==
  LET C == Cands(T)
      Win(n) == LET S == {c \in C : c.jn = n}
                    md == IF \E c \in S : c.d = 0 THEN 0 ELSE 1
                    A == {c \in S : c.d = md}
                    Tg == {c \in A : c.tagged}
                IN IF Cardinality(A) = 1 THEN A ELSE IF Cardinality(Tg) = 1 THEN Tg ELSE {}
  IN UNION {Win(n) : n \in {c.jn : c \in C}}
PathLess(p, q) == p[1] < q[1] \/ (p[1] = q[1] /\ Len(p) < Len(q)) \/ (p[1] = q[1] /\ Len(p) = 2 /\ Len(q) = 2 /\ p[2] < q[2])
\* the visible fields in index order
RECURSIVE SortFields(_)
SortFields(S) == IF S = {} THEN <<>>
                 ELSE LET m == CHOOSE c \in S : \A d \in S : d = c \/ PathLess(c.path, d.path) IN <<m>> \o SortFields(S \ {m})
Fields(T) == SortFields(Dominant(T))

Fold(s) == CASE s = "f00" -> "F00" [] s = "f06" -> "F06" [] s = "f07" -> "F07" [] s = "f16" -> "F16" [] s = "f63" -> "F63" [] s = "f99" -> "F99"
             [] s = "a" -> "A" [] s = "b" -> "B" [] s = "c" -> "C" [] s = "x" -> "X" [] s = "z" -> "Z" [] OTHER -> s
\* index of the field a key selects, 0 if none
Select(fs, key, o) ==
  LET exact == {i \in 1..Len(fs) : fs[i].jn = key}
      ci == {i \in 1..Len(fs) : Fold(fs[i].jn) = Fold(key)}
  IN IF exact # {} THEN CHOOSE i \in exact : TRUE
     ELSE IF ~o.cs /\ ci # {} THEN CHOOSE i \in ci : \A j \in ci : i <= j
     ELSE 0

\* ---- map keys ----
\* map keys are converted with strconv.ParseInt / ParseUint of the key's width: the key text denotes a number class
KeyClass(key) == CASE key = "12" -> "p12" [] key = "01" -> "p7" [] key = "9" -> "p7" [] key = "1" -> "p7" [] key = "-1" -> "n3" [] key = "-129" -> "n200"
                   [] key = "200" -> "p200" [] key = "300" -> "p300" [] key = "40000" -> "p40000" [] key = "-40000" -> "n40000"
                   [] key = "3000000000" -> "p3e9" [] key = "5000000000" -> "p5e9" [] key = "9223372036854775808" -> "p2_63"
                   [] key = "-9223372036854775808" -> "n2_63"
                   [] \E c \in BoundLits : BoundKey(c) = key -> CHOOSE c \in BoundLits : BoundKey(c) = key
                   [] OTHER -> "none"
KeySBits(c) == IF c = "n40000" THEN 32 ELSE SBits(c)
\* canonical key after conversion, or "bad"
KeyConv(key, kind) ==
  IF kind \in {"str", "txt"} THEN KeyOf(key)
  ELSE LET c == KeyClass(key) IN
       IF c = "none" THEN "bad"
       ELSE IF kind \in IntKinds THEN (IF KeySBits(c) <= Bits(kind) THEN (IF key = "01" THEN "1" ELSE key) ELSE "bad")
       ELSE (IF c # "n40000" /\ UBits(c) <= Bits(kind) THEN (IF key = "01" THEN "1" ELSE key) ELSE "bad")

\* ---- the decoder ----
RECURSIVE Dec(_, _, _, _)
RECURSIVE DecElems(_, _, _, _, _, _)
RECURSIVE DecMap(_, _, _, _, _)
RECURSIVE DecStruct(_, _, _, _, _, _)

Quotable(t) == t.k \in NumKinds \cup {"bool", "str", "num"}
QuotableField(t) == Quotable(t) \/ (t.k = "ptr" /\ Quotable(t.e))

\* a field carrying `,string`
DecQuoted(T, J, old, o) ==
  CASE J.j = "x" -> Hard
    [] J.j = "null" -> Dec(T, J, old, o)
    [] J.j \in {"s", "qs"} -> IF J.j = "s" /\ J.c = "sctl" THEN Hard
                    ELSE LET in == IF J.j = "qs" THEN J.d ELSE Inner(J.c) IN
                         IF in.j = "none" THEN Hard
                         ELSE LET B == IF T.k = "ptr" THEN T.e ELSE T
                                  fit == CASE in.j = "null" -> TRUE
                                           [] in.j \in {"t", "f"} -> B.k = "bool"
                                           [] in.j = "n" -> B.k \in NumKinds \cup {"num"}
                                           [] in.j = "s" -> B.k = "str"
                                           [] OTHER -> FALSE
                              IN IF fit THEN Dec(T, in, old, o) ELSE Hard
    [] OTHER -> Mismatch(J)

Dec(T0, J, old, o) ==
  LET T == Unfold(T0) IN
  IF J.j = "x" THEN Hard
  ELSE IF T.k = "uj" THEN (IF HasX(J) THEN Hard ELSE Ok([g |-> "uj", d |-> J]))
  ELSE IF T.k = "raw" THEN (IF HasX(J) THEN Hard ELSE Ok([g |-> "raw", d |-> J]))
  ELSE IF J.j = "null" THEN (IF T.k \in {"ptr", "slice", "map", "iface", "ifp", "bytes"} THEN Ok(Nil) ELSE Ok(old))
  ELSE IF T.k = "ptr" THEN
       LET r == Dec(T.e, J, IF old = Nil THEN Zero(T.e) ELSE old.e, o)
       IN [hard |-> r.hard, soft |-> r.soft, v |-> [g |-> "p", e |-> r.v]]
  ELSE IF T.k = "iface" THEN Generic(J, o)
  ELSE IF T.k = "ifp" THEN
       \* an interface holding a non-nil pointer is decoded INTO the pointee (encoding/json's indirect); null (above) clears the
       \* interface itself; an empty interface gets the generic value
       (IF old = Nil \/ old.g # "i" THEN Generic(J, o)      \* (a generic value stored by an earlier duplicate key is replaced, too)
        ELSE LET r == Dec(T.e, J, old.v.e, o)
             IN [hard |-> r.hard, soft |-> r.soft, v |-> [g |-> "i", t |-> [k |-> "ptr", e |-> T.e], v |-> [g |-> "p", e |-> r.v]]])
  ELSE IF T.k = "ut" THEN (IF J.j = "s" THEN (IF J.c = "sctl" \/ (J.c = "ssur" /\ o.ue) THEN Hard ELSE Ok([g |-> "ut", c |-> J.c])) ELSE Mismatch(J))
  ELSE IF T.k = "bool" THEN (IF J.j \in {"t", "f"} THEN Ok([g |-> "b", b |-> J.j = "t"]) ELSE Mismatch(J))
  ELSE IF T.k = "str" THEN (IF J.j = "s" THEN StrVal(J.c, o) ELSE Mismatch(J))
  ELSE IF T.k = "num" THEN
       (IF J.j = "n" THEN Ok([g |-> "n", as |-> "num", c |-> J.c])
        ELSE IF J.j = "s" THEN (IF J.c = "s12" \/ J.c \in QClasses THEN Ok([g |-> "n", as |-> "num", c |-> J.c]) ELSE Hard)
        ELSE Mismatch(J))
  ELSE IF T.k \in IntKinds THEN
       (IF J.j = "n" THEN (IF J.c \in IntLits /\ SBits(J.c) <= Bits(T.k) THEN Ok([g |-> "n", as |-> T.k, c |-> J.c]) ELSE Hard) ELSE Mismatch(J))
  ELSE IF T.k \in UintKinds THEN
       (IF J.j = "n" THEN (IF J.c \in IntLits /\ UBits(J.c) <= Bits(T.k) THEN Ok([g |-> "n", as |-> T.k, c |-> J.c]) ELSE Hard) ELSE Mismatch(J))
  ELSE IF T.k \in FloatKinds THEN
       (IF J.j = "n" THEN (IF FloatOk(J.c, T.k) THEN Ok([g |-> "n", as |-> T.k, c |-> J.c]) ELSE Hard) ELSE Mismatch(J))
  ELSE IF T.k = "bytes" THEN
       (IF J.j = "s" THEN (IF J.c \in B64Ok THEN Ok([g |-> "by", c |-> J.c]) ELSE Hard)
        ELSE IF J.j = "a" THEN DecElems([k |-> "u8"], J.e, 1, IF old = Nil THEN <<>> ELSE <<Pre([k |-> "u8"]), Pre([k |-> "u8"]), Pre([k |-> "u8"])>>, o, "slice")
        ELSE Mismatch(J))
  ELSE IF T.k = "slice" /\ T.e.k = "u8" THEN Dec([k |-> "bytes"], J, IF old = Nil THEN Nil ELSE [g |-> "by", c |-> "old"], o)
  ELSE IF T.k = "slice" THEN
       (IF J.j = "a" THEN DecElems(T.e, J.e, 1, Olds(old), o, "slice") ELSE Mismatch(J))
  ELSE IF T.k = "arr" THEN
       (IF J.j = "a" THEN DecElems(T.e, J.e, 1, old.e, o, "arr") ELSE Mismatch(J))
  ELSE IF T.k = "map" THEN
       (IF J.j = "o" THEN DecMap(T, J.m, 1, IF old = Nil THEN {} ELSE old.m, o) ELSE Mismatch(J))
  ELSE IF T.k = "st" THEN
       (IF J.j = "o" THEN DecStruct(T, Fields(T), J.m, 1, old, o) ELSE Mismatch(J))
  ELSE Hard

\* elements of a JSON array into a slice (mode "slice": element i is decoded into the old element i when there is one, the
\* result has exactly the document's length) or a fixed array (mode "arr": surplus elements are skipped, missing ones zeroed)
DecElems(E, e, i, olds, o, mode) ==
  IF i > Len(e) THEN
       (IF mode = "arr" THEN Ok([g |-> "a", e |-> [x \in 1..(Len(olds) - (i - 1)) |-> Zero(E)]]) ELSE Ok([g |-> "a", e |-> <<>>]))
  ELSE IF mode = "arr" /\ i > Len(olds) THEN
       LET r == DecElems(E, e, i + 1, olds, o, mode)
           s == Skip(e[i], Nil)
       IN [hard |-> r.hard, soft |-> r.soft \/ s.soft, v |-> r.v]
  ELSE LET h == Dec(E, e[i], IF i <= Len(olds) THEN olds[i] ELSE Zero(E), o)
           r == DecElems(E, e, i + 1, olds, o, mode)
       IN [hard |-> h.hard \/ r.hard, soft |-> h.soft \/ r.soft, v |-> [g |-> "a", e |-> <<h.v>> \o r.v.e]]

DecMap(T, m, i, acc, o) ==
  IF i > Len(m) THEN Ok([g |-> "m", m |-> acc])
  ELSE LET key == KeyConv(m[i].k, T.key)
           h == Dec(T.e, m[i].v, Zero(T.e), o)
       IN IF key = "bad" \/ (m[i].k = "~sur" /\ o.ue)
          THEN LET r == DecMap(T, m, i + 1, acc, o) IN [hard |-> TRUE, soft |-> r.soft \/ h.soft, v |-> Nil]
          ELSE LET r == DecMap(T, m, i + 1, {x \in acc : x.k # key} \cup {[k |-> key, v |-> h.v]}, o)
               IN [hard |-> h.hard \/ r.hard, soft |-> h.soft \/ r.soft, v |-> r.v]

\* value at / update of a field path (<<i>> or <<i, j>> through an embedded struct or pointer to struct)
FieldGet(T, cur, path) ==
  IF Len(path) = 1 THEN cur.f[path[1]]
  ELSE LET ev == cur.f[path[1]]
           et == T.f[path[1]].t
           sv == IF et.k = "ptr" THEN (IF ev = Nil THEN Zero(et.e) ELSE ev.e) ELSE ev
       IN sv.f[path[2]]
FieldSet(T, cur, path, nv) ==
  IF Len(path) = 1 THEN [cur EXCEPT !.f[path[1]] = nv]
  ELSE LET ev == cur.f[path[1]]
           et == T.f[path[1]].t
           sv == IF et.k = "ptr" THEN (IF ev = Nil THEN Zero(et.e) ELSE ev.e) ELSE ev
           sv2 == [sv EXCEPT !.f[path[2]] = nv]
       IN [cur EXCEPT !.f[path[1]] = IF et.k = "ptr" THEN [g |-> "p", e |-> sv2] ELSE sv2]

DecStruct(T, fs, m, i, cur, o) ==
  IF i > Len(m) THEN Ok(cur)
  ELSE LET k == Select(fs, m[i].k, o) IN
       IF k = 0 THEN
            LET r == DecStruct(T, fs, m, i + 1, cur, o)
            IN [hard |-> r.hard \/ o.duf \/ (m[i].k = "~sur" /\ o.ue), soft |-> r.soft \/ HasX(m[i].v), v |-> r.v]
       ELSE LET fd == fs[k]
                ov == FieldGet(T, cur, fd.path)
                h == IF fd.q /\ QuotableField(fd.t) THEN DecQuoted(fd.t, m[i].v, ov, o) ELSE Dec(fd.t, m[i].v, ov, o)
                r == DecStruct(T, fs, m, i + 1, IF h.hard THEN cur ELSE FieldSet(T, cur, fd.path, h.v), o)
            IN [hard |-> h.hard \/ r.hard, soft |-> h.soft \/ r.soft, v |-> r.v]

\* ---- the top-level call: Unmarshal(J, &dest) ----
Unmarshal(T, J, old, o) == IF HasXS(J) THEN Hard ELSE Dec(T, J, old, o)
=============================================================================
