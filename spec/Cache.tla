-------------------------------- MODULE Cache --------------------------------
(***************************************************************************)
(* The RCU program cache (internal/caching/pcache.go) that holds one       *)
(* compiled codec per Go type, for the decoder, the alternative decoder    *)
(* and the encoder (properties C08 and C09).                               *)
(*                                                                         *)
(* heap   : immutable snapshots (open-addressing tables, linear probing)   *)
(* pub    : index of the published snapshot (the atomic pointer)           *)
(* mtx    : the mutex of Compute                                           *)
(* Each goroutine runs  findOrCompile(t) = Get(t) ; if miss: Compute(t):   *)
(*   "get"     atomic load of pub + lock-free probe of *that* snapshot     *)
(*   "lock"    acquire mtx                                                 *)
(*   "recheck" Get again under the lock (double check)                     *)
(*   "compile" compute the codec (counted per type)                        *)
(*   "publish" add = copy, rehash if load factor would exceed 1/2, insert; *)
(*             atomic store of the new snapshot                            *)
(*   "unlock"                                                              *)
(* The instrumentation points of /repo (pcache.get / lock / hit / computed *)
(* / publish) are these step boundaries.                                   *)
(*                                                                         *)
(* Seeded deviations (Mut) let TLC show what each mechanism is for:        *)
(*   "InPlace"   insert into the published table instead of a copy         *)
(*   "NoRecheck" no double check under the lock                            *)
(*   "OldMask"   rehash keeps the old probe mask                           *)
(*   "HashOnly"  a probe accepts a slot whose type has the same hash (the  *)
(*               32-bit hash is compared, the type itself is not)          *)
(***************************************************************************)
EXTENDS Naturals, Sequences, FiniteSets, TLC

CONSTANTS Procs, Types, InitCap, Mut,
          Hash(_),        \* hash of a type (collisions are the interesting case)
          Want,           \* Want[p] : sequence of types goroutine p uses, in order
          KeepSched       \* TRUE: record the schedule (history variable, for behaviour generation only)

VARIABLES heap, pub, mtx, pc, cur, idx, snap, ret, compiles, sched
vars == <<heap, pub, mtx, pc, cur, idx, snap, ret, compiles, sched>>

NoType == 0
Empty(cap) == [cap |-> cap, mask |-> cap - 1, n |-> 0, slot |-> [i \in 0..(cap - 1) |-> NoType]]

\* linear probing: position of t, or of the first free slot, starting from Hash(t) & mask
RECURSIVE ProbeFrom(_, _, _, _)
ProbeFrom(m, t, p, left) ==
  IF left = 0 THEN [found |-> FALSE, pos |-> m.cap]     \* table full: no position
  ELSE IF m.slot[p] = NoType THEN [found |-> FALSE, pos |-> p]
  ELSE IF (IF "HashOnly" \in Mut THEN Hash(m.slot[p]) = Hash(t) ELSE m.slot[p] = t) THEN [found |-> TRUE, pos |-> p]
  ELSE ProbeFrom(m, t, (p + 1) % (m.mask + 1), left - 1)      \* p = (p + 1) & mask
Mod(a, b) == a % b
Probe(m, t) == ProbeFrom(m, t, Mod(Hash(t), m.mask + 1), m.mask + 1)
Lookup(m, t) == Probe(m, t).found

Insert(m, t) == LET pr == Probe(m, t) IN
                IF pr.found \/ pr.pos = m.cap THEN m
                ELSE [m EXCEPT !.slot[pr.pos] = t, !.n = m.n + 1]

RECURSIVE Reinsert(_, _, _)
Reinsert(dst, src, i) == IF i = src.cap THEN dst
                         ELSE Reinsert(IF src.slot[i] = NoType THEN dst ELSE Insert(dst, src.slot[i]), src, i + 1)
Rehash(m) == LET e == Empty(m.cap * 2)
                 d == IF "OldMask" \in Mut THEN [e EXCEPT !.mask = m.mask] ELSE e
             IN Reinsert(d, m, 0)
Add(m, t) == Insert(IF 2 * (m.n + 1) > m.cap THEN Rehash(m) ELSE m, t)

Init == /\ heap = <<Empty(InitCap)>> /\ pub = 1 /\ mtx = 0
        /\ pc = [p \in Procs |-> "idle"] /\ idx = [p \in Procs |-> 1] /\ cur = [p \in Procs |-> NoType]
        /\ snap = [p \in Procs |-> 1] /\ ret = [p \in Procs |-> <<>>]
        /\ compiles = [t \in Types |-> 0] /\ sched = <<>>

Log(p, s) == sched' = IF KeepSched THEN Append(sched, <<p, s>>) ELSE sched
Go(p, to) == pc' = [pc EXCEPT ![p] = to]
Return(p, hit) == /\ ret' = [ret EXCEPT ![p] = Append(@, <<cur[p], hit>>)] /\ idx' = [idx EXCEPT ![p] = @ + 1]

Start(p) == /\ pc[p] = "idle" /\ idx[p] <= Len(Want[p])
            /\ cur' = [cur EXCEPT ![p] = Want[p][idx[p]]]
            /\ snap' = [snap EXCEPT ![p] = pub]                 \* atomic load
            /\ Go(p, "probe") /\ Log(p, "get")
            /\ UNCHANGED <<heap, pub, mtx, idx, ret, compiles>>
ProbeStep(p) == /\ pc[p] = "probe"
                /\ IF Lookup(heap[snap[p]], cur[p])
                   THEN Return(p, "fast") /\ Go(p, "idle")
                   ELSE Go(p, "lock") /\ UNCHANGED <<ret, idx>>
                /\ Log(p, "probe") /\ UNCHANGED <<heap, pub, mtx, cur, snap, compiles>>
Lock(p) == /\ pc[p] = "lock" /\ mtx = 0 /\ mtx' = p
           /\ Go(p, IF "NoRecheck" \in Mut THEN "compile" ELSE "recheck") /\ Log(p, "lock")
           /\ UNCHANGED <<heap, pub, cur, idx, snap, ret, compiles>>
Recheck(p) == /\ pc[p] = "recheck"
              /\ IF Lookup(heap[pub], cur[p])
                 THEN Return(p, "hit") /\ Go(p, "unlock")
                 ELSE Go(p, "compile") /\ UNCHANGED <<ret, idx>>
              /\ Log(p, "recheck") /\ UNCHANGED <<heap, pub, mtx, cur, snap, compiles>>
Compile(p) == /\ pc[p] = "compile"
              /\ compiles' = [compiles EXCEPT ![cur[p]] = @ + 1]
              /\ Go(p, "publish") /\ Log(p, "compile")
              /\ UNCHANGED <<heap, pub, mtx, cur, idx, snap, ret>>
Publish(p) == /\ pc[p] = "publish"
              /\ IF "InPlace" \in Mut /\ 2 * (heap[pub].n + 1) <= heap[pub].cap
                 THEN heap' = [heap EXCEPT ![pub] = Insert(@, cur[p])] /\ UNCHANGED pub
                 ELSE heap' = Append(heap, Add(heap[pub], cur[p])) /\ pub' = Len(heap) + 1
              /\ Return(p, "compiled") /\ Go(p, "unlock") /\ Log(p, "publish")
              /\ UNCHANGED <<mtx, cur, snap, compiles>>
Unlock(p) == /\ pc[p] = "unlock" /\ mtx' = 0 /\ Go(p, "idle") /\ Log(p, "unlock")
             /\ UNCHANGED <<heap, pub, cur, idx, snap, ret, compiles>>

Step(p) == Start(p) \/ ProbeStep(p) \/ Lock(p) \/ Recheck(p) \/ Compile(p) \/ Publish(p) \/ Unlock(p)
Next == \E p \in Procs : Step(p)
Spec == Init /\ [][Next]_vars /\ WF_vars(Next)

\* ---- properties ----
AllDone == \A p \in Procs : pc[p] = "idle" /\ idx[p] > Len(Want[p])
\* a codec is compiled at most once per type (findOrCompile path)
OneCompile == \A t \in Types : compiles[t] <= 1
\* whatever a call returned stays in the cache: later lookups of that type succeed
Monotone == \A p \in Procs : \A i \in 1..Len(ret[p]) : Lookup(heap[pub], ret[p][i][1])
\* published snapshots never change (readers probe them without any lock)
SnapshotsImmutable == [][\A i \in 1..Len(heap) : heap'[i] = heap[i]]_vars
\* tables are never full and hold each type once
TableOK == \A i \in 1..Len(heap) :
             /\ 2 * heap[i].n <= heap[i].cap
             /\ \A a, b \in 0..(heap[i].cap - 1) : (a # b /\ heap[i].slot[a] # NoType) => heap[i].slot[a] # heap[i].slot[b]
             /\ heap[i].n = Cardinality({a \in 0..(heap[i].cap - 1) : heap[i].slot[a] # NoType})
\* every stored type is found again by probing (no entry lost by rehash / wrong mask)
Findable == \A i \in 1..Len(heap) : \A a \in 0..(heap[i].cap - 1) :
              heap[i].slot[a] # NoType => Probe(heap[i], heap[i].slot[a]).found
\* a lookup that succeeds has found the entry of the type it looked for, whatever else hashes alike
ServedOwn == \A i \in 1..Len(heap) : \A t \in Types :
               LET pr == Probe(heap[i], t) IN pr.found => heap[i].slot[pr.pos] = t
MutexOK == mtx # 0 => pc[mtx] \in {"recheck", "compile", "publish", "unlock"}
Terminates == <>AllDone
=============================================================================
