------------------------------- MODULE DecObj -------------------------------
(***************************************************************************)
(* The positional decoder object (decoder.Decoder over a string): the      *)
(* "decoding the concatenated input value by value" that property C17      *)
(* takes as the reference for a stream decoder, as a state machine.        *)
(*                                                                         *)
(* State: the document D (byte classes), the position p = number of bytes  *)
(* consumed, k = values decoded since the last Reset.                      *)
(*   Decode          returns the next value of Stream!Ref(D, "EOF") and    *)
(*                   moves p to the end of that value (Pos() reports p);   *)
(*                   fails when no complete value follows p - and then     *)
(*                   never reports success without consuming input;        *)
(*   CheckTrailings  succeeds exactly when only blanks follow p;           *)
(*   Reset           starts again from position 0.                         *)
(* Obs is what the last call returned; TLC checks the machine against the  *)
(* closed form Steps(D) that the generator exports for the replay.         *)
(***************************************************************************)
EXTENDS Stream

\* RestBlank and the closed form Steps(D) are in Stream.tla (shared with the generator GenStream)

CONSTANTS Alphabet, MaxLen, MaxOps

VARIABLES D, p, k, obs, nops
vars == <<D, p, k, obs, nops>>

\* the next complete value at or after position p, found by running the stream validator on the rest
NextVal(doc, p0) ==
  LET rest == SubSeq(doc, p0 + 1, Len(doc))
      e    == Ref(rest, "EOF")
  IN IF e.vals = <<>> THEN <<>> ELSE <<e.vals[1][1] + p0, e.vals[1][2] + p0>>

Init == /\ D \in UNION {[1..n -> Alphabet] : n \in 0..MaxLen}
        /\ p = 0 /\ k = 0 /\ obs = [op |-> "new", ok |-> TRUE, lo |-> 0, hi |-> 0] /\ nops = 0

Decode == LET v == NextVal(D, p) IN
  IF v = <<>> THEN /\ obs' = [op |-> "decode", ok |-> FALSE, lo |-> 0, hi |-> 0] /\ UNCHANGED <<p, k>>
  ELSE /\ p' = v[2] /\ k' = k + 1 /\ obs' = [op |-> "decode", ok |-> TRUE, lo |-> v[1], hi |-> v[2]]

CheckTrailings == /\ obs' = [op |-> "trail", ok |-> RestBlank(D, p), lo |-> 0, hi |-> 0] /\ UNCHANGED <<p, k>>

Reset == /\ p' = 0 /\ k' = 0 /\ obs' = [op |-> "reset", ok |-> TRUE, lo |-> 0, hi |-> 0]

Next == /\ nops < MaxOps /\ nops' = nops + 1 /\ UNCHANGED D
        /\ (Decode \/ CheckTrailings \/ Reset)

Spec == Init /\ [][Next]_vars

\* ---- the machine agrees with the closed form (value by value = the stream's values, in order) ----
Agrees == LET st == Steps(D) e == Ref(D, "EOF") IN
  /\ k <= st.n
  /\ p = (IF k = 0 THEN 0 ELSE st.pos[k])
  /\ (obs.op = "decode" /\ obs.ok) => (<<obs.lo, obs.hi>> = e.vals[k])
  /\ (obs.op = "decode" /\ ~obs.ok) => (k = st.n)
  /\ (obs.op = "trail") => (obs.ok = st.ct[k + 1])
\* a clean end of the stream is exactly "all values decoded and CheckTrailings succeeds"
CleanEnd == LET st == Steps(D) e == Ref(D, "EOF") IN ("EOF" \in e.term) <=> st.ct[st.n + 1]
\* decoding never goes backwards and never succeeds without consuming input
Progress == [][p' >= p \/ obs'.op = "reset"]_vars
Consumes == [][(obs'.op = "decode" /\ obs'.ok) => p' > p]_vars
=============================================================================
