-------------------------------- MODULE Emit --------------------------------
(***************************************************************************)
(* The encoding contract of Marshal (properties C03, C04, C12, C18): which  *)
(* JSON document encoding a Go value V of type T must produce, or that it   *)
(* must fail, rule by rule as encoding/json defines it.  Types, values and  *)
(* documents are the terms of module Bind (so that Dec(T, Enc(T, V)) can be *)
(* stated), extended with                                                   *)
(*   - marshaler types (values [g |-> "z", c |-> string class]):            *)
(*       mjv / mjp  MarshalJSON with value / pointer receiver -> {"mj":c}   *)
(*       mtv / mtp  MarshalText with value / pointer receiver -> "mt:" c    *)
(*       mtn        MarshalText (value receiver) returning the text 12      *)
(*       mje        MarshalJSON returning an error                          *)
(*       mjbad      MarshalJSON returning text that is not JSON             *)
(*       mjws       MarshalJSON returning JSON with insignificant blanks    *)
(*   - interface values [g |-> "i", t |-> dynamic type, v |-> value]        *)
(*   - float classes nan, inf, ninf, f1e21, f1e20, f1em6, f1em7             *)
(*   - documents [j |-> "qs", d |-> J]: a string literal whose content is   *)
(*     the text of J (`,string` fields), and [j |-> "ts", c]: the string    *)
(*     "mt:" followed by class c (TextMarshaler output)                     *)
(* addr says whether the value is addressable: encoding/json calls pointer- *)
(* receiver marshalers only then (top-level values passed by value, map     *)
(* values and interface contents are not addressable).                      *)
(***************************************************************************)
EXTENDS Bind

\* html and compact change only the spelling of the text (escapes, insignificant blanks of marshaler output), not the document
EncOpts == [sort : BOOLEAN, nonull : BOOLEAN, nanull : BOOLEAN, novalid : BOOLEAN, noquote : BOOLEAN, vs : BOOLEAN, html : BOOLEAN, compact : BOOLEAN]
StdEncOpts == [sort |-> TRUE, nonull |-> FALSE, nanull |-> FALSE, novalid |-> FALSE, noquote |-> FALSE, vs |-> TRUE, html |-> TRUE, compact |-> TRUE]

\* mjd / mtd / mta / mtm: value receivers on types whose interface word is the value itself (struct of one pointer, array of one
\* pointer, map) - the same contract as mjv / mtv, another way of building the interface for the call
MarshalerKinds == {"mjv", "mjp", "mtv", "mtp", "mtn", "mje", "mjbad", "mjws", "mjd", "mtd", "mta", "mtm"}
EOk(d) == [err |-> FALSE, d |-> d]
EErr == [err |-> TRUE, d |-> [j |-> "none"]]

FloatBad(c) == c \in {"nan", "inf", "ninf"}
NumberTextOk(c) == c \in NumClasses \cup {"se", "s12", "p9"} \cup QClasses

\* bytewise order of the map keys used by the generators
KeySeq == <<"", "-1", "-129", "-40000", "-9223372036854775808", "1", "12", "200", "300", "3000000000", "40000", "5000000000", "9", "9223372036854775808",
           "K", "a", "k", "old", "x">>
KeyRank(k) == CHOOSE i \in 1..Len(KeySeq) : KeySeq[i] = k
RECURSIVE SortMembers(_)
SortMembers(S) == IF S = {} THEN <<>>
                  ELSE LET m == CHOOSE x \in S : \A y \in S : KeyRank(x.k) <= KeyRank(y.k) IN <<m>> \o SortMembers(S \ {m})

\* omitempty
IsEmpty(T, V) ==
  CASE T.k = "rec" -> FALSE
    [] T.k = "bool" -> ~V.b
    [] T.k \in NumKinds -> V.c \in {"z", "nz"}
    [] T.k \in {"str", "num"} -> V.c = "se"
    [] T.k \in {"ptr", "iface"} -> V = Nil
    [] T.k \in {"slice", "map", "bytes", "raw"} -> V = Nil \/ (V.g = "a" /\ Len(V.e) = 0) \/ (V.g = "m" /\ V.m = {}) \/ (V.g = "by" /\ V.c = "se")
                                                    \/ (V.g = "raw" /\ V.d.j = "none")
    [] T.k = "arr" -> T.n = 0
    [] OTHER -> FALSE

RECURSIVE Enc(_, _, _, _)
RECURSIVE EncSeq(_, _, _, _, _)
RECURSIVE EncMembers(_, _, _, _)
RECURSIVE EncFields(_, _, _, _, _, _)

\* the document a marshaler type produces when its method is called
CallMarshaler(k, V, o) ==
  CASE k \in {"mjv", "mjp", "mjd"} -> EOk([j |-> "o", m |-> <<[k |-> "mj", v |-> [j |-> "s", c |-> V.c]]>>])
    [] k \in {"mtv", "mtp", "mtd", "mta", "mtm"} -> IF ~o.noquote THEN EOk([j |-> "ts", c |-> V.c])
                               \* unquoted on request: the text "mt:..." is not JSON, so it is an error unless validation is disabled too
                               ELSE IF o.novalid THEN EOk([j |-> "xt", c |-> V.c]) ELSE EErr
    [] k = "mtn" -> EOk(IF o.noquote THEN [j |-> "n", c |-> "p12"] ELSE [j |-> "s", c |-> "s12"])
    [] k = "mjws" -> EOk([j |-> "o", m |-> <<[k |-> "mj", v |-> [j |-> "a", e |-> <<[j |-> "n", c |-> "p7"], [j |-> "n", c |-> "p12"]>>]]>>])
    [] k = "mje" -> EErr
    \* text that is not JSON passes only when validation is disabled and nothing has to parse it (compaction does)
    [] k = "mjbad" -> IF o.novalid /\ ~o.compact THEN EOk([j |-> "x", c |-> "xmjbad"]) ELSE EErr

Enc(T0, V, addr, o) ==
  LET T == Unfold(T0) IN
  IF T.k = "ptr" THEN
       (IF V = Nil THEN EOk([j |-> "null"]) ELSE Enc(T.e, V.e, TRUE, o))
  ELSE IF T.k \in {"mjp", "mtp"} /\ ~addr THEN
       \* not addressable: the pointer-receiver method is not in the method set, the value is a plain struct {S string}
       EOk([j |-> "o", m |-> <<[k |-> "S", v |-> [j |-> "s", c |-> V.c]]>>])
  ELSE IF T.k \in MarshalerKinds THEN CallMarshaler(T.k, V, o)
  ELSE IF T.k = "iface" THEN
       (IF V = Nil THEN EOk([j |-> "null"]) ELSE Enc(V.t, V.v, FALSE, o))
  ELSE IF T.k = "bool" THEN EOk([j |-> IF V.b THEN "t" ELSE "f"])
  ELSE IF T.k \in IntKinds \cup UintKinds THEN EOk([j |-> "n", c |-> V.c, as |-> T.k])
  ELSE IF T.k \in FloatKinds THEN
       (IF FloatBad(V.c) THEN (IF o.nanull THEN EOk([j |-> "null"]) ELSE EErr) ELSE EOk([j |-> "n", c |-> V.c, as |-> T.k]))
  ELSE IF T.k = "str" THEN EOk([j |-> "s", c |-> IF V.c = "sbad" /\ o.vs THEN "sbadfix" ELSE V.c])
  ELSE IF T.k = "num" THEN
       (IF V.c = "se" THEN EOk([j |-> "n", c |-> "z"])
        ELSE IF V.c \in NumClasses \cup {"p9"} THEN EOk([j |-> "n", c |-> V.c])
        ELSE IF V.c = "s12" THEN EOk([j |-> "n", c |-> "p12"])
        ELSE EErr)
  ELSE IF T.k = "raw" THEN
       (IF V = Nil THEN EOk([j |-> "null"])
        ELSE IF HasX(V.d) \/ V.d.j = "none" THEN (IF o.novalid /\ ~o.compact THEN EOk(V.d) ELSE EErr)    \* RawMessage is a Marshaler: see mjbad
        ELSE EOk(V.d))
  ELSE IF T.k = "bytes" \/ (T.k = "slice" /\ T.e.k = "u8") THEN
       (IF V = Nil THEN EOk(IF o.nonull THEN [j |-> "a", e |-> <<>>] ELSE [j |-> "null"])    \* documented: '[]' instead of 'null', also for []byte
        ELSE EOk([j |-> "s", c |-> V.c]))
  ELSE IF T.k = "slice" THEN
       (IF V = Nil THEN EOk(IF o.nonull THEN [j |-> "a", e |-> <<>>] ELSE [j |-> "null"]) ELSE EncSeq(T.e, V.e, 1, TRUE, o))
  ELSE IF T.k = "arr" THEN EncSeq(T.e, V.e, 1, addr, o)
  ELSE IF T.k = "map" /\ V # Nil /\ V.g = "bm" THEN
       \* a big map [g |-> "bm", n, p]: n keys sharing a prefix of p bytes, values 0..n-1; the document is its members in byte order of the keys
       EOk([j |-> "bm", n |-> V.n, p |-> V.p, key |-> T.key, sorted |-> o.sort])
  ELSE IF T.k = "map" THEN
       (IF V = Nil THEN EOk(IF o.nonull THEN [j |-> "o", m |-> <<>>] ELSE [j |-> "null"])
        ELSE EncMembers(T, SortMembers(V.m), 1, o))
  ELSE IF T.k = "st" THEN EncFields(T, Fields(T), V, 1, addr, o)
  ELSE EErr

EncSeq(E, vs, i, addr, o) ==
  IF i > Len(vs) THEN EOk([j |-> "a", e |-> <<>>])
  ELSE LET h == Enc(E, vs[i], addr, o)
           r == EncSeq(E, vs, i + 1, addr, o)
       IN IF h.err \/ r.err THEN EErr ELSE EOk([j |-> "a", e |-> <<h.d>> \o r.d.e])

\* map members in sorted key order; map values are not addressable
EncMembers(T, ms, i, o) ==
  IF i > Len(ms) THEN EOk([j |-> "o", m |-> <<>>])
  ELSE LET h == Enc(T.e, ms[i].v, FALSE, o)
           r == EncMembers(T, ms, i + 1, o)
       IN IF h.err \/ r.err THEN EErr ELSE EOk([j |-> "o", m |-> <<[k |-> ms[i].k, v |-> h.d]>> \o r.d.m])

\* value of a field path, or "absent" when an embedded pointer on the way is nil
FieldVal(T, V, path) ==
  IF Len(path) = 1 THEN V.f[path[1]]
  ELSE LET ev == V.f[path[1]]
           et == T.f[path[1]].t
       IN IF et.k = "ptr" THEN (IF ev = Nil THEN [g |-> "absent"] ELSE ev.e.f[path[2]]) ELSE ev.f[path[2]]

\* a nil pointer under `,string` is the bare null; NaN / Inf turned into null on request is quoted like the number would have been
\* (the option's documentation does not say; as built)
Quote(fv, d) == IF d.j = "null" THEN (IF fv = Nil THEN d ELSE [j |-> "s", c |-> "snull"]) ELSE [j |-> "qs", d |-> d]

EncFields(T, fs, V, i, addr, o) ==
  IF i > Len(fs) THEN EOk([j |-> "o", m |-> <<>>])
  ELSE LET fd == fs[i]
           fv == FieldVal(T, V, fd.path)
           \* a field reached through an embedded pointer is addressable; otherwise it inherits the struct's addressability
           faddr == addr \/ (Len(fd.path) = 2 /\ T.f[fd.path[1]].t.k = "ptr")
           r == EncFields(T, fs, V, i + 1, addr, o)
       IN IF fv = [g |-> "absent"] \/ (fd.omit /\ IsEmpty(fd.t, fv)) THEN r
          ELSE LET h == Enc(fd.t, fv, faddr, o)
                   d == IF fd.q /\ QuotableField(fd.t) /\ ~h.err THEN Quote(fv, h.d) ELSE h.d
               IN IF h.err \/ r.err THEN EErr ELSE EOk([j |-> "o", m |-> <<[k |-> fd.jn, v |-> d]>> \o r.d.m])

\* Marshal(v) (top = "val": not addressable) or Marshal(&v) (top = "ptr")
Marshal(T, V, top, o) == Enc(T, V, top = "ptr", o)
=============================================================================
