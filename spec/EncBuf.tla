------------------------------- MODULE EncBuf -------------------------------
(***************************************************************************)
(* Property C06, the overrun half: "the encoder never writes outside the   *)
(* spare capacity of a caller-supplied buffer, and the bytes it produces   *)
(* do not depend on that buffer's capacity or prior contents".             *)
(*                                                                         *)
(* The generated encoder appends to one buffer (len, cap).  Every emitting *)
(* site follows the same discipline (internal/encoder/x86 check_size,      *)
(* vm: append): reserve, then write.  A value is a sequence of items:      *)
(*   Fix(n)        n bytes known in advance (punctuation, keys, literals,  *)
(*                 numbers with their maximal width reserved)              *)
(*   Quo(n, el)    a string of n source bytes whose escaped text is        *)
(*                 el >= n bytes: reserve n + 2, write the opening quote,  *)
(*                 let the quoter fill the spare room - it stops when the  *)
(*                 room is used up, the buffer is then regrown and the     *)
(*                 quoter resumed - and write the closing quote, for which *)
(*                 room has to be reserved AGAIN, because the escaped text *)
(*                 may have used exactly everything that was reserved.     *)
(* Mut = {"NoClosingReserve"} drops that second reservation (the seeded    *)
(* change C06-d); TLC shows the state it breaks: spare = 1 + el.           *)
(* The quoter is resumed from sp, the amount of the string done so far,    *)
(* which each interrupted call ADDS to; Mut = {"ResumeOverwrite"} stores   *)
(* the last call's amount instead (the seeded change C03-e: harmless for   *)
(* one regrowth, since sp starts at 0, and wrong from the second on - part *)
(* of the string is emitted again); TLC shows Result broken exactly when a *)
(* string outgrows the buffer twice.                                       *)
(*                                                                         *)
(* Growing replaces the array (the caller's array is abandoned, never      *)
(* written again): cap' >= what is needed.  `out` is the number of bytes   *)
(* produced; Result requires it to be the sum of the items whatever the    *)
(* initial capacity and prefix were.                                       *)
(***************************************************************************)
EXTENDS Naturals, Sequences, TLC

CONSTANTS MaxCap,     \* initial capacities 0..MaxCap
          MaxPre,     \* initial lengths (prefix the caller already has in the buffer) 0..MaxPre
          Mut

Fix(n) == [t |-> "fix", n |-> n, el |-> n, r |-> n]
Num(n, r) == [t |-> "fix", n |-> n, el |-> n, r |-> r]      \* a number of n digits for which the maximal width r is reserved
Quo(n, el) == [t |-> "quo", n |-> n, el |-> el, r |-> n + 2]

\* shapes: a lone string, strings between punctuation, strings whose escaped text doubles / is six-fold, empty strings
Shapes == { <<Quo(0, 0)>>, <<Quo(1, 1)>>, <<Quo(3, 4)>>, <<Quo(1, 6)>>, <<Quo(2, 12)>>,
            <<Fix(1), Quo(3, 4), Fix(1)>>, <<Fix(1), Quo(1, 2), Fix(1), Quo(2, 2), Fix(1)>>,
            <<Fix(4)>>, <<Fix(1), Fix(5), Fix(1), Fix(2)>>, <<Fix(1), Quo(1, 1), Fix(1), Fix(4), Fix(1)>>,
            <<Num(1, 6)>>, <<Fix(1), Num(2, 6), Fix(1), Num(1, 6), Fix(1)>>, <<Fix(1), Quo(1, 2), Fix(1), Num(3, 6), Fix(1)>> }

VARIABLES shape, pc, ph, len, cap, left, pre, cap0, regrown, sp
vars == <<shape, pc, ph, len, cap, left, pre, cap0, regrown, sp>>

Init == /\ shape \in Shapes /\ pre \in 0..MaxPre /\ cap0 \in 0..MaxCap /\ pre <= cap0
        /\ pc = 1 /\ ph = "reserve" /\ len = pre /\ cap = cap0 /\ left = 0 /\ regrown = 0 /\ sp = 0

Item == shape[pc]
Max(a, b) == IF a > b THEN a ELSE b
\* reserve n more bytes: regrow when they do not fit (the new array holds at least len + n)
Reserve(n) == IF len + n <= cap THEN cap' = cap /\ regrown' = regrown
              ELSE cap' = Max(2 * cap, len + n) /\ regrown' = regrown + 1

Done == pc > Len(shape)

Step ==
  /\ ~Done
  /\ \/ /\ Item.t = "fix" /\ ph = "reserve"
        /\ Reserve(Item.r) /\ ph' = "write" /\ UNCHANGED <<len, left, pc, sp>>
     \/ /\ Item.t = "fix" /\ ph = "write"
        /\ len' = len + Item.n /\ pc' = pc + 1 /\ ph' = "reserve" /\ UNCHANGED <<cap, left, regrown, sp>>
     \/ /\ Item.t = "quo" /\ ph = "reserve"
        /\ Reserve(Item.r) /\ ph' = "open" /\ UNCHANGED <<len, left, pc, sp>>
     \/ /\ Item.t = "quo" /\ ph = "open"
        /\ len' = len + 1 /\ left' = Item.el /\ sp' = 0 /\ ph' = "quote" /\ UNCHANGED <<cap, pc, regrown>>
     \/ /\ Item.t = "quo" /\ ph = "quote"            \* the quoter writes what fits into the spare room
        /\ LET room == cap - len IN
           IF left <= room
           THEN len' = len + left /\ left' = 0 /\ ph' = "close" /\ UNCHANGED <<cap, regrown, sp>>
           ELSE /\ len' = len + room
                /\ sp' = IF "ResumeOverwrite" \in Mut THEN room ELSE sp + room     \* where the next call resumes
                /\ left' = Item.el - sp'
                /\ cap' = Max(2 * cap, cap + 1) /\ regrown' = regrown + 1 /\ ph' = "quote"
        /\ UNCHANGED pc
     \/ /\ Item.t = "quo" /\ ph = "close"
        /\ IF "NoClosingReserve" \in Mut THEN UNCHANGED <<cap, regrown>> ELSE Reserve(1)
        /\ ph' = "closing" /\ UNCHANGED <<len, left, pc, sp>>
     \/ /\ Item.t = "quo" /\ ph = "closing"
        /\ len' = len + 1 /\ pc' = pc + 1 /\ ph' = "reserve" /\ UNCHANGED <<cap, left, regrown, sp>>
  /\ UNCHANGED <<shape, pre, cap0>>

Next == Step \/ (Done /\ UNCHANGED vars)
Spec == Init /\ [][Next]_vars

RECURSIVE Total(_, _)
Total(s, i) == IF i > Len(s) THEN 0 ELSE (IF s[i].t = "quo" THEN s[i].el + 2 ELSE s[i].n) + Total(s, i + 1)

\* nothing is ever written beyond the capacity of the array in use
Within == len <= cap
\* the bytes produced do not depend on the initial capacity or prefix
Result == Done => len = pre + Total(shape, 1)
=============================================================================
