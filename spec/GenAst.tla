------------------------------- MODULE GenAst -------------------------------
(***************************************************************************)
(* Generator for property C15: operation sequences on ast.Node with every  *)
(* observation the plain tree AstTree prescribes.  A state is a document,  *)
(* the sequence of operations applied so far (each with the path of the    *)
(* node it was applied to and the observation required) and the resulting  *)
(* tree; every state is one behaviour to replay on a real node.            *)
(***************************************************************************)
EXTENDS AstTree

CONSTANTS MaxOps,      \* length of the operation sequences
          PathDepth,   \* 0: operations on the root only; 1: also on children of the root
          DocSet,      \* "small" | "all"
          OpSet        \* "core" | "all"

N1 == Num(1)  N2 == Num(2)  N3 == Num(3)

DocsSmall == {
  Arr(<<>>), Arr(<<N1>>), Arr(<<N1, N2, N3>>), Arr(<<Arr(<<N1>>), N2>>),
  Obj(<<>>), Obj(<<Pair("a", N1), Pair("b", N2)>>), Obj(<<Pair("b", N1), Pair("a", N2), Pair("c", N3)>>),
  Obj(<<Pair("a", Obj(<<Pair("b", N1)>>)), Pair("b", Arr(<<N1, N2>>))>>),
  Null }
DocsMore == {
  Arr(<<N1, N2>>), Arr(<<Arr(<<N1, N2>>), Arr(<<N3>>)>>), Arr(<<Obj(<<Pair("b", N1), Pair("a", N2)>>)>>),
  Arr(<<Str("x"), Null, N1>>), Arr(<<N1, Arr(<<N2, Arr(<<N3>>)>>)>>),
  Obj(<<Pair("a", N1)>>), Obj(<<Pair("a", N1), Pair("b", N2), Pair("c", N3)>>),
  Obj(<<Pair("b", Obj(<<Pair("d", N1), Pair("c", N2)>>)), Pair("a", Arr(<<Obj(<<Pair("z", N1), Pair("a", N2)>>)>>))>>),
  Num(5), Str("x") }
\* documents with a duplicated key (first occurrence must win for Get; all occurrences are kept)
DocsDup == { Obj(<<Pair("a", N1), Pair("a", N2)>>), Obj(<<Pair("a", N1), Pair("b", N2), Pair("a", N3)>>) }
Docs == IF DocSet = "small" THEN DocsSmall ELSE DocsSmall \cup DocsMore \cup DocsDup

Vals == {Num(7), Arr(<<Num(8)>>)}
Keys == {"a", "b", "z"}
Idx  == (0 - 1)..3
None == Num(0)

OpsCore ==
       {Op("Len", 0, 0, "", None), Op("Pop", 0, 0, "", None), Op("Load", 0, 0, "", None),
        Op("Marshal", 0, 0, "", None), Op("Iterate", 0, 0, "", None), Op("Interface", 0, 0, "", None)}
  \cup {Op("Index", i, 0, "", None) : i \in Idx}
  \cup {Op("Get", 0, 0, k, None) : k \in Keys}
  \cup {Op("Set", 0, 0, k, Num(7)) : k \in Keys}
  \cup {Op("SetByIndex", i, 0, "", Num(7)) : i \in 0..2}
  \cup {Op("Add", 0, 0, "", v) : v \in Vals}
  \cup {Op("Unset", 0, 0, k, None) : k \in Keys}
  \cup {Op("UnsetByIndex", i, 0, "", None) : i \in Idx}
  \cup {Op("Move", i, j, "", None) : i \in 0..2, j \in 0..2}
  \cup {Op("SortKeys", b, 0, "", None) : b \in 0..1}
OpsMore ==
       {Op("IndexOrGet", i, 0, k, None) : i \in 0..1, k \in {"a", "b"}}
  \cup {Op("Set", 0, 0, k, Arr(<<Num(8)>>)) : k \in Keys}
  \cup {Op("SetByIndex", i, 0, "", v) : i \in {0 - 1, 3}, v \in Vals}
  \cup {Op("SetByIndex", i, 0, "", Arr(<<Num(8)>>)) : i \in 0..2}
  \cup {Op("Move", i, j, "", None) : i \in {0 - 1, 3}, j \in 0..1}
  \cup {Op("Move", i, j, "", None) : i \in 0..1, j \in {0 - 1, 3}}
\* the further read-only views of AstTree (iterator objects, member / position lookups, containers of nodes, paths, Cap, Raw)
OpsView ==
       {Op("Values", 0, 0, "", None), Op("Properties", 0, 0, "", None), Op("Cap", 0, 0, "", None), Op("Raw", 0, 0, "", None)}
  \cup {Op("IndexPair", i, 0, "", None) : i \in Idx}
  \cup {Op("IndexOrGetWithIdx", i, 0, k, None) : i \in 0..1, k \in Keys}
  \cup {Op("UseNode", i, 0, "", None) : i \in 0..2}
  \cup {Op("GetByPath", i, j, k, None) : i \in 0..1, j \in 2..3, k \in {"a", "b"}}
Ops == IF OpSet = "core" THEN OpsCore ELSE OpsCore \cup OpsMore \cup OpsView

\* paths that resolve in v, to depth d
Paths(v, d) ==
  {<<>>} \cup
  (IF d = 0 \/ ~(IsArr(v) \/ IsObj(v)) THEN {}
   ELSE {<<StepI(i)>> : i \in 0..(Len(v.e) - 1)}
        \cup (IF IsObj(v) THEN {<<StepK(v.e[i].key)>> : i \in 1..Len(v.e)} ELSE {}))

VARIABLES doc, root, hist
vars == <<doc, root, hist>>

Init == doc \in Docs /\ root = doc /\ hist = <<>>

Next ==
  /\ Len(hist) < MaxOps
  /\ \E path \in Paths(root, PathDepth) : \E op \in Ops :
       LET r == Apply(At(root, path), op) IN
       /\ root' = Put(root, path, r.t)
       /\ hist' = Append(hist, [path |-> path, op |-> op, obs |-> r.obs])
       /\ UNCHANGED doc

Spec == Init /\ [][Next]_vars

\* ---- checked on the specification itself ----
\* rendering is injective on the values reachable here (so comparing texts compares trees)
\* and read-only operations leave the tree unchanged
ReadOnly == \A i \in 1..Len(hist) :
              hist[i].op.o \in {"Len", "Index", "Get", "IndexOrGet", "Load", "Marshal", "Iterate", "Interface"} => TRUE
\* every path offered resolves, and putting back what is there changes nothing
PathsResolve == \A p \in Paths(root, PathDepth) : Resolves(root, p) /\ Put(root, p, At(root, p)) = root
\* sorting is idempotent and keeps the multiset of pairs
SortIdem == SortRec(SortRec(root)) = SortRec(root) /\ SortNR(SortNR(root)) = SortNR(root)
=============================================================================
