------------------------------ MODULE GenBind ------------------------------
(***************************************************************************)
(* Generator for the binding universe (C01, C11, C18, C07): every bounded   *)
(* (type, document, prior value, options) case as an initial state, with    *)
(* the result the contract requires.  Documents are type directed: the      *)
(* shape that matches the type, and every single-point perturbation of it.  *)
(***************************************************************************)
EXTENDS Bind, SequencesExt

CONSTANTS Fam,        \* "leaf" | "wrap1" | "wrap2" | "st1" | "st2" | "emb" | "opts"
          Part, NParts \* this run enumerates the types whose index is Part modulo NParts
VARIABLES T, J, old, o, R
vars == <<T, J, old, o, R>>

Leaf == {[k |-> x] : x \in LeafKinds}
LeafR == {[k |-> x] : x \in {"i8", "u16", "int", "f32", "f64", "str", "bool", "iface", "num", "raw", "bytes", "uj", "ut"}}
KeyKinds == {"str", "int", "i8", "u8", "txt"}
AllKeyKinds == {"str", "txt"} \cup IntKinds \cup UintKinds
WrapK(S, KK) == {[k |-> "ptr", e |-> t] : t \in S} \cup {[k |-> "slice", e |-> t] : t \in S}
                \cup {[k |-> "arr", n |-> n, e |-> t] : n \in {0, 1, 2}, t \in S}
                \cup {[k |-> "map", key |-> kk, e |-> t] : kk \in KK, t \in S}
Wrap(S) == WrapK(S, KeyKinds)

Fld(tg, n, jn, t) == [tag |-> tg, n |-> n, jn |-> jn, t |-> t]
\* field tag forms for the field whose Go name is n
TagForms(n, t) == {Fld("none", n, n, t), Fld("dash", n, n, t), Fld("str", n, n, t), Fld("omit", n, n, t),
                   Fld("ren", n, "a", t), Fld("ren", n, "B", t), Fld("ren", n, "x", t)}
St(fs) == [k |-> "st", f |-> fs]
RECURSIVE Deep(_, _)
Deep(n, t) == IF n = 0 THEN t
              ELSE IF n \in {1, 5} THEN St(<<Fld("none", "A", "A", Deep(n - 1, t)), Fld("omit", "B", "B", [k |-> "int"])>>)
              ELSE St(<<Fld("none", "A", "A", Deep(n - 1, t))>>)
EmbA == St(<<Fld("none", "A", "A", [k |-> "i8"]), Fld("none", "B", "B", [k |-> "str"])>>)
EmbT == St(<<Fld("ren", "A", "A", [k |-> "i8"]), Fld("ren", "B", "b", [k |-> "str"])>>)

\* ---- big structs: the field lookup at scale (hash table instead of a linear scan, long key lists, case-insensitive fallback) ----
BigNames == <<"F00", "F01", "F02", "F03", "F04", "F05", "F06", "F07", "F08", "F09", "F10", "F11", "F12", "F13", "F14", "F15", "F16", "F17", "F18", "F19", "F20", "F21", "F22", "F23", "F24", "F25", "F26", "F27", "F28", "F29", "F30", "F31", "F32", "F33", "F34", "F35", "F36", "F37", "F38", "F39", "F40", "F41", "F42", "F43", "F44", "F45", "F46", "F47", "F48", "F49", "F50", "F51", "F52", "F53", "F54", "F55", "F56", "F57", "F58", "F59", "F60", "F61", "F62", "F63", "F64", "F65", "F66", "F67", "F68", "F69", "F70", "F71", "F72", "F73", "F74", "F75", "F76", "F77", "F78", "F79", "F80", "F81", "F82", "F83", "F84", "F85", "F86", "F87", "F88", "F89", "F90", "F91", "F92", "F93", "F94", "F95", "F96", "F97", "F98", "F99">>
BigSizes == {1, 7, 8, 9, 16, 17, 32, 33, 64, 100}
BigStruct(n) == St([i \in 1..n |-> Fld("none", BigNames[i], BigNames[i], IF i % 4 = 0 THEN [k |-> "str"] ELSE [k |-> "int"])])

Types ==
  CASE Fam = "leaf" -> Leaf
    [] Fam = "rec" -> {[k |-> "rec", d |-> 2], [k |-> "ptr", e |-> [k |-> "rec", d |-> 2]], [k |-> "slice", e |-> [k |-> "rec", d |-> 1]],
                      [k |-> "map", key |-> "str", e |-> [k |-> "ptr", e |-> [k |-> "rec", d |-> 1]]], St(<<Fld("omit", "A", "A", [k |-> "rec", d |-> 1])>>)}
    [] Fam = "bigst" -> {BigStruct(n) : n \in BigSizes}
    [] Fam = "deepst" -> {Deep(5, t) : t \in {[k |-> "f64"], [k |-> "str"], [k |-> "iface"], [k |-> "uj"], [k |-> "slice", e |-> [k |-> "int"]], [k |-> "ptr", e |-> [k |-> "i8"]],
                                               [k |-> "map", key |-> "str", e |-> [k |-> "f64"]]}}
    [] Fam = "bounds" -> {[k |-> kk] : kk \in IntKinds \cup UintKinds \cup {"f32", "f64", "iface", "num"}}   \* every width x its exact boundaries, as values ...
                         \cup {[k |-> "ptr", e |-> [k |-> kk]] : kk \in IntKinds \cup UintKinds}
                         \cup {[k |-> "slice", e |-> [k |-> kk]] : kk \in IntKinds \cup UintKinds}
                         \cup {[k |-> "map", key |-> kk, e |-> [k |-> "int"]] : kk \in IntKinds \cup UintKinds}   \* ... and as map keys
    [] Fam = "ifptr" -> LET base == {[k |-> "ifp", e |-> e] : e \in {[k |-> "int"], [k |-> "i8"], [k |-> "str"], [k |-> "f64"], [k |-> "bool"],
                                                                     St(<<Fld("none", "A", "A", [k |-> "int"]), Fld("ren", "B", "b", [k |-> "str"])>>),
                                                                     [k |-> "slice", e |-> [k |-> "int"]], [k |-> "map", key |-> "str", e |-> [k |-> "int"]]}}
                        IN base \cup {[k |-> "slice", e |-> t] : t \in base} \cup {[k |-> "map", key |-> "str", e |-> t] : t \in base}
                                \cup {[k |-> "arr", n |-> 2, e |-> t] : t \in base} \cup {[k |-> "ptr", e |-> t] : t \in base}
                                \cup {St(<<Fld("none", "A", "A", t), Fld("ren", "B", "b", [k |-> "str"])>>) : t \in base}
    [] Fam = "mapkeys" -> {[k |-> "map", key |-> kk, e |-> t] : kk \in AllKeyKinds, t \in {[k |-> "int"], [k |-> "str"]}}   \* every key parser, always in the quick tier
    [] Fam = "wrap1" -> WrapK(Leaf, AllKeyKinds)        \* every key kind: each has its own key parser
    [] Fam = "wrap2" -> Wrap(Wrap(LeafR))
    [] Fam = "st1" -> {St(<<f>>) : f \in UNION {TagForms("A", t) : t \in Leaf \cup Wrap(LeafR)}}
    [] Fam = "st1l" -> {St(<<f>>) : f \in UNION {TagForms("A", t) : t \in Leaf}}          \* every tag form on every leaf kind
    [] Fam = "st1w" -> {St(<<f>>) : f \in UNION {TagForms("A", t) : t \in Wrap(LeafR)}}
    [] Fam = "st2" -> {St(<<f, g>>) : f \in UNION {TagForms("A", t) : t \in {[k |-> "i8"], [k |-> "str"], [k |-> "slice", e |-> [k |-> "int"]]}},
                                      g \in UNION {{Fld("none", "B", "B", t), Fld("ren", "B", "A", t), Fld("ren", "B", "a", t), Fld("str", "B", "B", t)} :
                                                   t \in {[k |-> "i8"], [k |-> "iface"], [k |-> "ptr", e |-> [k |-> "f64"]], [k |-> "map", key |-> "str", e |-> [k |-> "int"]]}}}
    [] Fam = "emb" -> {St(<<Fld("emb", "E", "E", e), g>>) : e \in {EmbA, EmbT, [k |-> "ptr", e |-> EmbA]},
                                                       g \in {Fld("none", "A", "A", [k |-> "str"]), Fld("none", "B", "B", [k |-> "i8"]), Fld("ren", "A", "A", [k |-> "f64"]),
                                                              Fld("none", "C", "C", [k |-> "int"]), Fld("dash", "A", "A", [k |-> "int"])}}
                      \cup {St(<<Fld("emb", "E", "E", e), Fld("emb", "F", "F", e2)>>) : e \in {EmbA, [k |-> "ptr", e |-> EmbA]}, e2 \in {EmbA, EmbT}}
                      \cup {St(<<g, Fld("emb", "E", "E", e)>>) : e \in {EmbA, [k |-> "ptr", e |-> EmbT]}, g \in {Fld("none", "B", "B", [k |-> "i8"]), Fld("ren", "X", "a", [k |-> "str"])}}
    [] Fam = "opts" -> {St(<<Fld("none", "A", "A", t), Fld("ren", "B", "b", [k |-> "str"])>>) : t \in {[k |-> "iface"], [k |-> "i8"], [k |-> "slice", e |-> [k |-> "iface"]]}}
                       \cup {[k |-> "iface"], [k |-> "map", key |-> "str", e |-> [k |-> "iface"]]}

TypeSeq == SetToSeq(Types)
\* ---- documents ----
N(c) == [j |-> "n", c |-> c]
S(c) == [j |-> "s", c |-> c]
Arr(e) == [j |-> "a", e |-> e]
Obj(m) == [j |-> "o", m |-> m]
KV(k, v) == [k |-> k, v |-> v]
Null == [j |-> "null"]
Atoms == {Null, [j |-> "t"], [j |-> "f"], [j |-> "x", c |-> "x01"], [j |-> "x", c |-> "xtru"],
          Arr(<<>>), Arr(<<N("p7")>>), Arr(<<Null>>), Obj(<<>>), Obj(<<KV("A", N("p7"))>>), Obj(<<KV("k", S("sx"))>>), Obj(<<KV("12", N("p7"))>>)}
         \cup {N(c) : c \in NumClasses \ BoundLits} \cup {S(c) : c \in StrClasses \ (QClasses \ {"q7", "q300"})}
AtomsR == {Null, [j |-> "t"], N("p7"), N("p300"), N("f1_5"), S("sx"), S("s12"), Arr(<<>>), Obj(<<>>), [j |-> "x", c |-> "x01"]}
          \cup (IF Fam = "opts" THEN {S("ssur"), Obj(<<KV("~sur", N("p7"))>>)} ELSE {})
          \cup (IF Fam \in {"st1", "st1l", "st1w", "st2", "emb", "opts"} THEN {S(c) : c \in QClasses \cup SQBad \cup {"strue", "sq", "sqe", "snull"}} ELSE {})

RECURSIVE Match(_)
Match(t) ==
  CASE t.k = "rec" -> IF t.d = 0 THEN Obj(<<KV("V", N("p7"))>>)
                      ELSE Obj(<<KV("V", N("p7")), KV("next", Match([k |-> "rec", d |-> t.d - 1])), KV("kids", Arr(<<Match([k |-> "rec", d |-> t.d - 1])>>))>>)
    [] t.k = "ifp" -> Match(t.e)
    [] t.k \in NumKinds \cup {"num", "iface"} -> N("p7")
    [] t.k = "bool" -> [j |-> "t"]
    [] t.k \in {"str", "ut"} -> S("sx")
    [] t.k = "raw" -> Arr(<<N("p7")>>)
    [] t.k = "bytes" -> S("sb64")
    [] t.k = "uj" -> Obj(<<KV("k", N("p7"))>>)
    [] t.k = "ptr" -> Match(t.e)
    [] t.k \in {"slice", "arr"} -> Arr(<<Match(t.e), Match(t.e)>>)
    [] t.k = "map" -> IF t.key \in {"str", "txt"} THEN Obj(<<KV("k", Match(t.e)), KV("x", Match(t.e))>>)
                      ELSE Obj(<<KV("12", Match(t.e)), KV("-1", Match(t.e))>>)
    [] t.k = "st" -> Obj([i \in 1..Len(t.f) |-> KV(IF t.f[i].tag = "emb" THEN "A" ELSE t.f[i].jn,
                                                  IF t.f[i].tag = "str" /\ QuotableField(t.f[i].t) THEN S("q7")
                                                  ELSE Match(IF t.f[i].tag = "emb" THEN [k |-> "i8"] ELSE t.f[i].t))])

AltKeys == {"~sur", "A", "a", "B", "b", "C", "x", "Z", "k", "12", "-1", "300", "01", "", "-129", "200", "40000", "-40000", "3000000000", "5000000000",
            "9223372036854775808", "-9223372036854775808"}

\* every document that differs from J at one point: a sub-document replaced by an atom, an element or member
\* dropped or duplicated, a key replaced
RECURSIVE Perturb(_, _)
Perturb(Jd, depth) ==
  (IF depth = 0 THEN Atoms ELSE AtomsR) \cup
  (CASE Jd.j = "a" ->
          UNION {{[Jd EXCEPT !.e[i] = p] : p \in Perturb(Jd.e[i], depth + 1)} : i \in 1..Len(Jd.e)}
          \cup (IF Len(Jd.e) > 0 THEN {Arr(Tail(Jd.e)), Arr(Jd.e \o <<Jd.e[1]>>), Arr(Jd.e \o <<N("p300")>>), Arr(Jd.e \o <<[j |-> "x", c |-> "x01"]>>),
                                      Arr(Jd.e \o <<[j |-> "xs", c |-> "xnone"]>>), Arr(<<[j |-> "xs", c |-> "xnone"]>> \o Jd.e),
                                      \* longer than any prior slice's capacity (3), with nulls where the prior value has (visible or stale) elements
                                      Arr(<<Jd.e[1], Null, Null, Jd.e[1]>>), Arr(<<Null, Null, Null, Null, Jd.e[1]>>)} ELSE {})
     [] Jd.j = "o" ->
          UNION {{[Jd EXCEPT !.m[i].v = p] : p \in Perturb(Jd.m[i].v, depth + 1)} : i \in 1..Len(Jd.m)}
          \cup (IF depth = 0 THEN {[Jd EXCEPT !.m[i].k = k2] : i \in 1..Len(Jd.m), k2 \in AltKeys} ELSE {})
          \cup (IF Len(Jd.m) > 0 THEN {Obj(Tail(Jd.m)), Obj(Jd.m \o <<Jd.m[1]>>), Obj(Jd.m \o <<KV(Jd.m[1].k, Null)>>),
                                      Obj(Jd.m \o <<KV(Jd.m[1].k, N("p12"))>>), Obj(<<KV("Z", Arr(<<N("p7")>>))>> \o Jd.m),
                                      Obj(Jd.m \o <<KV("Z", [j |-> "x", c |-> "xtru"])>>), Obj(Jd.m \o <<KV("Z", N("big"))>>),
                                      Obj(Jd.m \o <<KV("Z", [j |-> "xs", c |-> "xnone"])>>),
                                      \* a member that is nothing at all: a trailing / leading comma
                                      Obj(Jd.m \o <<KV("~comma", [j |-> "xs", c |-> "xnone"])>>), Obj(<<KV("~comma", [j |-> "xs", c |-> "xnone"])>> \o Jd.m)} ELSE {})
     [] OTHER -> {})

BigVal(t, i) == IF t.f[i].t.k = "str" THEN S(IF i % 8 = 0 THEN "sx" ELSE "s12") ELSE N(IF i % 3 = 0 THEN "p7" ELSE IF i % 3 = 1 THEN "p12" ELSE "p300")
Lower(nm) == CASE nm = "F00" -> "f00" [] nm = "F06" -> "f06" [] nm = "F07" -> "f07" [] nm = "F16" -> "f16" [] nm = "F63" -> "f63" [] nm = "F99" -> "f99" [] OTHER -> nm
BigDocs(t) ==
  LET n == Len(t.f)
      all == [i \in 1..n |-> KV(t.f[i].jn, BigVal(t, i))]
      rev == [i \in 1..n |-> all[n + 1 - i]]
      mid == (n + 1) \div 2
  IN {Obj(all), Obj(rev), Obj(<<all[n]>>), Obj(<<all[1]>>), Obj(<<all[mid]>>),
      Obj([i \in 1..n |-> KV(Lower(all[i].k), all[i].v)]),                                   \* case variants where the table has one
      Obj(SubSeq(all, 1, mid) \o <<KV("F_x", Arr(<<N("p7")>>))>> \o SubSeq(all, mid + 1, n)),      \* an unknown key in the middle
      Obj(all \o <<KV(all[1].k, BigVal(t, (1 % n) + 1))>>), Obj(<<KV(all[n].k, BigVal(t, (1 % n) + 1))>> \o all),    \* duplicates: the last occurrence wins
      Obj(all \o <<KV("F_x", [j |-> "x", c |-> "x01"])>>),
      Obj([i \in 1..n |-> KV(all[i].k, IF i = mid THEN Null ELSE all[i].v)]),
      Obj([i \in 1..n |-> KV(all[i].k, IF i = n THEN (IF t.f[i].t.k = "str" THEN N("p7") ELSE S("sx")) ELSE all[i].v)])}   \* a mismatch in the last field

MyTypes == {TypeSeq[i] : i \in {x \in 1..Len(TypeSeq) : x % NParts = Part}}



BoundDocs(t) == CASE t.k = "map" -> {Obj(<<KV(BoundKey(c), N("p7"))>>) : c \in BoundLits} \cup {Obj(<<KV("12", N(c))>>) : c \in {"imax32", "imaxp32", "imax64", "imaxp64"} \cap BoundLits}
                   [] t.k = "slice" -> {Arr(<<N("p7"), N(c)>>) : c \in BoundLits}
                   [] OTHER -> {N(c) : c \in BoundLits}
DocsFor(t) == IF Fam = "bigst" THEN BigDocs(t) ELSE IF Fam = "bounds" THEN BoundDocs(t) ELSE {Match(t)} \cup Perturb(Match(t), 0)

RECURSIVE HasIface(_)
HasIface(t) == CASE t.k \in {"iface", "ifp"} -> TRUE
                 [] t.k \in {"ptr", "slice", "arr", "map"} -> HasIface(t.e)
                 [] t.k = "st" -> \E i \in 1..Len(t.f) : HasIface(t.f[i].t)
                 [] OTHER -> FALSE
RECURSIVE StdOnly(_)
StdOnly(Jd) == CASE Jd.j = "s" -> Jd.c \in {"sctl", "sbad"}
                 [] Jd.j = "a" -> \E i \in 1..Len(Jd.e) : StdOnly(Jd.e[i])
                 [] Jd.j = "o" -> \E i \in 1..Len(Jd.m) : StdOnly(Jd.m[i].v)
                 [] OTHER -> FALSE

OptsFor(t, Jd) == LET hi == HasIface(t)
                      so == StdOnly(Jd)
                  IN {x \in Opts : /\ (x.num # "none" => hi)
                                   /\ (~x.vs => ~so)
                                   /\ (Fam # "opts" => ~x.cs /\ ~x.duf /\ ~x.ue)}

Init == /\ T \in MyTypes
        /\ J \in DocsFor(T)
        /\ old \in {"zero", "pre"} \cup (IF HasSlice(T) THEN {"precap"} ELSE {})
        /\ o \in OptsFor(T, J)
        /\ R = Unmarshal(T, J, CASE old = "zero" -> Zero(T) [] old = "pre" -> Pre(T) [] old = "precap" -> PreCap(T), o)
Next == UNCHANGED vars
Spec == Init /\ [][Next]_vars

\* the contract is total and well-typed on the universe
ResultOk == R.hard \in BOOLEAN /\ R.soft \in BOOLEAN /\ (R.soft => HasX(J)) /\ (HasX(J) => R.hard \/ R.soft)
=============================================================================
