------------------------------ MODULE GenEmit ------------------------------
(***************************************************************************)
(* Generator for the encoding universe (C03, C04, C12, C18): every bounded  *)
(* (type, value, addressability, option set) case as an initial state with  *)
(* the document Marshal must emit (or the error), and the value decoding    *)
(* that document again must give.  TLC checks on every case the round-trip  *)
(* law of C04: the emitted document is JSON, and decoding it into the same  *)
(* type gives the original value (up to what JSON cannot carry).            *)
(***************************************************************************)
EXTENDS Emit, SequencesExt, Randomization

CONSTANTS Fam, Part, NParts,
          NOpts      \* how many random option sets per (type, value) besides the std-compatible one (0: std only)
VARIABLES T, V, top, o, E, RV
vars == <<T, V, top, o, E, RV>>

K(x) == [k |-> x]
ELeafKinds == NumKinds \cup {"bool", "str", "iface", "num", "raw", "bytes"} \cup MarshalerKinds
ELeaf == {K(x) : x \in ELeafKinds}
ELeafR == {K(x) : x \in {"i8", "u16", "int", "f32", "f64", "str", "bool", "iface", "num", "raw", "bytes", "mjv", "mjp", "mtv", "mtp"}}
KeyKinds == {"str", "int", "i8", "u8", "txt"}
Wrap(S) == {[k |-> "ptr", e |-> t] : t \in S} \cup {[k |-> "slice", e |-> t] : t \in S}
           \cup {[k |-> "arr", n |-> n, e |-> t] : n \in {0, 1, 2}, t \in S}
           \cup {[k |-> "map", key |-> kk, e |-> t] : kk \in KeyKinds, t \in S}
Fld(tg, n, jn, t) == [tag |-> tg, n |-> n, jn |-> jn, t |-> t]
St(fs) == [k |-> "st", f |-> fs]
TagForms(n, t) == {Fld("none", n, n, t), Fld("dash", n, n, t), Fld("str", n, n, t), Fld("omit", n, n, t), Fld("omitstr", n, n, t), Fld("ren", n, "x", t)}
RECURSIVE Deep(_, _)
Deep(n, t) == IF n = 0 THEN t
              ELSE IF n \in {1, 5} THEN St(<<Fld("none", "A", "A", Deep(n - 1, t)), Fld("omit", "B", "B", K("int"))>>)
              ELSE St(<<Fld("none", "A", "A", Deep(n - 1, t))>>)
EmbA == St(<<Fld("none", "A", "A", K("i8")), Fld("omit", "B", "B", K("str"))>>)
EmbM == St(<<Fld("none", "A", "A", K("mjp")), Fld("ren", "B", "b", K("f64"))>>)

\* the dynamic types an interface value may hold
Dyn == {K("int"), K("f64"), K("str"), K("bool"), K("mjv"), K("mjp"), K("mtp"), K("mtd"), K("mta"), [k |-> "ptr", e |-> K("mjp")], [k |-> "slice", e |-> K("int")],
        [k |-> "map", key |-> "str", e |-> K("mjp")], St(<<Fld("omit", "A", "A", K("int")), Fld("none", "B", "B", K("mjp"))>>)}

Types ==
  CASE Fam = "leaf" -> ELeaf
    [] Fam = "wrap1" -> Wrap(ELeaf \cup {St(<<>>)})
    [] Fam = "wrap2" -> Wrap(Wrap(ELeafR))
    [] Fam = "st1" -> {St(<<f>>) : f \in UNION {TagForms("A", t) : t \in ELeaf \cup Wrap(ELeafR)}}
    [] Fam = "st1l" -> {St(<<f>>) : f \in UNION {TagForms("A", t) : t \in ELeaf}}
    [] Fam = "st1w" -> {St(<<f>>) : f \in UNION {TagForms("A", t) : t \in Wrap(ELeafR)}}
    [] Fam = "st2" -> {St(<<f, g>>) : f \in UNION {TagForms("A", t) : t \in {K("f64"), K("str"), K("mjp"), [k |-> "slice", e |-> K("mjp")]}},
                                      g \in UNION {{Fld("none", "B", "B", t), Fld("ren", "B", "A", t), Fld("omit", "B", "B", t)} :
                                                   t \in {K("i8"), K("iface"), [k |-> "ptr", e |-> K("mtp")], [k |-> "map", key |-> "txt", e |-> K("int")]}}}
    \* the sorted-key iteration at scale: insertion sort up to 11 keys, radix quicksort beyond, heapsort when the depth budget is used up
    \* by shared prefixes
    \* every key kind has its own key renderer (and two paths: sorted and unsorted): keys with the top bit of the width set
    \* programs reached through calls, not inlined: structs nested five deep; and the comma logic of structs whose fields are omitted
    [] Fam = "deepst" -> {Deep(5, t) : t \in {K("f64"), K("str"), K("iface"), K("mjp"), [k |-> "slice", e |-> K("int")], [k |-> "ptr", e |-> K("f32")], [k |-> "map", key |-> "str", e |-> K("f64")]}}
    [] Fam = "st3" -> {St(<<Fld(ta, "A", "A", K("int")), Fld(tb, "B", "B", K("str")), Fld(tc, "C", "C", [k |-> "slice", e |-> K("int")])>>) : ta \in {"omit", "none"}, tb \in {"omit", "omitstr"}, tc \in {"omit", "none", "dash"}}
    [] Fam = "mapkeys" -> {[k |-> "map", key |-> kk, e |-> K("int")] : kk \in {"str", "txt"} \cup IntKinds \cup UintKinds}
    [] Fam = "rec" -> {[k |-> "rec", d |-> 2], [k |-> "ptr", e |-> [k |-> "rec", d |-> 2]], [k |-> "slice", e |-> [k |-> "rec", d |-> 1]],
                      [k |-> "map", key |-> "str", e |-> [k |-> "ptr", e |-> [k |-> "rec", d |-> 1]]], St(<<Fld("omit", "A", "A", [k |-> "rec", d |-> 1])>>),
                      K("iface")}
    [] Fam = "bigmap" -> {[k |-> "map", key |-> kk, e |-> K("int")] : kk \in {"str", "i64", "txt"}} \cup {St(<<Fld("none", "A", "A", [k |-> "map", key |-> "str", e |-> K("int")])>>)}
    [] Fam = "emb" -> {St(<<Fld("emb", "E", "E", e), g>>) : e \in {EmbA, EmbM, [k |-> "ptr", e |-> EmbA], [k |-> "ptr", e |-> EmbM]},
                                                       g \in {Fld("none", "A", "A", K("str")), Fld("none", "C", "C", K("int")), Fld("ren", "B", "b", K("mtp"))}}
                      \* the same struct embedded twice at one depth (by value and / or by pointer): its fields are ambiguous and vanish
                      \cup {St(<<Fld("emb", "E", "E", e), Fld("emb", "F", "F", e2)>>) : e \in {EmbA, [k |-> "ptr", e |-> EmbA]},
                                                                                     e2 \in {EmbA, [k |-> "ptr", e |-> EmbA], EmbM}}

TypeSeq == SetToSeq(Types)
MyTypes == {TypeSeq[i] : i \in {x \in 1..Len(TypeSeq) : x % NParts = Part}}

\* ---- value classes per type ----
Num(k, c) == [g |-> "n", as |-> k, c |-> c]
Str(c) == [g |-> "s", c |-> c]
BigMaps == {[g |-> "bm", n |-> n, p |-> p] : n \in {2, 11, 12, 13, 16, 17, 31, 32, 33, 64, 100, 257}, p \in {0, 1, 3, 8, 10, 12}}
RECURSIVE Vals(_, _)
KeysFor(kk) == CASE kk = "u8" -> <<"9", "200", "12">> [] kk = "u16" -> <<"9", "40000", "12">> [] kk = "u32" -> <<"9", "3000000000", "12">>
                  [] kk \in {"u64", "uint"} -> <<"9", "9223372036854775808", "12">> [] kk = "i8" -> <<"9", "-1", "12">> [] kk = "i16" -> <<"9", "-129", "12">>
                  [] kk = "i32" -> <<"9", "-40000", "12">> [] kk \in {"i64", "int"} -> <<"9", "-9223372036854775808", "12">> [] OTHER -> <<"x", "k", "a">>
Vals(t, depth) ==
  CASE Fam = "bigmap" /\ t.k = "map" -> BigMaps
    [] Fam = "mapkeys" /\ t.k = "map" -> LET ks == KeysFor(t.key) IN {[g |-> "m", m |-> {[k |-> ks[2], v |-> Num("int", "p7")]}],
                                                                     [g |-> "m", m |-> {[k |-> ks[i], v |-> Num("int", "p7")] : i \in 1..3}]}
    [] t.k = "rec" -> IF t.d = 0 THEN {[g |-> "st", f |-> <<Num("int", c), Nil, Nil>>] : c \in {"z", "p7"}}
                      ELSE LET sub == Vals([k |-> "rec", d |-> t.d - 1], depth + 1)
                           IN {[g |-> "st", f |-> <<Num("int", c), nx, kd>>] : c \in {"z", "p7"}, nx \in {Nil} \cup {[g |-> "p", e |-> v] : v \in sub},
                                                                           kd \in {Nil, [g |-> "a", e |-> <<>>]} \cup {[g |-> "a", e |-> <<v>>] : v \in sub}}
    [] Fam = "rec" /\ t.k = "iface" -> {[g |-> "i", t |-> d, v |-> v] : d \in {[k |-> "rec", d |-> 1], [k |-> "ptr", e |-> [k |-> "rec", d |-> 1]]}, v \in {}} \cup
                                      UNION {{[g |-> "i", t |-> d, v |-> v] : v \in Vals(d, 1)} : d \in {[k |-> "rec", d |-> 1], [k |-> "ptr", e |-> [k |-> "rec", d |-> 1]]}}
    [] t.k = "bool" -> {[g |-> "b", b |-> TRUE], [g |-> "b", b |-> FALSE]}
    [] t.k \in IntKinds -> {Num(t.k, c) : c \in {"z", "p7", "n3"} \cup (IF Bits(t.k) >= 16 /\ depth = 0 THEN {"n200", "p300"} ELSE {}) \cup (IF Bits(t.k) = 64 /\ depth = 0 THEN {"n2_63", "p5e9"} ELSE {})}
    \* values with the top bit of the width set (sign vs zero extension): 200 (u8), 40000 (u16), 3000000000 (u32), 2^63 (u64)
    [] t.k \in UintKinds -> {Num(t.k, c) : c \in {"z", "p7", "p200"} \cup (IF Bits(t.k) >= 16 THEN {"p40000"} ELSE {}) \cup (IF Bits(t.k) >= 32 /\ depth = 0 THEN {"p3e9"} ELSE {})
                                             \cup (IF Bits(t.k) = 64 /\ depth = 0 THEN {"p2_63"} ELSE {})}
    [] t.k \in FloatKinds -> {Num(t.k, c) : c \in {"z", "nz", "f1_5"} \cup (IF depth = 0 THEN {"p7", "f1e21", "f1e20", "f1em6", "f1em7", "nan", "inf", "ninf"} ELSE {"nan"})}
    [] t.k = "str" -> {Str(c) : c \in {"se", "sx"} \cup (IF depth = 0 THEN {"sesc", "shtml", "sls", "sbad", "s12", "slong"} ELSE {"shtml"})}
    [] t.k = "num" -> {Num("num", c) : c \in {"se", "p7", "f1_5", "sx"} \cup (IF depth = 0 THEN {"big", "nz", "s12"} ELSE {})}
    [] t.k = "raw" -> {Nil, [g |-> "raw", d |-> [j |-> "a", e |-> <<[j |-> "n", c |-> "p7"]>>]], [g |-> "raw", d |-> [j |-> "x", c |-> "xtru"]]}
                      \cup (IF depth = 0 THEN {[g |-> "raw", d |-> [j |-> "none"]], [g |-> "raw", d |-> [j |-> "s", c |-> "shtml"]]} ELSE {})
    [] t.k = "bytes" -> {Nil, [g |-> "by", c |-> "se"], [g |-> "by", c |-> "sb64"]} \cup (IF depth = 0 THEN {[g |-> "by", c |-> "sb1"], [g |-> "by", c |-> "sb3"]} ELSE {})
    [] t.k \in MarshalerKinds -> {[g |-> "z", c |-> "sx"]} \cup (IF depth = 0 /\ t.k \in {"mjv", "mtv", "mtp"} THEN {[g |-> "z", c |-> "shtml"]} ELSE {})
    [] t.k = "iface" -> {Nil} \cup UNION {{[g |-> "i", t |-> d, v |-> v] : v \in Vals(d, 2)} : d \in (IF depth = 0 THEN Dyn ELSE {K("int"), K("mjp"), K("str")})}
    [] t.k = "ptr" -> {Nil} \cup {[g |-> "p", e |-> v] : v \in Vals(t.e, depth + 1)}
    [] t.k = "slice" -> IF t.e.k = "u8" THEN {Nil, [g |-> "by", c |-> "se"], [g |-> "by", c |-> "sb64"]}
                        ELSE {Nil, [g |-> "a", e |-> <<>>]} \cup {[g |-> "a", e |-> <<v>>] : v \in Vals(t.e, depth + 1)}
                             \cup {[g |-> "a", e |-> <<v, w>>] : v \in Vals(t.e, 2), w \in Vals(t.e, 2)}
    [] t.k = "arr" -> IF t.n = 0 THEN {[g |-> "a", e |-> <<>>]}
                      ELSE IF t.n = 1 THEN {[g |-> "a", e |-> <<v>>] : v \in Vals(t.e, depth + 1)}
                      ELSE {[g |-> "a", e |-> <<v, w>>] : v \in Vals(t.e, 2), w \in Vals(t.e, 2)}
    [] t.k = "map" -> LET ks == IF t.key \in {"str", "txt"} THEN <<"x", "k", "a">> ELSE IF t.key = "u8" THEN <<"9", "12", "1">> ELSE <<"9", "-1", "12">>
                      IN {Nil, [g |-> "m", m |-> {}]} \cup {[g |-> "m", m |-> {[k |-> ks[1], v |-> v]}] : v \in Vals(t.e, depth + 1)}
                         \cup {[g |-> "m", m |-> {[k |-> ks[1], v |-> v], [k |-> ks[2], v |-> w], [k |-> ks[3], v |-> v]}] : v \in Vals(t.e, 2), w \in Vals(t.e, 2)}
    [] t.k = "st" -> IF Len(t.f) = 0 THEN {[g |-> "st", f |-> <<>>]}
                     ELSE IF Len(t.f) = 3 THEN {[g |-> "st", f |-> <<u, v, w>>] : u \in Vals(t.f[1].t, 2), v \in Vals(t.f[2].t, 2), w \in Vals(t.f[3].t, 2)}
                     ELSE IF Len(t.f) = 1 THEN {[g |-> "st", f |-> <<v>>] : v \in Vals(t.f[1].t, depth)}
                     ELSE {[g |-> "st", f |-> <<v, w>>] : v \in Vals(t.f[1].t, depth + 1), w \in Vals(t.f[2].t, depth + 1)}

\* ---- what must survive a round trip (C04) ----
RECURSIVE Plain(_)
\* types whose values JSON carries faithfully into the same type (no interface, marshaler-without-unmarshaler)
Plain(t) == CASE t.k \in MarshalerKinds \cup {"iface"} -> FALSE
              [] t.k = "rec" -> TRUE
              [] t.k \in {"ptr", "slice", "arr", "map"} -> Plain(t.e)
              [] t.k = "st" -> \A i \in 1..Len(t.f) : Plain(t.f[i].t)
              [] OTHER -> TRUE
RECURSIVE Same(_, _, _)
\* equality up to what JSON cannot carry: nil vs empty containers, pointers to nil, the sign of an omitted zero, invalid UTF-8, the
\* spelling of json.Number's empty value
Same(t, a, b) ==
  CASE t.k = "rec" -> Same(Unfold(t), a, b)
    [] t.k = "ptr" -> IF a = Nil \/ b = Nil THEN (a = Nil \/ Same(t.e, a.e, Zero(t.e))) /\ (b = Nil \/ Same(t.e, Zero(t.e), b.e)) ELSE Same(t.e, a.e, b.e)
    [] t.k \in FloatKinds -> a = b \/ {a.c, b.c} \subseteq {"z", "nz"} \/ FloatBad(b.c)    \* NaN / Inf encoded as null on request
    [] t.k = "str" -> a = b \/ {a.c, b.c} \subseteq {"sbad", "sbadfix"}
    [] t.k = "num" -> a = b \/ {a.c, b.c} \subseteq {"se", "z"} \/ {a.c, b.c} \subseteq {"s12", "p12"}
    [] t.k = "bytes" -> a = b \/ ({a, b} \subseteq {Nil, [g |-> "by", c |-> "se"], [g |-> "a", e |-> <<>>]})
    [] t.k = "raw" -> a = b \/ (b = Nil /\ a = [g |-> "raw", d |-> [j |-> "null"]]) \/ (a = Nil /\ b = [g |-> "raw", d |-> [j |-> "none"]])   \* a nil RawMessage is written as null and read back as the text null
    [] t.k = "slice" -> IF t.e.k = "u8" THEN a = b \/ ({a, b} \subseteq {Nil, [g |-> "by", c |-> "se"], [g |-> "a", e |-> <<>>]})
                        ELSE LET ea == IF a = Nil THEN <<>> ELSE a.e
                                 eb == IF b = Nil THEN <<>> ELSE b.e
                             IN Len(ea) = Len(eb) /\ \A i \in 1..Len(ea) : Same(t.e, ea[i], eb[i])
    [] t.k = "arr" -> \A i \in 1..t.n : Same(t.e, a.e[i], b.e[i])
    [] t.k = "map" -> LET ma == IF a = Nil THEN {} ELSE a.m
                          mb == IF b = Nil THEN {} ELSE b.m
                      IN {x.k : x \in ma} = {x.k : x \in mb} /\ \A x \in ma : \A y \in mb : x.k = y.k => Same(t.e, x.v, y.v)
    \* only the fields encoding/json sees (not "-", not hidden by a dominant or conflicting field); a nil embedded pointer counts as its zero struct
    [] t.k = "st" -> LET fs == Fields(t) IN \A i \in 1..Len(fs) : Same(fs[i].t, FieldGet(t, a, fs[i].path), FieldGet(t, b, fs[i].path))
    [] OTHER -> a = b

DecOpts == [num |-> "none", cs |-> FALSE, duf |-> FALSE, vs |-> TRUE, ue |-> FALSE]
Decoded(t, e) == IF e.err THEN [hard |-> FALSE, soft |-> FALSE, v |-> [g |-> "none"]] ELSE Dec(t, e.d, Zero(t), DecOpts)

OptsFor == {StdEncOpts} \cup (IF NOpts = 0 THEN {} ELSE RandomSubset(NOpts, EncOpts))

Init == /\ T \in MyTypes
        /\ V \in Vals(T, 0)
        /\ top \in {"val", "ptr"}
        /\ o \in OptsFor
        /\ E = Marshal(T, V, top, o)
        /\ RV = IF Plain(T) /\ ~o.novalid /\ Fam # "bigmap" THEN Decoded(T, E) ELSE [hard |-> FALSE, soft |-> FALSE, v |-> [g |-> "none"]]
Next == UNCHANGED vars
Spec == Init /\ [][Next]_vars

\* C04 on the specification: a successful Marshal of a plain type decodes back to the original
RoundTrip == (Plain(T) /\ ~E.err /\ ~o.novalid /\ Fam # "bigmap") => (~RV.hard /\ ~RV.soft /\ Same(T, RV.v, V))
\* unrepresentable values are errors, never text
Unrepresentable == (T.k \in FloatKinds /\ FloatBad(V.c) /\ ~o.nanull) => E.err
=============================================================================
