------------------------------- MODULE GenLex -------------------------------
(***************************************************************************)
(* Generator / model-checking wrapper for JsonLex (property C02, and the   *)
(* input sets of C05, C07, C13).                                           *)
(*                                                                         *)
(* The state is a byte-class string s together with the strict and the     *)
(* structural machine after reading it.  A string is extended only while   *)
(* it is still a viable prefix for the structural machine, so the reachable*)
(* states are exactly: every viable prefix (= every truncation of every    *)
(* document) and every minimal rejected string (a viable prefix plus one   *)
(* offending byte).  Each state is one test input; v is the verdict the    *)
(* property requires for it:                                               *)
(*    "accept"  encoding/json.Valid accepts it      => nobody may reject   *)
(*    "reject"  structurally malformed              => nobody may accept   *)
(*    "either"  differs only inside string literals => leniency allowed    *)
(*    "deep"    beyond the nesting limit of the model                      *)
(***************************************************************************)
EXTENDS JsonLex

CONSTANTS Alphabet,   \* byte classes used by this configuration
          MaxLen,     \* maximal length of s
          StrCap,     \* maximal number of bytes inside one string literal (excl. the opening quote)
          Prefix,     \* fixed beginning of every generated string (e.g. `{"x":` puts the tail in a skipped position)
          Recover     \* TRUE: a string may contain ONE byte the structural machine rejects and go on as if it were not there
                      \*       (a valid document with one offending byte inserted anywhere: malformed whatever follows)

VARIABLES s, m, ms, sc, v, ins, insexp, insdepth,
          gaps   \* positions (number of bytes before them) where blanks may be inserted without changing the token
                 \* sequence: between tokens, or after a complete number that the next byte does not continue
vars == <<s, m, ms, sc, v, ins, insexp, insdepth, gaps>>

Verdict(a, b) ==
  IF a.st = "deep" \/ b.st = "deep" THEN "deep"
  ELSE IF AcceptsAtEnd(a) THEN "accept"
  ELSE IF ~AcceptsAtEnd(b) THEN "reject"
  ELSE "either"

NumChars == {"d0", "d1", "dt", "le", "ue", "pl", "mi"}
GapBefore(mach, c) == mach.st = "run" /\ (mach.lx = "" \/ (NumDone(mach.lx) /\ c \notin NumChars))

Init == /\ s = Prefix /\ m = Run(Prefix, TRUE) /\ ms = RunFrom(Start, Prefix, 1, FALSE, FALSE) /\ sc = 0
        /\ v = Verdict(m, ms) /\ gaps = {} /\ ins = 0 /\ insexp = "" /\ insdepth = 0

Next ==
  /\ Len(s) < Len(Prefix) + MaxLen
  /\ ms.st = "run"
  /\ \E c \in Alphabet :
       /\ (InStr(ms.lx) /\ sc >= StrCap) => c = "qt"
       /\ s'  = Append(s, c)
       /\ \/ /\ m'  = Delta(m, c, TRUE, FALSE)
             /\ ms' = Delta(ms, c, FALSE, FALSE)
             /\ sc' = IF InStr(ms.lx) THEN sc + 1 ELSE 0
             /\ v'  = IF ins = 1 THEN "reject" ELSE Verdict(m', ms')
             /\ gaps' = IF GapBefore(ms, c) /\ GapBefore(m, c) THEN gaps \cup {Len(s)} ELSE gaps
             /\ UNCHANGED <<ins, insexp, insdepth>>
          \/ \* the offending byte is there, the machines go on from where they were: no prefix of the result that
             \* includes it is viable, so every such string is malformed
             /\ Recover /\ ins = 0 /\ Delta(ms, c, FALSE, FALSE).st = "err" /\ ~InStr(ms.lx)
             /\ ins' = 1 /\ v' = "reject" /\ insdepth' = Len(ms.stk) /\ insexp' = Delta(ms, c, FALSE, FALSE).exp     \* as in the error state of the minimal rejected string
             /\ UNCHANGED <<m, ms, sc, gaps>>

Spec == Init /\ [][Next]_vars

\* ---- what TLC checks on the specification itself ------------------------
TypeOK == /\ m.st \in {"run","err","deep"} /\ ms.st \in {"run","err","deep"}
          /\ Len(m.stk) <= MaxDepth /\ Len(ms.stk) <= MaxDepth
\* the pushdown automaton computes exactly the declarative grammar
PdaIsGrammar == ins = 1 \/ (IF m.st = "deep" THEN "deep" ELSE IF AcceptsAtEnd(m) THEN "valid" ELSE "invalid") = Grammar(s)
\* strict acceptance implies structural acceptance; strict viability implies structural viability
StrictWithinStructural == /\ (AcceptsAtEnd(m) => AcceptsAtEnd(ms))
                          /\ (m.st = "run" => ms.st = "run")
                          /\ (m.st = "run" => (m.stk = ms.stk /\ m.exp = ms.exp))
\* the incremental machines equal a run from scratch (Delta is a pure fold)
FoldOK == ins = 1 \/ (m = Run(s, TRUE) /\ ms = RunFrom(Start, s, 1, FALSE, FALSE))
\* a document that opens with a container or a string and does not end in a blank has no proper prefix that is itself a
\* document: every truncation of it is malformed.  The typed prefix universe (C02 / C05: every prefix of the binding
\* universe's documents decoded into a typed destination) takes "must be rejected" from this.
\* a string with an inserted offending byte is not a document
InsertedIsInvalid == ins = 1 => Grammar(s) # "valid"
PrefixFree == (ins = 0 /\ Len(s) > 0 /\ AcceptsAtEnd(ms) /\ s[1] \in {"lb", "ls", "qt"} /\ ~IsBlank(s[Len(s)]))
                 => \A k \in 1..(Len(s) - 1) : ~AcceptsAtEnd(RunFrom(Start, SubSeq(s, 1, k), 1, FALSE, FALSE))
\* overflow of the nesting limit is a state of its own, never a wrap-around
DepthIsError == (m.st = "deep") => Len(m.stk) = MaxDepth
=============================================================================
