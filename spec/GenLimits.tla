----------------------------- MODULE GenLimits -----------------------------
(***************************************************************************)
(* Generator for C07: (entry point, nesting shape, depth, closed/truncated)  *)
(* with the outcome class the bounded-stack machine requires.  TLC checks    *)
(* the closed form against the machine for small bounds (config Limits.cfg). *)
(***************************************************************************)
EXTENDS Limits, TLC

CONSTANTS Mode,      \* "check": machine vs closed form on small instances ; "gen": the case universe
          Depths     \* set of nesting depths of the universe
VARIABLES api, shape, depth, closed, expect
vars == <<api, shape, depth, closed, expect>>

DecodeAPIs == {"unmarshal_iface", "unmarshal_std_iface", "unmarshal_skip", "unmarshal_raw", "unmarshal_typed", "valid", "get", "get_path",
               "node_load", "node_interface", "searcher_novalidate_interface", "node_marshal", "preorder", "stream"}
EncodeAPIs == {"marshal_deep", "marshal_cycle"}

\* the nesting bound each entry point enforces (as built); 0 = the entry point does not look inside the value (lazy), so any depth is a value
\* when it is closed; "none" is not allowed: every traversal must have a bound
Bound(a) == CASE a \in {"unmarshal_iface", "unmarshal_std_iface", "unmarshal_skip", "unmarshal_raw", "valid", "node_load", "node_interface",
                        "node_marshal", "preorder", "stream", "searcher_novalidate_interface", "get", "get_path"} -> 4096
              [] a = "unmarshal_typed" -> 4096
              [] a = "marshal_deep" -> 4096
              [] OTHER -> 4096

Expect(a, sh, d, c) ==
  IF a = "marshal_cycle" THEN "error"
  ELSE IF a = "marshal_deep" THEN "any"
  ELSE IF ~c /\ a = "get_path" THEN "any"     \* a lazy lookup stops at the addressed value and never sees that the document is cut short
  ELSE IF ~c THEN "error"
  \* typed destinations, the innermost object holds a value of the wrong type before two known fields: a (well-formed) error
  ELSE IF sh \in {"objbad", "objdyn"} THEN (IF d <= 4000 THEN "error" ELSE "any")
  \* recursion through a slice takes two stack slots per level
  ELSE IF sh = "tree" THEN (IF d <= 2000 THEN "value" ELSE "any")
  ELSE IF d <= 4000 THEN "value"          \* well inside every bound
  ELSE "any"                              \* at and beyond the bound: value or error, never a crash (exact bounds differ per entry point)

Init == IF Mode = "check"
        THEN /\ api = "machine" /\ shape = "arr"
             /\ depth \in 0..6 /\ closed \in BOOLEAN
             /\ expect = Outcome(Nest(depth, closed), 4)
        ELSE /\ api \in DecodeAPIs \cup EncodeAPIs
             \* "...sib": the root container has one more member after the deep chain (what is touched after returning from the bound)
             \* typed: the plain chain; "objskip" / "objbad": the innermost object has a skipped value (unknown key / wrong type) and then
             \* two known fields - what the decoder touches right at the bound; "tree": recursion through a slice;
             \* "objdyn": the outermost object starts with a value of the wrong type and a member for a field of a non-empty interface
             \* type holding a non-pointer value (both errors, both skipped: the recovery paths of the two sites in a row), then the chain
             /\ shape \in (IF api = "unmarshal_typed" THEN {"obj", "objskip", "objbad", "objdyn", "tree"}
                           ELSE IF api = "marshal_cycle" THEN {"obj"}
                           ELSE IF api \in EncodeAPIs THEN {"arr", "obj", "mixed"}
                           ELSE {"arr", "obj", "mixed", "arrsib", "objsib", "mixedsib"})
             /\ depth \in (IF api = "marshal_cycle" THEN {1} ELSE Depths)
             /\ closed \in (IF api \in EncodeAPIs THEN {TRUE} ELSE BOOLEAN)
             /\ expect = Expect(api, shape, depth, closed)
Next == UNCHANGED vars
Spec == Init /\ [][Next]_vars

\* the closed form is the machine
ClosedForm == Mode = "check" => expect = Verdict(depth, closed, 4)
=============================================================================
