------------------------------- MODULE GenNum -------------------------------
(***************************************************************************)
(* Generator for property C19: every string over the number alphabet up to *)
(* the bound (grammar coverage: literals and near-literals) with the rule   *)
(* each destination kind must apply to it.                                  *)
(***************************************************************************)
EXTENDS Num

CONSTANTS MaxLen,
          Fam        \* "shapes": literal strings ; "mags": integer magnitudes sign * (2^k + delta) with their range verdicts
VARIABLES s, e
vars == <<s, e>>

Expect(x) == [lit |-> IsLiteral(x), int |-> IsIntLit(x), neg |-> Negative(x), zero |-> IsZeroLit(x),
              rules |-> [d \in Dests |-> Rule(x, d)]]

MagCase(m) == [neg |-> m.neg, k |-> m.k, delta |-> m.delta,
                inrange |-> [d \in IntDests \cup UintDests |-> InRange(m.neg, m.k, m.delta, d)]]

Init == IF Fam = "shapes" THEN s = <<>> /\ e = Expect(s)
        ELSE s = <<>> /\ e \in {MagCase(m) : m \in Magnitudes}
Next == Fam = "shapes" /\ Len(s) < MaxLen /\ \E c \in NumAlphabet : s' = Append(s, c) /\ e' = Expect(s')
Spec == Init /\ [][Next]_vars

\* the literal test of this module is the number DFA of the pushdown validator (one grammar, two readings)
SameAsValidator == Fam = "shapes" => (IsLiteral(s) = Accepts(s, TRUE))
Laws == Monotone /\ Extremes
RulesTotal == Fam = "shapes" => \A d \in Dests : e.rules[d] \in {"syntax", "mismatch", "range", "round", "text", "range_else_round"}
=============================================================================
