------------------------------ MODULE GenSearch ------------------------------
(***************************************************************************)
(* Generator for property C14: (document, path) pairs with the lookup      *)
(* result of both flavours and the views of the located value, plus the    *)
(* Preorder events of every document.                                      *)
(***************************************************************************)
EXTENDS Search

CONSTANTS MaxPath, DocSet

N1 == Num(1)  N2 == Num(2)  N3 == Num(3)
DocsA == {
  Arr(<<>>), Arr(<<N1, N2, N3>>), Arr(<<Arr(<<N1, Str("x")>>), Obj(<<Pair("a", N2)>>), Null>>),
  Obj(<<>>), Obj(<<Pair("a", N1), Pair("b", Str("y"))>>),
  Obj(<<Pair("a", Obj(<<Pair("b", Arr(<<N1, N2>>)), Pair("a", Null)>>)), Pair("b", Arr(<<Obj(<<Pair("a", N3)>>), N2>>))>>),
  Obj(<<Pair("a", N1), Pair("a", N2)>>), Obj(<<Pair("b", Arr(<<N1>>)), Pair("a", Obj(<<Pair("a", N2), Pair("a", N3)>>)), Pair("b", N3)>>),
  Obj(<<Pair("", N1), Pair("z", Obj(<<Pair("", Str(""))>>))>>),
  Num(5), Str("x"), Null }
DocsB == {
  Arr(<<Arr(<<Arr(<<N1, N2>>), N3>>), Arr(<<>>), Obj(<<>>)>>),
  Obj(<<Pair("a", Arr(<<Obj(<<Pair("b", Obj(<<Pair("a", N1)>>))>>), Arr(<<N2, Arr(<<N3>>)>>)>>)), Pair("c", Str("a"))>>),
  Obj(<<Pair("c", N1), Pair("b", N2), Pair("a", N3), Pair("d", Null)>>),
  Arr(<<Str("x"), Str(""), N1, Null, Obj(<<Pair("a", Str("x"))>>)>>) }
\* literals that are neither integers, strings nor null: booleans and number texts with a fraction / an exponent
DocsC == {
  Obj(<<Pair("a", Lit("true")), Pair("b", Lit("1.5")), Pair("z", Arr(<<Lit("false"), Lit("1e3"), Lit("2.0"), Lit("-0.5"), N1>>))>>),
  Arr(<<Lit("true"), Lit("1.5"), Obj(<<Pair("a", Lit("false")), Pair("a", Lit("true")), Pair("b", Lit("1e3"))>>)>>),
  Lit("false"), Lit("1e3") }
Docs == IF DocSet = "small" THEN DocsA ELSE DocsA \cup DocsB \cup DocsC

Steps == {StepI(i) : i \in (0 - 1)..3} \cup {StepK(k) : k \in {"a", "b", "z", ""}}
RECURSIVE PathsUpTo(_)
PathsUpTo(n) == IF n = 0 THEN {<<>>} ELSE LET P == PathsUpTo(n - 1) IN P \cup {Append(p, st) : p \in P, st \in Steps}

VARIABLES doc, path, e
vars == <<doc, path, e>>

LRes(v, p, fl) == LET r == Lookup(v, p, fl) IN
                 IF r.st = "found" THEN [st |-> "found", views |-> Views(r.v)] ELSE [st |-> r.st, views |-> Views(Null)]

Init == /\ doc \in Docs /\ path \in PathsUpTo(MaxPath)
        /\ e = [get |-> LRes(doc, path, "get"), node |-> LRes(doc, path, "node"),
                events |-> IF path = <<>> THEN Events(doc) ELSE <<>>, text |-> Render(doc)]
Next == FALSE /\ UNCHANGED vars
Spec == Init /\ [][Next]_vars

\* ---- checked on the specification ----
\* the two flavours agree whenever no index step meets an object
Agree == (\A i \in 1..Len(path) : path[i].t = "k") => e.get = e.node
\* a prefix that fails makes the whole path fail the same way
Consistent == e.get.st = "found" => e.node.st = "found" /\ e.node.views = e.get.views
\* the empty path finds the document itself
Identity == path = <<>> => e.get.st = "found" /\ e.get.views.text = Render(doc)
\* events: as many as the tree has nodes, keys and brackets
EventCount == path = <<>> => Len(e.events) = Size(doc)
=============================================================================
