------------------------------- MODULE GenStr -------------------------------
(***************************************************************************)
(* Generator / model-checking wrapper for Str (property C20).              *)
(*   Fam = "quote"   : every content string s, with Quote(s) and           *)
(*                     HtmlEscape(Quote(s)); checked: Unquote(Quote(s)) = s *)
(*                     and HtmlEscape idempotent on its output             *)
(*   Fam = "unquote" : every string of literal tokens t, with Unquote(t)   *)
(*                     under both surrogate policies                       *)
(*   Fam = "utf8"    : every byte-class string b, with ValidUtf8(b) and    *)
(*                     Correct(b); checked: the scanner DFA accepts        *)
(*                     exactly the well-formed strings, Correct(b) is      *)
(*                     well-formed and leaves well-formed input unchanged  *)
(***************************************************************************)
EXTENDS Str

CONSTANTS Fam, MaxLen, Alphabet

VARIABLES s, e
vars == <<s, e>>

Expect(x) ==
  CASE Fam = "quote"   -> [lit |-> Quote(x), html |-> HtmlEscape(Quote(x))]
    [] Fam = "unquote" -> [rep |-> Unquote(x, TRUE), strict |-> Unquote(x, FALSE)]
    [] Fam = "utf8"    -> [valid |-> ValidUtf8(x), fixed |-> Correct(x)]

Init == s = <<>> /\ e = Expect(s)
\* tokens that are defined by reaching the end of the input can only come last
Final == {"e_trunc", "u_short"}
Next == /\ Len(s) < MaxLen
        /\ (s # <<>> => s[Len(s)] \notin Final)
        /\ \E c \in Alphabet : s' = Append(s, c) /\ e' = Expect(s')
Spec == Init /\ [][Next]_vars

RoundTrip == Fam = "quote" => (Unquote(Quote(s), TRUE).err = FALSE /\ Unquote(Quote(s), TRUE).out = s
                               /\ Unquote(Quote(s), FALSE).out = s)
HtmlIdem == Fam = "quote" => HtmlEscape(HtmlEscape(Quote(s))) = HtmlEscape(Quote(s))
\* unquoting never fails on what quoting can produce, and the strict policy only adds errors
StrictWithin == Fam = "unquote" => (~e.strict.err => (~e.rep.err /\ e.rep.out = e.strict.out))
DfaIsDef == Fam = "utf8" => (DfaValid(s) = ValidUtf8(s))
CorrectOK == Fam = "utf8" => LET fx == SelectSeq(e.fixed, LAMBDA x : x # "FFFD") IN
                                /\ ValidUtf8(fx)
                                /\ (e.valid => e.fixed = s)
                                /\ (e.valid <=> \A i \in 1..Len(e.fixed) : e.fixed[i] # "FFFD")
=============================================================================
