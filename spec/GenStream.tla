------------------------------ MODULE GenStream ------------------------------
(***************************************************************************)
(* Generator for property C17: every byte-class stream that is error-free  *)
(* up to its last byte (so: every sequence of values, every truncation of  *)
(* one, and every sequence followed by one offending byte), with the       *)
(* result Stream!Ref requires when the Reader ends with EOF (eeof) and     *)
(* when it ends with a fault (eflt).                                       *)
(***************************************************************************)
EXTENDS Stream

CONSTANTS Alphabet, MaxLen, StrCap

VARIABLES s, r, sc, eeof, eflt, dsteps
vars == <<s, r, sc, eeof, eflt, dsteps>>

Init == /\ s = <<>> /\ r = RStart /\ sc = 0
        /\ eeof = RefOf(r, 0, "EOF") /\ eflt = RefOf(r, 0, "FAULT") /\ dsteps = StepsOf(s, eeof)

Next ==
  /\ Len(s) < MaxLen
  /\ r.m.st = "run"
  /\ \E c \in Alphabet :
       /\ (InStr(r.m.lx) /\ sc >= StrCap) => c = "qt"
       /\ s' = Append(s, c)
       /\ r' = RStep(r, c, Len(s) + 1)
       /\ sc' = IF InStr(r.m.lx) THEN sc + 1 ELSE 0
       /\ eeof' = RefOf(r', Len(s'), "EOF")
       /\ eflt' = RefOf(r', Len(s'), "FAULT")
       /\ dsteps' = StepsOf(s', eeof')   \* what a positional decoder over the same bytes must report (module DecObj)

Spec == Init /\ [][Next]_vars

\* ---- checked on the specification itself ----
\* incremental run = run from scratch
FoldOK == r = RRun(s)
\* values are disjoint, ordered, non-empty slices of the stream
ValsOrdered == \A i \in 1..Len(r.vals) :
                 /\ 1 <= r.vals[i][1] /\ r.vals[i][1] <= r.vals[i][2] /\ r.vals[i][2] <= Len(s)
                 /\ (i > 1 => r.vals[i - 1][2] < r.vals[i][1])
\* every reported value is, on its own, a valid JSON document (single-document grammar of JsonLex)
ValsValid == \A i \in 1..Len(r.vals) : Grammar(Slice(s, r.vals[i])) = "valid"
\* the number of values equals the machine's own count
CountOK == Len(r.vals) = r.m.nv
\* a clean end of stream is only possible when nothing is pending
CleanEOF == ("EOF" \in eeof.term) => (Idle(r.m) \/ OpenScalar(r.m))
\* the stream with all values removed contains only blanks up to the point of the error / pending value
\* a clean end of stream = every value decoded and nothing but blanks behind the last one
CleanEnd == ("EOF" \in eeof.term) <=> dsteps.ct[dsteps.n + 1]
Terminals == eeof.term \subseteq {"EOF", "ERR"} /\ eflt.term \subseteq {"FAULT", "ERR"} /\ eeof.term # {} /\ eflt.term # {}
=============================================================================
