------------------------------- MODULE JsonLex -------------------------------
(***************************************************************************)
(* Byte-class pushdown validator for JSON texts.                           *)
(*                                                                         *)
(* A JSON text is a sequence of *byte classes* (short strings naming a set *)
(* of concrete bytes; the Go concretiser picks representatives).  Delta is *)
(* a pure step function over a machine record, shaped like sonic's         *)
(* native/scanning.h:fsm_exec_1 (frame stack + "what is expected next" +   *)
(* the string / number / literal sub-scanners flattened to byte level), so *)
(* that the generator, the stream specification and the trace              *)
(* specifications all share one definition of "well-formed".               *)
(*                                                                         *)
(* Two string modes bracket what the properties allow:                     *)
(*   strict      = encoding/json.Valid  (escapes validated, raw control    *)
(*                 characters rejected, UTF-8 *not* checked: json.Valid    *)
(*                 does not check it either)                               *)
(*   structural  = the loosest reading of "only the contents of string     *)
(*                 literals may be treated more leniently": a string runs  *)
(*                 to the next unescaped quote, a backslash escapes        *)
(*                 whatever byte follows.                                  *)
(* Strict acceptance implies structural acceptance (checked by TLC).       *)
(***************************************************************************)
EXTENDS Naturals, Sequences, FiniteSets, TLC

CONSTANT MaxDepth      \* nesting limit of the model (the code's constant is 4096)

\* ---- byte classes -------------------------------------------------------
\* structural bytes
LB == "lb"  RB == "rb"  LS == "ls"  RS == "rs"  CM == "cm"  CL == "cl"  QT == "qt"
BS == "bs"  SL == "sl"
\* number bytes
D0 == "d0"  D1 == "d1"  MI == "mi"  PL == "pl"  DT == "dt"  LE == "le"  UE == "ue"
\* letters of true/false/null and of the short escapes
\*   t r u (le) f a l s n b ; "hx" = remaining hex letters (c d A-D F), "x" = any other printable
\* blanks and oddities
\*   sp = space, tb = tab/CR/LF (blank between tokens, raw control character inside a string),
\*   ctl = 0x01..0x1f without tab/CR/LF, nul = 0x00, hi = byte >= 0x80

AllClasses == { "lb","rb","ls","rs","cm","cl","qt","bs","sl",
                "d0","d1","mi","pl","dt","le","ue",
                "t","r","u","f","a","l","s","n","b","hx","x",
                "sp","tb","ctl","nul","hi" }

IsBlank(c)  == c \in {"sp","tb"}
IsHex(c)    == c \in {"d0","d1","a","b","f","le","ue","hx"}
IsDigit(c)  == c \in {"d0","d1"}
EscLetter(c)== c \in {"qt","bs","sl","b","f","n","r","t"}      \* \" \\ \/ \b \f \n \r \t
IsCtl(c)    == c \in {"ctl","nul","tb"}   \* raw control characters inside a string literal

\* ---- machine ------------------------------------------------------------
\* st  : "run" | "err" | "deep" (nesting limit exceeded: neither bound applies)
\* stk : sequence of "A" / "O" (open containers)
\* exp : what the grammar expects between tokens:
\*       "val" | "voc" (value or close, after '[') | "koc" (key or close, after '{') |
\*       "key" (after ',' in an object) | "col" | "sep" (',' or close) | "done" (top-level value complete)
\* lx  : lexical sub-state, "" between tokens;
\*       strings: "str" "esc" "u1".."u4"; numbers: "mi" "zero" "int" "dot" "frac" "e" "es" "exp";
\*       literals: "t1" "t2" "t3" "f1" "f2" "f3" "f4" "n1" "n2" "n3"
\* key : the string being scanned is an object key
\* nv  : number of complete top-level values so far (stream mode)

Start == [st |-> "run", stk |-> <<>>, exp |-> "val", lx |-> "", key |-> FALSE, nv |-> 0]

Err(m)  == [m EXCEPT !.st = "err"]
Deep(m) == [m EXCEPT !.st = "deep"]

NumDone(lx) == lx \in {"zero","int","frac","exp"}
InNum(lx)   == lx \in {"mi","zero","int","dot","frac","e","es","exp"}
InStr(lx)   == lx \in {"str","esc","u1","u2","u3","u4"}
InLit(lx)   == lx \in {"t1","t2","t3","f1","f2","f3","f4","n1","n2","n3"}

\* a value has just been completed
AfterValue(m) ==
  IF m.stk = <<>> THEN [m EXCEPT !.lx = "", !.exp = "done", !.nv = m.nv + 1]
                  ELSE [m EXCEPT !.lx = "", !.exp = "sep"]

Top(m) == m.stk[Len(m.stk)]
Pop(m) == [m EXCEPT !.stk = SubSeq(m.stk, 1, Len(m.stk) - 1)]

\* byte c arrives between tokens (m.lx = "").  stream = TRUE: after a complete top-level value a
\* further value may start (concatenated values, encoding/json.Decoder semantics).
Dispatch(m, c, stream) ==
  IF IsBlank(c) THEN m
  ELSE IF m.exp = "done" /\ ~stream THEN Err(m)
  ELSE LET e == IF m.exp = "done" THEN "val" ELSE m.exp IN
  CASE e \in {"val","voc"} ->
         IF c = "rs" /\ e = "voc" THEN AfterValue(Pop(m))
         ELSE IF c = "ls" THEN (IF Len(m.stk) >= MaxDepth THEN Deep(m)
                                ELSE [m EXCEPT !.stk = Append(m.stk, "A"), !.exp = "voc"])
         ELSE IF c = "lb" THEN (IF Len(m.stk) >= MaxDepth THEN Deep(m)
                                ELSE [m EXCEPT !.stk = Append(m.stk, "O"), !.exp = "koc"])
         ELSE IF c = "qt" THEN [m EXCEPT !.lx = "str", !.key = FALSE, !.exp = e]
         ELSE IF c = "mi" THEN [m EXCEPT !.lx = "mi", !.exp = e]
         ELSE IF c = "d0" THEN [m EXCEPT !.lx = "zero", !.exp = e]
         ELSE IF c = "d1" THEN [m EXCEPT !.lx = "int", !.exp = e]
         ELSE IF c = "t"  THEN [m EXCEPT !.lx = "t1", !.exp = e]
         ELSE IF c = "f"  THEN [m EXCEPT !.lx = "f1", !.exp = e]
         ELSE IF c = "n"  THEN [m EXCEPT !.lx = "n1", !.exp = e]
         ELSE Err(m)
    [] e \in {"koc","key"} ->
         IF c = "rb" /\ e = "koc" THEN AfterValue(Pop(m))
         ELSE IF c = "qt" THEN [m EXCEPT !.lx = "str", !.key = TRUE]
         ELSE Err(m)
    [] e = "col" -> IF c = "cl" THEN [m EXCEPT !.exp = "val"] ELSE Err(m)
    [] e = "sep" ->
         IF c = "cm" THEN [m EXCEPT !.exp = IF Top(m) = "A" THEN "val" ELSE "key"]
         ELSE IF c = "rs" /\ Top(m) = "A" THEN AfterValue(Pop(m))
         ELSE IF c = "rb" /\ Top(m) = "O" THEN AfterValue(Pop(m))
         ELSE Err(m)
    [] OTHER -> Err(m)

EndString(m) == IF m.key THEN [m EXCEPT !.lx = "", !.exp = "col", !.key = FALSE] ELSE AfterValue(m)

StrStep(m, c, strict) ==
  CASE m.lx = "str" ->
         IF c = "qt" THEN EndString(m)
         ELSE IF c = "bs" THEN [m EXCEPT !.lx = "esc"]
         ELSE IF strict /\ IsCtl(c) THEN Err(m)
         ELSE m
    [] m.lx = "esc" ->
         IF ~strict THEN [m EXCEPT !.lx = "str"]
         ELSE IF EscLetter(c) THEN [m EXCEPT !.lx = "str"]
         ELSE IF c = "u" THEN [m EXCEPT !.lx = "u1"]
         ELSE Err(m)
    [] m.lx = "u1" -> IF IsHex(c) THEN [m EXCEPT !.lx = "u2"] ELSE Err(m)
    [] m.lx = "u2" -> IF IsHex(c) THEN [m EXCEPT !.lx = "u3"] ELSE Err(m)
    [] m.lx = "u3" -> IF IsHex(c) THEN [m EXCEPT !.lx = "u4"] ELSE Err(m)
    [] m.lx = "u4" -> IF IsHex(c) THEN [m EXCEPT !.lx = "str"] ELSE Err(m)

\* number DFA of RFC 8259:  -? (0 | [1-9][0-9]*) (. [0-9]+)? ([eE] [+-]? [0-9]+)?
\* returns the next lexical state, or "" when c does not continue the number
NumNext(lx, c) ==
  CASE lx = "mi"   -> IF c = "d0" THEN "zero" ELSE IF c = "d1" THEN "int" ELSE ""
    [] lx = "zero" -> IF c = "dt" THEN "dot" ELSE IF c \in {"le","ue"} THEN "e" ELSE ""
    [] lx = "int"  -> IF IsDigit(c) THEN "int" ELSE IF c = "dt" THEN "dot" ELSE IF c \in {"le","ue"} THEN "e" ELSE ""
    [] lx = "dot"  -> IF IsDigit(c) THEN "frac" ELSE ""
    [] lx = "frac" -> IF IsDigit(c) THEN "frac" ELSE IF c \in {"le","ue"} THEN "e" ELSE ""
    [] lx = "e"    -> IF IsDigit(c) THEN "exp" ELSE IF c \in {"pl","mi"} THEN "es" ELSE ""
    [] lx = "es"   -> IF IsDigit(c) THEN "exp" ELSE ""
    [] lx = "exp"  -> IF IsDigit(c) THEN "exp" ELSE ""

LitNext(lx, c) ==
  CASE lx = "t1" -> IF c = "r" THEN "t2" ELSE ""
    [] lx = "t2" -> IF c = "u" THEN "t3" ELSE ""
    [] lx = "t3" -> IF c = "le" THEN "END" ELSE ""
    [] lx = "f1" -> IF c = "a" THEN "f2" ELSE ""
    [] lx = "f2" -> IF c = "l" THEN "f3" ELSE ""
    [] lx = "f3" -> IF c = "s" THEN "f4" ELSE ""
    [] lx = "f4" -> IF c = "le" THEN "END" ELSE ""
    [] lx = "n1" -> IF c = "u" THEN "n2" ELSE ""
    [] lx = "n2" -> IF c = "l" THEN "n3" ELSE ""
    [] lx = "n3" -> IF c = "l" THEN "END" ELSE ""

Delta(m, c, strict, stream) ==
  IF m.st # "run" THEN m
  ELSE IF m.lx = "" THEN Dispatch(m, c, stream)
  ELSE IF InStr(m.lx) THEN StrStep(m, c, strict)
  ELSE IF InNum(m.lx) THEN
         LET n == NumNext(m.lx, c) IN
         IF n # "" THEN [m EXCEPT !.lx = n]
         ELSE IF NumDone(m.lx) THEN Dispatch(AfterValue(m), c, stream)   \* the number ends before c
         ELSE Err(m)
  ELSE \* literal
         LET n == LitNext(m.lx, c) IN
         IF n = "END" THEN AfterValue(m) ELSE IF n # "" THEN [m EXCEPT !.lx = n] ELSE Err(m)

RECURSIVE RunFrom(_, _, _, _, _)
RunFrom(m, s, i, strict, stream) ==
  IF i > Len(s) THEN m ELSE RunFrom(Delta(m, s[i], strict, stream), s, i + 1, strict, stream)

Run(s, strict) == RunFrom(Start, s, 1, strict, FALSE)

\* verdict at end of input (single document)
AcceptsAtEnd(m) ==
  /\ m.st = "run" /\ m.stk = <<>>
  /\ \/ (m.exp = "done" /\ m.lx = "")
     \/ (NumDone(m.lx) /\ m.nv = 0)
Accepts(s, strict) == AcceptsAtEnd(Run(s, strict))

\* between values: nothing of a value is pending (stream mode)
Idle(m) == m.st = "run" /\ m.stk = <<>> /\ m.lx = "" /\ m.exp \in {"val","done"}
\* a top-level scalar that would be complete if the input ended here (needs a delimiter or EOF)
OpenScalar(m) == m.st = "run" /\ m.stk = <<>> /\ NumDone(m.lx)

\* ---- declarative grammar (recursive descent), for PDA = Grammar ----------
\* Each P*(s, i) returns the set of positions j such that s[i..j-1] is a phrase; strict strings.
SkipWs(s, i) == LET RECURSIVE F(_)
                    F(j) == IF j <= Len(s) /\ IsBlank(s[j]) THEN F(j + 1) ELSE j
                IN F(i)

PStr(s, i) ==   \* position after a string literal starting at i, or 0
  IF i > Len(s) \/ s[i] # "qt" THEN 0 ELSE
  LET RECURSIVE F(_)
      F(j) == IF j > Len(s) THEN 0
              ELSE IF s[j] = "qt" THEN j + 1
              ELSE IF IsCtl(s[j]) THEN 0
              ELSE IF s[j] = "bs" THEN
                     (IF j + 1 > Len(s) THEN 0
                      ELSE IF EscLetter(s[j + 1]) THEN F(j + 2)
                      ELSE IF s[j + 1] = "u" THEN
                             (IF j + 5 <= Len(s) /\ \A k \in (j + 2)..(j + 5) : IsHex(s[k]) THEN F(j + 6) ELSE 0)
                      ELSE 0)
              ELSE F(j + 1)
  IN F(i + 1)

Digits(s, i) == LET RECURSIVE F(_)
                    F(j) == IF j <= Len(s) /\ IsDigit(s[j]) THEN F(j + 1) ELSE j
                IN F(i)

PNum(s, i) ==   \* maximal munch; 0 if no number starts at i
  LET a == IF i <= Len(s) /\ s[i] = "mi" THEN i + 1 ELSE i
      b == IF a <= Len(s) /\ s[a] = "d0" THEN a + 1
           ELSE IF a <= Len(s) /\ s[a] = "d1" THEN Digits(s, a + 1) ELSE 0
  IN IF b = 0 THEN 0 ELSE
     LET c == IF b <= Len(s) /\ s[b] = "dt"
              THEN (IF Digits(s, b + 1) > b + 1 THEN Digits(s, b + 1) ELSE 0) ELSE b
     IN IF c = 0 THEN 0 ELSE
        IF c <= Len(s) /\ s[c] \in {"le","ue"} THEN
          LET d == IF c + 1 <= Len(s) /\ s[c + 1] \in {"pl","mi"} THEN c + 2 ELSE c + 1
          IN IF Digits(s, d) > d THEN Digits(s, d) ELSE 0
        ELSE c

Word(s, i, w) == IF i + Len(w) - 1 <= Len(s) /\ \A k \in 1..Len(w) : s[i + k - 1] = w[k] THEN i + Len(w) ELSE 0

RECURSIVE PVal(_, _, _)
PVal(s, i0, depth) ==      \* position after the value starting at (blank-skipped) i0, or 0; -1 = too deep
  LET i == SkipWs(s, i0) IN
  IF i > Len(s) THEN 0
  ELSE CASE s[i] = "qt" -> PStr(s, i)
         [] s[i] \in {"mi","d0","d1"} ->
              LET j == PNum(s, i) IN
              \* maximal munch must not leave a number continuation that makes the literal malformed
              IF j = 0 THEN 0
              ELSE IF j <= Len(s) /\ (s[j] \in {"d0","d1","dt","le","ue","pl","mi"}) THEN 0 ELSE j
         [] s[i] = "t" -> Word(s, i, <<"t","r","u","le">>)
         [] s[i] = "f" -> Word(s, i, <<"f","a","l","s","le">>)
         [] s[i] = "n" -> Word(s, i, <<"n","u","l","l">>)
         [] s[i] = "ls" ->
              IF depth >= MaxDepth THEN 0 - 1 ELSE
              LET j == SkipWs(s, i + 1) IN
              IF j <= Len(s) /\ s[j] = "rs" THEN j + 1 ELSE
              LET RECURSIVE Elems(_)
                  Elems(p) == LET e == PVal(s, p, depth + 1) IN
                              IF e <= 0 THEN e ELSE
                              LET q == SkipWs(s, e) IN
                              IF q > Len(s) THEN 0
                              ELSE IF s[q] = "rs" THEN q + 1
                              ELSE IF s[q] = "cm" THEN Elems(q + 1)
                              ELSE 0
              IN Elems(i + 1)
         [] s[i] = "lb" ->
              IF depth >= MaxDepth THEN 0 - 1 ELSE
              LET j == SkipWs(s, i + 1) IN
              IF j <= Len(s) /\ s[j] = "rb" THEN j + 1 ELSE
              LET RECURSIVE Pairs(_)
                  Pairs(p) == LET k == PStr(s, SkipWs(s, p)) IN
                              IF k = 0 THEN 0 ELSE
                              LET c == SkipWs(s, k) IN
                              IF c > Len(s) \/ s[c] # "cl" THEN 0 ELSE
                              LET e == PVal(s, c + 1, depth + 1) IN
                              IF e <= 0 THEN e ELSE
                              LET q == SkipWs(s, e) IN
                              IF q > Len(s) THEN 0
                              ELSE IF s[q] = "rb" THEN q + 1
                              ELSE IF s[q] = "cm" THEN Pairs(q + 1)
                              ELSE 0
              IN Pairs(i + 1)
         [] OTHER -> 0

\* "valid" | "invalid" | "deep"
Grammar(s) == LET e == PVal(s, 1, 0) IN
              IF e < 0 THEN "deep" ELSE IF e = 0 THEN "invalid"
              ELSE IF SkipWs(s, e) > Len(s) THEN "valid" ELSE "invalid"

PdaVerdict(s) == LET m == Run(s, TRUE) IN
                 IF m.st = "deep" THEN "deep" ELSE IF AcceptsAtEnd(m) THEN "valid" ELSE "invalid"
=============================================================================
