------------------------------- MODULE Limits -------------------------------
(***************************************************************************)
(* Resource limits (property C07): every recursive traversal is a scanner   *)
(* with a bounded stack - pushing beyond the bound is an error transition,  *)
(* never an overflow - and every step consumes input, so it terminates.     *)
(* The machine is checked by TLC for small bounds; the generator uses its   *)
(* verdict function with the real bounds (symbolically: only comparisons).  *)
(***************************************************************************)
EXTENDS Naturals, Sequences

\* state of a scanner: nesting depth, and whether it is running, has failed or has finished
Start == [d |-> 0, s |-> "run"]
Step(st, tok, bound) ==
  IF st.s # "run" THEN st
  ELSE CASE tok = "open" -> IF st.d = bound THEN [st EXCEPT !.s = "err"] ELSE [st EXCEPT !.d = st.d + 1]
         [] tok = "close" -> IF st.d = 0 THEN [st EXCEPT !.s = "err"] ELSE [st EXCEPT !.d = st.d - 1]
         [] tok = "atom" -> st
         [] OTHER -> [st EXCEPT !.s = "err"]
RECURSIVE RunFrom(_, _, _, _)
RunFrom(st, in, i, bound) == IF i > Len(in) THEN st ELSE RunFrom(Step(st, in[i], bound), in, i + 1, bound)
Outcome(in, bound) == LET st == RunFrom(Start, in, 1, bound) IN IF st.s = "run" /\ st.d = 0 /\ Len(in) > 0 THEN "value" ELSE "error"

\* the nesting inputs of the generator: depth opens, one atom, and (when closed) depth closes
Nest(depth, closed) == [i \in 1..depth |-> "open"] \o <<"atom">> \o (IF closed THEN [i \in 1..depth |-> "close"] ELSE <<>>)

\* closed form of Outcome(Nest(depth, closed), bound), used with the real bounds (4096 levels are not unrolled)
Verdict(depth, closed, bound) == IF (closed \/ depth = 0) /\ depth <= bound THEN "value" ELSE "error"
=============================================================================
