--------------------------------- MODULE Num ---------------------------------
(***************************************************************************)
(* Numbers (property C19): the *case structure* of number conversion.      *)
(*                                                                         *)
(* What TLA+ decides here: which byte strings are number literals (the     *)
(* grammar of JsonLex), what kind of literal they are, what each           *)
(* destination kind does with each kind of literal (value / error /        *)
(* depends on the magnitude), for which (magnitude, width) pairs an        *)
(* integer is in range - symbolically, as  sign * (2^k + delta) - and      *)
(* which notation a printed float uses.  What it does not decide: the      *)
(* digits.  Correct rounding of 2^64 doubles is arithmetic, delegated to   *)
(* strconv / math/big in the harness (stated limit, DESIGN.md section 5).  *)
(***************************************************************************)
EXTENDS JsonLex, Integers

\* ---- literal shapes ----
NumAlphabet == {"mi", "d0", "d1", "dt", "le", "ue", "pl"}
IsLiteral(s) == s # <<>> /\ PNum(s, 1) = Len(s) + 1
Negative(s) == s # <<>> /\ s[1] = "mi"
\* an integer literal has neither fraction nor exponent
IsIntLit(s) == IsLiteral(s) /\ \A i \in 1..Len(s) : s[i] \notin {"dt", "le", "ue"}
\* all digits zero: the value is zero whatever the exponent
IsZeroLit(s) == IsLiteral(s) /\ \A i \in 1..Len(s) : (s[i] = "d1" => \E j \in 1..(i - 1) : s[j] \in {"le", "ue"})

\* ---- destinations ----
IntDests == {"int8", "int16", "int32", "int64", "int"}
UintDests == {"uint8", "uint16", "uint32", "uint64", "uint"}
FloatDests == {"float32", "float64"}
OtherDests == {"Number", "iface", "iface_number", "iface_int64", "string", "bool"}
Dests == IntDests \cup UintDests \cup FloatDests \cup OtherDests

\* what the destination does with a literal of the given shape (encoding/json's rules):
\*   "syntax"  not a number literal: syntax error
\*   "mismatch" type error, never a wrapped or truncated value
\*   "range"   value if the magnitude fits the width, type error otherwise (InRange below)
\*   "round"   the correctly rounded float (overflow to infinity is an error)
\*   "text"    the literal's text, unchanged
Rule(s, d) ==
  IF ~IsLiteral(s) THEN "syntax"
  ELSE CASE d \in IntDests  -> IF IsIntLit(s) THEN "range" ELSE "mismatch"
         [] d \in UintDests -> IF IsIntLit(s) /\ ~Negative(s) THEN "range" ELSE "mismatch"
         [] d \in FloatDests -> "round"
         [] d = "Number" -> "text"
         [] d = "iface" -> "round"                    \* float64
         [] d = "iface_number" -> "text"              \* UseNumber
         [] d = "iface_int64" -> IF IsIntLit(s) THEN "range_else_round" ELSE "round"   \* UseInt64
         [] OTHER -> "mismatch"

\* ---- integer magnitudes, symbolically: v = sign * (2^k + delta), delta in {-1, 0, 1} ----
Bits(d) == CASE d \in {"int8", "uint8"} -> 8 [] d \in {"int16", "uint16"} -> 16 [] d \in {"int32", "uint32"} -> 32
             [] OTHER -> 64
\* 2^k + delta <= 2^m - 1
LeMaxPow(k, delta, m) == k < m \/ (k = m /\ delta = 0 - 1)
\* 2^k + delta <= 2^m
LePow(k, delta, m) == k < m \/ (k = m /\ delta <= 0)
InRange(neg, k, delta, d) ==
  IF d \in UintDests THEN (~neg \/ FALSE) /\ LeMaxPow(k, delta, Bits(d))
  ELSE IF neg THEN LePow(k, delta, Bits(d) - 1)            \* -(2^k + delta) >= -2^(n-1)
  ELSE LeMaxPow(k, delta, Bits(d) - 1)                     \*   2^k + delta  <=  2^(n-1) - 1

Magnitudes == {[neg |-> n, k |-> k, delta |-> dl] : n \in BOOLEAN, k \in {7, 8, 15, 16, 31, 32, 63, 64}, dl \in {0 - 1, 0, 1}}

\* ---- printing ----
\* decimal exponent x of the shortest representation d.ddd * 10^x ; encoding/json switches to the
\* exponent form below 1e-6 and from 1e21 on (float32: same thresholds on the float32 value)
Notation(x) == IF x < 0 - 6 \/ x >= 21 THEN "exp" ELSE "plain"

\* ---- laws checked by TLC ----
\* wider destinations accept more
Monotone == \A m \in Magnitudes :
              /\ (InRange(m.neg, m.k, m.delta, "int8") => InRange(m.neg, m.k, m.delta, "int16"))
              /\ (InRange(m.neg, m.k, m.delta, "int16") => InRange(m.neg, m.k, m.delta, "int32"))
              /\ (InRange(m.neg, m.k, m.delta, "int32") => InRange(m.neg, m.k, m.delta, "int64"))
              /\ (InRange(m.neg, m.k, m.delta, "uint8") => InRange(m.neg, m.k, m.delta, "uint16"))
              /\ (InRange(m.neg, m.k, m.delta, "uint32") => InRange(m.neg, m.k, m.delta, "uint64"))
              /\ (~m.neg /\ InRange(m.neg, m.k, m.delta, "int32") => InRange(m.neg, m.k, m.delta, "uint32"))
\* the extremes of every width are where they should be
Extremes == /\ InRange(FALSE, 7, 0 - 1, "int8") /\ ~InRange(FALSE, 7, 0, "int8") /\ InRange(TRUE, 7, 0, "int8") /\ ~InRange(TRUE, 7, 1, "int8")
            /\ InRange(FALSE, 8, 0 - 1, "uint8") /\ ~InRange(FALSE, 8, 0, "uint8")
            /\ InRange(FALSE, 63, 0 - 1, "int64") /\ ~InRange(FALSE, 63, 0, "int64") /\ InRange(TRUE, 63, 0, "int64") /\ ~InRange(TRUE, 63, 1, "int64")
            /\ InRange(FALSE, 64, 0 - 1, "uint64") /\ ~InRange(FALSE, 64, 0, "uint64") /\ ~InRange(TRUE, 7, 0, "uint8")
=============================================================================
