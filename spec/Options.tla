------------------------------ MODULE Options ------------------------------
(***************************************************************************)
(* Configuration switches (property C18).                                   *)
(*  1. Wiring: Froze maps a Config (a set of switches that are on) to the   *)
(*     encoder and decoder option words; every switch drives exactly its    *)
(*     own flag(s) and no other.  Checked on all 2^16 configurations and    *)
(*     compared with the words the real Froze produces.                     *)
(*  2. Effects: for each switch s, each probe input and a sampled setting   *)
(*     of the other switches, whether turning s on may change the result    *)
(*     (Sensitive, unless another switch masks it) and by which law, or     *)
(*     must change nothing ("and no other").                                *)
(***************************************************************************)
EXTENDS Naturals, FiniteSets, TLC, Randomization

CONSTANTS Fam,      \* "wiring" | "laws"
          NOthers   \* sampled settings of the other switches per (switch, probe)
VARIABLES cfg, s, probe, exp
vars == <<cfg, s, probe, exp>>

Switches == {"EscapeHTML", "SortMapKeys", "CompactMarshaler", "NoQuoteTextMarshaler", "NoNullSliceOrMap", "UseInt64", "UseNumber",
             "UseUnicodeErrors", "DisallowUnknownFields", "CopyString", "ValidateString", "NoValidateJSONMarshaler",
             "NoValidateJSONSkip", "NoEncoderNewline", "EncodeNullForInfOrNan", "CaseSensitive"}

\* names of the encoder / decoder option flags a switch turns on ("" = none on that side)
EncFlag(x) == CASE x \in {"EscapeHTML", "SortMapKeys", "CompactMarshaler", "NoQuoteTextMarshaler", "NoNullSliceOrMap", "ValidateString",
                         "NoValidateJSONMarshaler", "NoEncoderNewline", "EncodeNullForInfOrNan"} -> x
                [] OTHER -> ""
DecFlag(x) == CASE x = "UseInt64" -> "OptionUseInt64" [] x = "UseNumber" -> "OptionUseNumber" [] x = "UseUnicodeErrors" -> "OptionUseUnicodeErrors"
                [] x = "DisallowUnknownFields" -> "OptionDisableUnknown" [] x = "CopyString" -> "OptionCopyString"
                [] x = "ValidateString" -> "OptionValidateString" [] x = "NoValidateJSONSkip" -> "OptionNoValidateJSON"
                [] x = "CaseSensitive" -> "OptionCaseSensitive" [] OTHER -> ""
Froze(c) == [enc |-> {EncFlag(x) : x \in c} \ {""}, dec |-> {DecFlag(x) : x \in c} \ {""}]

\* ---- probes and effects ----
EncProbes == {"plain_struct", "str_html", "map3", "mjws", "mtn", "nil_slice", "nil_map", "nan", "str_badutf8", "mjbad", "stream",
              "stream_indent"}    \* the stream encoder after SetIndent: another code path writes the newline
\* the same encoder probes as the value of a field on the second level of a recursive type, and four structs deep: the option word
\* has to survive the recursive call of a codec program and the calls of nested programs
RecProbes == {"rec:plain_struct", "rec:str_html", "rec:map3", "rec:mjws", "rec:mtn", "rec:nil_slice", "rec:nil_map", "rec:nan", "rec:str_badutf8", "rec:mjbad",
              "deep:nan", "deep:nil_slice", "deep:str_html", "deep:map3"}
Base(p) == CASE p = "rec:plain_struct" -> "plain_struct" [] p \in {"rec:str_html", "deep:str_html"} -> "str_html" [] p \in {"rec:map3", "deep:map3"} -> "map3"
             [] p = "rec:mjws" -> "mjws" [] p = "rec:mtn" -> "mtn" [] p \in {"rec:nil_slice", "deep:nil_slice"} -> "nil_slice" [] p = "rec:nil_map" -> "nil_map"
             [] p \in {"rec:nan", "deep:nan"} -> "nan" [] p = "rec:str_badutf8" -> "str_badutf8" [] p = "rec:mjbad" -> "mjbad" [] OTHER -> p
DecProbes == {"doc_plain", "doc_num_iface", "doc_surrogate", "doc_unknown_field", "doc_case_key", "doc_ctl", "doc_badutf8"}
Probes == EncProbes \cup RecProbes \cup DecProbes

Sensitive(x) == CASE x = "EscapeHTML" -> {"str_html"}
                  [] x = "SortMapKeys" -> {"map3"}
                  [] x = "CompactMarshaler" -> {"mjws", "mjbad"}
                  [] x = "NoQuoteTextMarshaler" -> {"mtn"}
                  [] x = "NoNullSliceOrMap" -> {"nil_slice", "nil_map"}
                  [] x = "EncodeNullForInfOrNan" -> {"nan"}
                  [] x = "ValidateString" -> {"str_badutf8", "doc_ctl", "doc_badutf8"}
                  [] x = "NoValidateJSONMarshaler" -> {"mjbad"}
                  [] x = "NoEncoderNewline" -> {"stream", "stream_indent"}
                  [] x = "UseNumber" -> {"doc_num_iface"}
                  [] x = "UseInt64" -> {"doc_num_iface"}
                  [] x = "UseUnicodeErrors" -> {"doc_surrogate"}
                  [] x = "DisallowUnknownFields" -> {"doc_unknown_field"}
                  [] x = "CaseSensitive" -> {"doc_case_key"}
                  [] OTHER -> {}          \* CopyString, NoValidateJSONSkip: no result changes on valid data

\* another switch that is on makes x unobservable on this probe
Masked(x, others, p0) ==
  LET p == Base(p0) IN
  \/ x = "NoValidateJSONMarshaler" /\ "CompactMarshaler" \in others /\ p = "mjbad"     \* compaction parses the text anyway
  \/ x = "CompactMarshaler" /\ p = "mjbad" /\ "NoValidateJSONMarshaler" \notin others  \* already an error either way

\* the relation between the result without x and the result with x
Law(x, others, p) ==
  IF x = "DisallowUnknownFields" /\ p = "doc_case_key" THEN (IF "CaseSensitive" \in others THEN "DisallowUnknownFields" ELSE "same")   \* unmatched keys are unknown fields
  ELSE IF x = "CaseSensitive" /\ p = "doc_case_key" /\ "DisallowUnknownFields" \in others THEN "DisallowUnknownFields"                \* ... and then an error
  ELSE IF Base(p) \in Sensitive(x) /\ ~Masked(x, others, p) THEN x ELSE "same"

\* UseInt64 and UseNumber together are rejected by the decoder (it panics with a message saying so): not a configuration
ValidCfg(c) == ~({"UseInt64", "UseNumber"} \subseteq c)

Init == IF Fam = "wiring"
        THEN /\ cfg \in SUBSET Switches
             /\ s = "" /\ probe = ""
             /\ exp = Froze(cfg)
        ELSE /\ s \in Switches
             /\ probe \in Probes
             /\ cfg \in {c \in RandomSubset(NOthers, SUBSET (Switches \ {s})) : ValidCfg(c \cup {s})}
             /\ exp = [law |-> Law(s, cfg, probe), enc |-> {}, dec |-> {}]
Next == UNCHANGED vars
Spec == Init /\ [][Next]_vars

\* every switch drives at least one flag and no two switches drive the same flag
ASSUME /\ \A x \in Switches : EncFlag(x) # "" \/ DecFlag(x) # ""
       /\ \A x, y \in Switches : x # y => (EncFlag(x) # EncFlag(y) \/ EncFlag(x) = "") /\ (DecFlag(x) # DecFlag(y) \/ DecFlag(x) = "")
\* a configuration's words are the union of its switches' flags: no switch is lost, none is added
WiringOk == Fam = "wiring" =>
  /\ exp.enc = UNION {Froze({x}).enc : x \in cfg} /\ exp.dec = UNION {Froze({x}).dec : x \in cfg}
  /\ Cardinality(exp.enc) + Cardinality(exp.dec) >= Cardinality(cfg)
=============================================================================
