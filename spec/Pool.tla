-------------------------------- MODULE Pool --------------------------------
(***************************************************************************)
(* Ownership of result buffers (property C06): the encoder works in pooled *)
(* buffers (internal/encoder/vars: bytesPool, bufferPool; ast: bytesPool)  *)
(* and must hand the caller memory that no later call can touch.           *)
(*                                                                         *)
(* A buffer has an identity, a capacity class relative to                  *)
(* option.LimitBufferSize ("S": poolable, "B": too big for the pool) and   *)
(* an owner: "pool", "call" (in use by the running call), "caller"         *)
(* (returned as a result), "dead" (dropped, garbage).                      *)
(* One call = take a buffer, write (growing replaces the array), optional  *)
(* post-processing into a second pooled buffer with a swap (EscapeHTML /   *)
(* ValidateString), then the copy-out rule:                                *)
(*     cap <= Limit : copy the bytes into a fresh array, pool the buffer   *)
(*     cap >  Limit : hand the array itself to the caller, do not pool it  *)
(*                                                                         *)
(* Mut seeds the two ways this goes wrong, for TLC to show what the        *)
(* invariant is for: "NoCopy" (hand out the array *and* pool it),          *)
(* "FreeSwapped" (after the swap, pool the buffer that holds the result).  *)
(***************************************************************************)
EXTENDS Naturals, Sequences, FiniteSets, TLC

CONSTANTS MaxCalls, Mut,
          GenOnly    \* TRUE: enumerate call histories only (one state per history, for behaviour generation)

Apis == {"Marshal", "MarshalIndent", "EncodeInto", "Stream", "NodeMarshalLoaded", "NodeMarshalRaw"}
Calls == [api : Apis, size : {"small", "big"}, post : BOOLEAN]

VARIABLES bufs,      \* sequence of [cap, owner]
          pool,      \* identities of the buffers in the pool
          hist,      \* calls so far
          results    \* identity of the result buffer of each call (0: the caller's own / none)
vars == <<bufs, pool, hist, results>>

Init == bufs = <<>> /\ pool = {} /\ hist = <<>> /\ results = <<>>

\* one call, as a function of the current state and of which pooled buffers sync.Pool happens to return
\* (g1 for the working buffer, g2 for the post-processing buffer; 0 = the pool returns nothing: allocate)
Do(c, g1, g2) ==
  LET n0 == Len(bufs)
      \* working buffer
      fresh1 == g1 = 0
      b1 == IF fresh1 THEN n0 + 1 ELSE g1
      bufsA == IF fresh1 THEN Append(bufs, [cap |-> "S", owner |-> "call"]) ELSE [bufs EXCEPT ![g1].owner = "call"]
      poolA == pool \ {g1}
      \* writing a big value grows the array: the small one is dropped
      grow == c.size = "big" /\ bufsA[b1].cap = "S"
      b2 == IF grow THEN Len(bufsA) + 1 ELSE b1
      bufsB == IF grow THEN Append([bufsA EXCEPT ![b1].owner = "dead"], [cap |-> "B", owner |-> "call"]) ELSE bufsA
      \* post-processing writes into a second buffer and swaps
      fresh2 == g2 = 0 \/ g2 = g1
      d0 == IF ~c.post THEN 0 ELSE IF fresh2 THEN Len(bufsB) + 1 ELSE g2
      bufsC == IF ~c.post THEN bufsB
               ELSE IF fresh2 THEN Append(bufsB, [cap |-> IF c.size = "big" THEN "B" ELSE "S", owner |-> "call"])
               ELSE [bufsB EXCEPT ![g2].owner = "call", ![g2].cap = IF c.size = "big" THEN "B" ELSE @]
      poolC == IF c.post /\ ~fresh2 THEN poolA \ {g2} ELSE poolA
      res == IF c.post THEN d0 ELSE b2              \* buffer holding the result bytes
      old == IF c.post THEN b2 ELSE 0               \* buffer to give back after the swap
      freed == IF "FreeSwapped" \in Mut /\ c.post THEN res ELSE old
      \* give back the swapped-out buffer (only poolable ones are kept)
      bufsD == IF freed = 0 THEN bufsC
               ELSE [bufsC EXCEPT ![freed].owner = IF bufsC[freed].cap = "S" THEN "pool" ELSE "dead"]
      poolD == IF freed # 0 /\ bufsC[freed].cap = "S" THEN poolC \cup {freed} ELSE poolC
      \* copy-out rule
      small == bufsD[res].cap = "S"
      copyout == small /\ ~("NoCopy" \in Mut)
      r == IF copyout THEN Len(bufsD) + 1 ELSE res
      bufsE == IF copyout THEN Append([bufsD EXCEPT ![res].owner = "pool"], [cap |-> "S", owner |-> "caller"])
               ELSE [bufsD EXCEPT ![res].owner = "caller"]
      poolE == IF small THEN poolD \cup {res} ELSE poolD       \* "NoCopy": pooled although handed out
  IN [bufs |-> bufsE, pool |-> poolE, r |-> r]

Next == /\ Len(hist) < MaxCalls
        /\ \E c \in Calls : \E g1 \in (IF GenOnly THEN {} ELSE pool) \cup {0} : \E g2 \in (IF GenOnly THEN {} ELSE pool) \cup {0} :
             LET x == Do(c, g1, g2) IN
             /\ bufs' = x.bufs /\ pool' = x.pool /\ hist' = Append(hist, c) /\ results' = Append(results, x.r)
Spec == Init /\ [][Next]_vars

\* ---- properties ----
\* what the caller holds is not in the pool, and nothing in the pool is in use
Ownership == /\ \A b \in pool : bufs[b].owner = "pool"
             /\ \A i \in 1..Len(results) : bufs[results[i]].owner = "caller" /\ results[i] \notin pool
\* results are pairwise distinct arrays
Distinct == \A i, j \in 1..Len(results) : i # j => results[i] # results[j]
\* only poolable buffers are pooled
PoolSmall == \A b \in pool : bufs[b].cap = "S"
=============================================================================
