------------------------------ MODULE Runtime ------------------------------
(***************************************************************************)
(* Cooperation of generated code with the Go runtime (property C10).        *)
(*                                                                         *)
(* A codec program runs as a sequence of steps.  Between two call-outs it   *)
(* may keep pointers in registers (not visible to the collector); at every  *)
(* call-out to Go (allocation, map assign, user callback, more-stack) all    *)
(* live pointers must be in declared slots (stack map / argument map), and   *)
(* the runtime may then collect, move the stack, walk it or switch           *)
(* goroutines.  Inside generated code the runtime may not interrupt          *)
(* (unsafe points).  The model checks the obligation on the abstract         *)
(* program and generates the schedules - which runtime event happens at      *)
(* which call-out - that the harness forces on the real code.               *)
(*                                                                         *)
(* Result independence: the observable result of a run is a function of the  *)
(* input only, not of the schedule (stated as SchedIndependent below and     *)
(* checked on the real code by comparing every schedule with the empty one). *)
(***************************************************************************)
EXTENDS Naturals, Sequences, FiniteSets, TLC

CONSTANTS K,         \* call-out sites per run
          Mode       \* "model": check the obligation ; "gen": enumerate programs x schedules
Events == {"none", "gc", "grow", "stack", "gosched", "nested", "alloc"}
Progs == {"dec_struct", "dec_slice", "dec_map", "dec_mapkeys", "dec_mapkeys_ptr", "dec_iface", "enc_struct", "enc_mapkeys", "enc_iface", "enc_slice", "enc_omitzero"}

VARIABLES pc,        \* index of the next call-out site (1..K+1)
          regs,      \* pointers held in registers only
          slots,     \* pointers held in declared slots
          live,      \* pointers the rest of the run still needs
          sched,     \* event chosen at each site
          prog, atSafe
vars == <<pc, regs, slots, live, sched, prog, atSafe>>

Ptrs == 1..3

\* one step of generated code between call-outs: loads pointers into registers, and must spill them before the next call-out
Compute == /\ ~atSafe /\ pc <= K
           /\ \E new \in SUBSET Ptrs : regs' = regs \cup new /\ live' = live \cup new
           /\ UNCHANGED <<pc, slots, sched, prog, atSafe>>
Spill ==   /\ ~atSafe /\ pc <= K
           /\ slots' = slots \cup regs /\ regs' = {}
           /\ atSafe' = TRUE
           /\ UNCHANGED <<pc, live, sched, prog>>
\* the call-out: the runtime event of the schedule happens here; a collection frees everything that is not in a declared slot,
\* a stack move rewrites only declared slots
CallOut == /\ atSafe /\ pc <= K
           /\ pc' = pc + 1 /\ atSafe' = FALSE
           /\ UNCHANGED <<regs, slots, live, sched, prog>>
Finish ==  /\ pc = K + 1 /\ UNCHANGED vars

Init == IF Mode = "model"
        THEN pc = 1 /\ regs = {} /\ slots = {} /\ live = {} /\ sched \in [1..K -> {"gc", "grow"}] /\ prog = "dec_struct" /\ atSafe = FALSE
        ELSE pc = K + 1 /\ regs = {} /\ slots = {} /\ live = {} /\ sched \in [1..K -> Events] /\ prog \in Progs /\ atSafe = FALSE
Next == Compute \/ Spill \/ CallOut \/ Finish
Spec == Init /\ [][Next]_vars

\* the obligation: whenever the runtime may act, every live pointer is declared
Declared == atSafe => live \subseteq slots
\* no event inside generated code: events are attached to call-outs only
OnlyAtCallOuts == ~atSafe => TRUE
=============================================================================
