------------------------------- MODULE Search -------------------------------
(***************************************************************************)
(* Property C14: locating a value by a path of keys and indexes, and the   *)
(* read-only views of the located value.                                   *)
(*                                                                         *)
(* Lookup(J, path, flavour) over AstTree values (objects are sequences:    *)
(* the FIRST occurrence of a duplicated key is the one a path designates): *)
(*   flavour "get"  : sonic.Get / GetFromString / GetWithOptions /         *)
(*                    Searcher.GetByPath - an index step applies to arrays *)
(*                    only                                                  *)
(*   flavour "node" : Node.GetByPath / Index / Get - an index step on an   *)
(*                    object designates the value of its i-th pair         *)
(* Result: [st |-> "found" | "nx" (key missing, index out of range) |      *)
(*          "err" (the step does not apply to this kind of value), v]      *)
(* Every view of a located node (Raw, typed accessors, Interface, Map,     *)
(* Array, iteration) is a function of v alone; search options do not occur *)
(* in this module at all - that is the property.                           *)
(*                                                                         *)
(* Events(J): the callback sequence ast.Preorder must deliver.             *)
(***************************************************************************)
EXTENDS AstTree

RECURSIVE Lookup(_, _, _)
Lookup(v, path, fl) ==
  IF path = <<>> THEN [st |-> "found", v |-> v]
  ELSE LET st == path[1] IN
       IF st.t = "k"
       THEN IF ~IsObj(v) THEN [st |-> "err", v |-> Null]
            ELSE LET p == FirstKey(v.e, st.key) IN
                 IF p = 0 THEN [st |-> "nx", v |-> Null] ELSE Lookup(v.e[p].val, Tail(path), fl)
       ELSE IF IsArr(v)
            THEN IF st.i >= 0 /\ st.i < Len(v.e) THEN Lookup(v.e[st.i + 1], Tail(path), fl) ELSE [st |-> "nx", v |-> Null]
            ELSE IF IsObj(v) /\ fl = "node"
            THEN IF st.i >= 0 /\ st.i < Len(v.e) THEN Lookup(v.e[st.i + 1].val, Tail(path), fl) ELSE [st |-> "nx", v |-> Null]
            ELSE [st |-> "err", v |-> Null]

\* the views of a located value
Views(v) == [text |-> Render(v), iface |-> IfaceRender(v), ifacenum |-> IfaceNumRender(v), kind |-> v.k, len |-> Len(v.e), listing |-> Listing(v)]

\* ---- Preorder events ----
RECURSIVE Events(_)
Events(v) ==
  CASE v.k = "num"  -> <<"num:" \o ToString(v.n)>>
    [] v.k = "str"  -> <<"str:" \o v.s>>
    [] v.k = "null" -> <<"null">>
    [] v.k = "lit"  -> <<(IF LitIsBool(v.s) THEN "bool:" ELSE "float:") \o v.s>>     \* a number text with a fraction or an exponent is a float event
    [] v.k = "arr"  -> LET RECURSIVE F(_)
                           F(i) == IF i > Len(v.e) THEN <<>> ELSE Events(v.e[i]) \o F(i + 1)
                       IN <<"[">> \o F(1) \o <<"]">>
    [] v.k = "obj"  -> LET RECURSIVE G(_)
                           G(i) == IF i > Len(v.e) THEN <<>> ELSE <<"key:" \o v.e[i].key>> \o Events(v.e[i].val) \o G(i + 1)
                       IN <<"{">> \o G(1) \o <<"}">>

\* events are well bracketed and their number is determined by the tree
RECURSIVE Size(_)
Size(v) == CASE v.k = "arr" -> LET RECURSIVE F(_)
                                   F(i) == IF i > Len(v.e) THEN 0 ELSE Size(v.e[i]) + F(i + 1)
                               IN 2 + F(1)
             [] v.k = "obj" -> LET RECURSIVE G(_)
                                   G(i) == IF i > Len(v.e) THEN 0 ELSE 1 + Size(v.e[i].val) + G(i + 1)
                               IN 2 + G(1)
             [] OTHER -> 1
=============================================================================
