------------------------------- MODULE Session -------------------------------
(***************************************************************************)
(* Process-level history of codec use (property C09): which types were     *)
(* compiled first, by first use or by Pretouch / PretouchMany, with which  *)
(* compile options - and the requirement that no result depends on it.     *)
(*                                                                         *)
(* A type has an identity and a *printed name*; distinct types may print   *)
(* identically (same-named types of different scopes or packages).  The    *)
(* codec caches map a type identity to the codec compiled for it.          *)
(*                                                                         *)
(* Calls:                                                                  *)
(*   [c |-> "use", t, how]       Marshal of a value ("m"), of a pointer    *)
(*                               ("mp"), Unmarshal ("u"): first use        *)
(*                               compiles the codec of t                   *)
(*   [c |-> "pretouch", s, d]    PretouchMany(s) with recursion depth d:   *)
(*                               the missing codecs of s are compiled      *)
(*                               outside the cache lock, loaded as one     *)
(*                               batch, mapped back to their types and     *)
(*                               stored                                    *)
(*   [c |-> "fill"]              thousands of unrelated types are compiled *)
(*                               (the caches grow and rehash); the codecs  *)
(*                               of the family must be unaffected          *)
(* MapBack = "ByType" is required; "ByName" is the loader as it was before *)
(* the fix: commit (results of a batch mapped back through the function    *)
(* name, which is the printed type name).                                  *)
(***************************************************************************)
EXTENDS Naturals, Sequences, FiniteSets, TLC

CONSTANTS TypeIds,       \* type identities (positive integers)
          Name(_),       \* printed name of a type
          MaxHist,       \* length of the histories
          Batches,       \* the sets of types offered to PretouchMany
          MapBack,       \* "ByType" | "ByName"
          WithFill       \* TRUE: histories may also compile thousands of unrelated types (cache growth / rehash)

VARIABLES dec, enc,      \* decoder / encoder cache: type -> identity of the type whose codec is stored (0: none)
          hist
vars == <<dec, enc, hist>>

Calls == {[c |-> "use", t |-> t, how |-> h, s |-> {}, d |-> 0] : t \in TypeIds, h \in {"m", "mp", "u"}}
    \cup {[c |-> "pretouch", t |-> 0, how |-> "", s |-> b, d |-> d] : b \in Batches, d \in {0, 1}}
    \cup (IF WithFill THEN {[c |-> "fill", t |-> 0, how |-> "", s |-> {}, d |-> 0]} ELSE {})

Init == dec = [t \in TypeIds |-> 0] /\ enc = [t \in TypeIds |-> 0] /\ hist = <<>>

\* the codec a batch load hands back for type t of the batch b
Loaded(b, t) == IF MapBack = "ByType" THEN t
                ELSE CHOOSE u \in b : Name(u) = Name(t) /\ \A w \in b : Name(w) = Name(t) => w <= u   \* last of that name wins

Do(call) ==
  IF call.c = "use"
  THEN IF call.how = "u"
       THEN dec' = [dec EXCEPT ![call.t] = IF @ = 0 THEN call.t ELSE @] /\ UNCHANGED enc
       ELSE enc' = [enc EXCEPT ![call.t] = IF @ = 0 THEN call.t ELSE @] /\ UNCHANGED dec
  ELSE IF call.c = "fill" THEN UNCHANGED <<dec, enc>>
  ELSE LET bd == {t \in call.s : dec[t] = 0}       \* compiled now, as one batch per cache
           be == {t \in call.s : enc[t] = 0}
       IN /\ dec' = [t \in TypeIds |-> IF t \in bd THEN Loaded(bd, t) ELSE dec[t]]
          /\ enc' = [t \in TypeIds |-> IF t \in be THEN Loaded(be, t) ELSE enc[t]]

Next == /\ Len(hist) < MaxHist
        /\ \E call \in Calls : Do(call) /\ hist' = Append(hist, call)
Spec == Init /\ [][Next]_vars

\* every type is served by a codec compiled for exactly that type
OwnCodec == \A t \in TypeIds : dec[t] \in {0, t} /\ enc[t] \in {0, t}
\* hence the result of any later call is the one a fresh process would give
=============================================================================
