--------------------------------- MODULE Str ---------------------------------
(***************************************************************************)
(* String-level routines (property C20): quoting, unquoting, HTML escaping *)
(* and UTF-8 validation / correction, as transducers over byte classes.    *)
(*                                                                         *)
(* A class is the name of a set of concrete byte sequences with the same   *)
(* behaviour; the Go concretiser picks representatives and pads with plain *)
(* ASCII so that every interesting byte visits every residue modulo the    *)
(* 16/32-byte vector width.                                                *)
(*                                                                         *)
(* Content classes (what a Go string may hold):                            *)
(*   "a"    plain ASCII (no escaping needed)                               *)
(*   "qt"   the double quote        "bs"  the backslash                    *)
(*   "nl" "cr" "tab"                short escapes \n \r \t                 *)
(*   "ctl"  other control characters (written \u00XX; \b \f may be spelled *)
(*          either way: the property tolerates the spelling)               *)
(*   "lt" "gt" "amp"                HTML-sensitive ASCII                   *)
(*   "u2"   a valid 2-byte sequence, "u3" 3-byte (not U+2028/9), "u4"      *)
(*   "ls"   U+2028 / U+2029                                                *)
(*   "bad"  a byte that is not part of any well-formed sequence            *)
(***************************************************************************)
EXTENDS Naturals, Sequences, FiniteSets, TLC

Content == {"a", "qt", "bs", "nl", "cr", "tab", "ctl", "lt", "gt", "amp", "u2", "u3", "u4", "ls", "bad"}

\* ---- Quote: content -> literal tokens (without the surrounding quotes) ----
\* literal tokens: a content class copied as is, or an escape token
\*   "e_qt" \"   "e_bs" \\   "e_nl" \n   "e_cr" \r   "e_tab" \t   "e_ctl" \u00XX
QuoteOne(c) == CASE c = "qt" -> "e_qt" [] c = "bs" -> "e_bs" [] c = "nl" -> "e_nl" [] c = "cr" -> "e_cr"
                 [] c = "tab" -> "e_tab" [] c = "ctl" -> "e_ctl" [] OTHER -> c
Quote(s) == [i \in 1..Len(s) |-> QuoteOne(s[i])]
\* ---- Unquote: literal tokens -> content (or error) ----
\* additional input tokens that Quote never produces:
\*   "e_sl" \/   "e_b" \b   "e_f" \f
\*   "u_bmp"  \uXXXX of a BMP scalar that is not a surrogate
\*   "u_hi"   \uD800..\uDBFF      "u_lo"  \uDC00..\uDFFF
\*   "e_bad"  backslash followed by any other byte    "e_trunc"  backslash as the last byte
\*   "u_badhex" \u with a non-hex digit among the four   "u_short" \u with fewer than four bytes left
UnqInput == (Content \ {"qt", "bs"}) \cup {"e_qt", "e_bs", "e_nl", "e_cr", "e_tab", "e_ctl", "e_sl", "e_b", "e_f",
                                         "u_bmp", "u_hi", "u_lo", "e_bad", "e_trunc", "u_badhex", "u_short"}
ErrTokens == {"e_bad", "e_trunc", "u_badhex", "u_short"}

\* output: content classes plus "cp_bmp" (the scalar of u_bmp), "cp_astral" (a combined pair),
\* "fffd" (replacement character), "sl", "bsp", "ff"
UnqOne(tk) == CASE tk = "e_qt" -> "qt" [] tk = "e_bs" -> "bs" [] tk = "e_nl" -> "nl" [] tk = "e_cr" -> "cr"
                [] tk = "e_tab" -> "tab" [] tk = "e_ctl" -> "ctl" [] tk = "e_sl" -> "sl" [] tk = "e_b" -> "bsp"
                [] tk = "e_f" -> "ff" [] tk = "u_bmp" -> "cp_bmp" [] OTHER -> tk

\* replace = TRUE : lone surrogates become U+FFFD (encoding/json, sonic's default)
\* replace = FALSE: lone surrogates are an error (UseUnicodeErrors)
RECURSIVE UnqFrom(_, _, _)
UnqFrom(t, i, replace) ==
  IF i > Len(t) THEN [err |-> FALSE, out |-> <<>>]
  ELSE IF t[i] \in ErrTokens THEN [err |-> TRUE, out |-> <<>>]
  ELSE IF t[i] = "u_hi" /\ i < Len(t) /\ t[i + 1] = "u_lo"
       THEN LET r == UnqFrom(t, i + 2, replace) IN [err |-> r.err, out |-> <<"cp_astral">> \o r.out]
  ELSE IF t[i] \in {"u_hi", "u_lo"}
       THEN IF replace THEN LET r == UnqFrom(t, i + 1, replace) IN [err |-> r.err, out |-> <<"fffd">> \o r.out]
            ELSE [err |-> TRUE, out |-> <<>>]
  ELSE LET r == UnqFrom(t, i + 1, replace) IN [err |-> r.err, out |-> <<UnqOne(t[i])>> \o r.out]
Unquote(t, replace) == LET r == UnqFrom(t, 1, replace) IN IF r.err THEN [err |-> TRUE, out |-> <<>>] ELSE r

\* ---- HTML escaping of a JSON text ----
HtmlOne(c) == CASE c = "lt" -> "h_lt" [] c = "gt" -> "h_gt" [] c = "amp" -> "h_amp" [] c = "ls" -> "h_ls" [] OTHER -> c
HtmlEscape(s) == [i \in 1..Len(s) |-> HtmlOne(s[i])]

\* ---- UTF-8 well-formedness (Unicode table 3-7) over byte classes ----
\*   asc 00..7F | c8 80..8F | c9 90..9F | ca A0..BF | l2 C2..DF | x0 C0,C1 | e0 E0 | l3 E1..EC,EE,EF | ed ED
\*   f0 F0 | l4 F1..F3 | f4 F4 | x4 F5..FF
Bytes == {"asc", "c8", "c9", "ca", "l2", "x0", "e0", "l3", "ed", "f0", "l4", "f4", "x4"}
Cont == {"c8", "c9", "ca"}

\* length of the well-formed sequence starting at i, 0 if none
SeqLen(b, i) ==
  LET n == Len(b)
      C(k) == i + k <= n /\ b[i + k] \in Cont
      x == b[i]
  IN CASE x = "asc" -> 1
       [] x = "l2" -> IF C(1) THEN 2 ELSE 0
       [] x = "e0" -> IF i + 1 <= n /\ b[i + 1] = "ca" /\ C(2) THEN 3 ELSE 0
       [] x = "l3" -> IF C(1) /\ C(2) THEN 3 ELSE 0
       [] x = "ed" -> IF i + 1 <= n /\ b[i + 1] \in {"c8", "c9"} /\ C(2) THEN 3 ELSE 0
       [] x = "f0" -> IF i + 1 <= n /\ b[i + 1] \in {"c9", "ca"} /\ C(2) /\ C(3) THEN 4 ELSE 0
       [] x = "l4" -> IF C(1) /\ C(2) /\ C(3) THEN 4 ELSE 0
       [] x = "f4" -> IF i + 1 <= n /\ b[i + 1] = "c8" /\ C(2) /\ C(3) THEN 4 ELSE 0
       [] OTHER -> 0

RECURSIVE ValidFrom(_, _)
ValidFrom(b, i) == IF i > Len(b) THEN TRUE ELSE LET k == SeqLen(b, i) IN k > 0 /\ ValidFrom(b, i + k)
ValidUtf8(b) == ValidFrom(b, 1)

\* byte-wise correction: a byte that does not start a well-formed sequence becomes U+FFFD
RECURSIVE CorrectFrom(_, _)
CorrectFrom(b, i) == IF i > Len(b) THEN <<>>
                     ELSE LET k == SeqLen(b, i) IN
                          IF k > 0 THEN SubSeq(b, i, i + k - 1) \o CorrectFrom(b, i + k)
                          ELSE <<"FFFD">> \o CorrectFrom(b, i + 1)
Correct(b) == CorrectFrom(b, 1)

\* the same language as a left-to-right DFA (what a scanner implements): state = bytes still owed + constraint
DfaStep(q, x) ==
  CASE q = "s0" -> (CASE x = "asc" -> "s0" [] x = "l2" -> "t1" [] x = "e0" -> "e0" [] x = "l3" -> "t2" [] x = "ed" -> "ed"
                      [] x = "f0" -> "f0" [] x = "l4" -> "t3" [] x = "f4" -> "f4" [] OTHER -> "rej")
    [] q = "t1" -> IF x \in Cont THEN "s0" ELSE "rej"
    [] q = "t2" -> IF x \in Cont THEN "t1" ELSE "rej"
    [] q = "t3" -> IF x \in Cont THEN "t2" ELSE "rej"
    [] q = "e0" -> IF x = "ca" THEN "t1" ELSE "rej"
    [] q = "ed" -> IF x \in {"c8", "c9"} THEN "t1" ELSE "rej"
    [] q = "f0" -> IF x \in {"c9", "ca"} THEN "t2" ELSE "rej"
    [] q = "f4" -> IF x = "c8" THEN "t2" ELSE "rej"
    [] OTHER -> "rej"
RECURSIVE DfaRun(_, _, _)
DfaRun(q, b, i) == IF i > Len(b) THEN q ELSE DfaRun(DfaStep(q, b[i]), b, i + 1)
DfaValid(b) == DfaRun("s0", b, 1) = "s0"
=============================================================================
