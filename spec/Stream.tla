------------------------------- MODULE Stream -------------------------------
(***************************************************************************)
(* Required behaviour of a stream decoder (property C17), as a function of *)
(* the bytes the Reader delivers and of how the Reader ends.               *)
(*                                                                         *)
(* D    : the delivered bytes (byte classes of JsonLex)                    *)
(* endk : "EOF"   - after D the Reader reports io.EOF (with the last data  *)
(*                  or separately), for ever;                              *)
(*        "FAULT" - after D the Reader reports some other error, for ever. *)
(*                                                                         *)
(* Ref(D, endk) is what repeated Decode calls must return: the values of   *)
(* D in order (maximal munch, concatenated values need no separator,       *)
(* exactly encoding/json.Decoder), then a terminal condition that is       *)
(* returned by every further call:                                         *)
(*    "EOF"   clean end of stream - only when nothing but blanks is left;  *)
(*    "ERR"   syntax error - malformed data, or truncated data at EOF;     *)
(*    "FAULT" the Reader's error, unchanged.                               *)
(* The result does not mention how D was cut into Read results: that *is*  *)
(* the property.  The chunking only appears in the implementation-shaped   *)
(* module StreamImpl and in the trace specification.                       *)
(***************************************************************************)
EXTENDS JsonLex

\* ---- running the validator over a stream, remembering value boundaries ----
\* r.m    machine (strict strings, stream mode)
\* r.vs   index of the first byte of the value being scanned, 0 if none
\* r.vals sequence of <<first, last>> index pairs of the complete values
\* r.lk   kind of the last complete value: "none" | "number" | "scalar" (string, literal) | "container"
RStart == [m |-> Start, vs |-> 0, vals |-> <<>>, lk |-> "none"]

RStep(r, c, i) ==
  IF r.m.st # "run" THEN r ELSE
  LET m2  == Delta(r.m, c, TRUE, TRUE)
      vs1 == IF Idle(r.m) /\ ~IsBlank(c) THEN i ELSE r.vs
  IN IF m2.nv > r.m.nv
     THEN IF NumDone(r.m.lx) /\ r.m.stk = <<>>
          THEN \* a top-level number ended *before* c; c may itself begin the next value
               [m |-> m2, vs |-> IF Idle(m2) THEN 0 ELSE i, vals |-> Append(r.vals, <<r.vs, i - 1>>), lk |-> "number"]
          ELSE [m |-> m2, vs |-> 0, vals |-> Append(r.vals, <<vs1, i>>),
                lk |-> IF c \in {"rs", "rb"} THEN "container" ELSE "scalar"]
     ELSE [m |-> m2, vs |-> vs1, vals |-> r.vals, lk |-> r.lk]

RECURSIVE RRunFrom(_, _, _)
RRunFrom(r, s, i) == IF i > Len(s) THEN r ELSE RRunFrom(RStep(r, s[i], i), s, i + 1)
RRun(s) == RRunFrom(RStart, s, 1)

\* ---- the required result ----
\* vals : the values every conforming decoder returns, in order
\* opt  : a further value that may (but need not) be returned before the terminal condition:
\*        a complete-looking top-level number cut off by a Reader fault
\* term : the set of admissible terminal conditions
RefOf(r, n, endk) ==
  IF r.m.st = "err"
    THEN [vals |-> r.vals, opt |-> <<>>, term |-> IF endk = "EOF" THEN {"ERR"} ELSE {"ERR", "FAULT"}]
  ELSE IF Idle(r.m)
    THEN IF /\ endk = "FAULT" /\ r.vals # <<>> /\ r.vals[Len(r.vals)][2] = n /\ r.m.exp = "done"
            /\ r.lk = "scalar"
         THEN \* a string or literal that ends exactly where the Reader fails: encoding/json needs one
              \* byte of lookahead (or EOF) to finish a top-level scalar and returns the fault instead
              [vals |-> SubSeq(r.vals, 1, Len(r.vals) - 1), opt |-> r.vals[Len(r.vals)], term |-> {"FAULT"}]
         ELSE [vals |-> r.vals, opt |-> <<>>, term |-> {endk}]
  ELSE IF OpenScalar(r.m)
    THEN IF endk = "EOF" THEN [vals |-> Append(r.vals, <<r.vs, n>>), opt |-> <<>>, term |-> {"EOF"}]
                         ELSE [vals |-> r.vals, opt |-> <<r.vs, n>>, term |-> {"FAULT"}]
  ELSE \* a value is pending and cannot be complete: truncated
       [vals |-> r.vals, opt |-> <<>>, term |-> IF endk = "EOF" THEN {"ERR"} ELSE {"FAULT"}]

Ref(D, endk) == RefOf(RRun(D), Len(D), endk)

\* text of a value (for comparing with what an implementation model returns)
Slice(D, p) == SubSeq(D, p[1], p[2])
NoBlank(s) == SelectSeq(s, LAMBDA c : ~IsBlank(c))
\* ---- value-by-value decoding of the whole input held as a string (decoder.Decoder, module DecObj) ----
RestBlank(D, q) == \A i \in (q + 1)..Len(D) : IsBlank(D[i])

\* closed form: positions after each successful Decode, CheckTrailings verdict after k values (k = 0: before any)
StepsOf(D, e) ==
  [n   |-> Len(e.vals),
   pos |-> [k \in 1..Len(e.vals) |-> e.vals[k][2]],
   ct  |-> [k \in 1..(Len(e.vals) + 1) |-> RestBlank(D, IF k = 1 THEN 0 ELSE e.vals[k - 1][2])]]
Steps(D) == StepsOf(D, Ref(D, "EOF"))
=============================================================================
