------------------------------ MODULE StreamEnc ------------------------------
(***************************************************************************)
(* Stream encoder half of property C17: Encode(v) hands exactly Marshal's  *)
(* bytes, plus a newline unless disabled, to the Writer, and returns the   *)
(* Writer's error if any write - including that of the newline - fails.    *)
(*                                                                         *)
(* The payload is abstracted to L segments (the harness maps a concrete    *)
(* output of any size onto them).  The Writer accepts F segments in total  *)
(* and fails the call that would exceed that (F = L + 2: never fails);     *)
(* the newline counts as one more segment.                                 *)
(*                                                                         *)
(* Implementation-shaped actions mirror internal/encoder/stream.go: the    *)
(* plain path is a write loop followed by a separate one-byte write of the *)
(* newline, the indent path copies one buffer that already contains it.    *)
(* AsBuilt = {"NewlineErrIgnored"} is the code before the fix: commit that *)
(* dropped the result of the newline write.                                *)
(***************************************************************************)
EXTENDS Naturals, Sequences, TLC

CONSTANTS MaxL, AsBuilt

VARIABLES L, nl, F, mode,     \* the case (chosen initially)
          acc,                \* segments accepted by the Writer so far
          pend,               \* segments of the current buffer still to write
          pc,                 \* "start" | "payload" | "newline" | "done"
          ret,                \* "none" | "ok" | "werr"
          want                \* the required outcome of this case (constant along a behaviour; read by the harness)
vars == <<L, nl, F, mode, acc, pend, pc, ret, want>>

Total == L + (IF nl THEN 1 ELSE 0)
\* required outcome
WantDelivered == IF F < Total THEN F ELSE Total
WantRet == IF F < Total THEN "werr" ELSE "ok"

Init == /\ L \in 1..MaxL /\ nl \in BOOLEAN /\ F \in 0..(MaxL + 2) /\ mode \in {"plain", "indent"}
        /\ acc = 0 /\ pend = 0 /\ pc = "start" /\ ret = "none"
        /\ want = [delivered |-> WantDelivered, ret |-> WantRet]

Start == /\ pc = "start"
         /\ pend' = IF mode = "indent" THEN Total ELSE L     \* indent: newline already in the buffer
         /\ pc' = "payload" /\ UNCHANGED <<L, nl, F, mode, acc, ret, want>>

\* one Write call of the loop: the Writer takes what it can, errs if that is less than offered
WritePayload ==
  /\ pc = "payload" /\ pend > 0
  /\ LET room == IF F > acc THEN F - acc ELSE 0
         n == IF pend <= room THEN pend ELSE room
     IN /\ acc' = acc + n /\ pend' = pend - n
        /\ IF n < pend THEN pc' = "done" /\ ret' = "werr"
           ELSE IF mode = "plain" /\ nl THEN pc' = "newline" /\ UNCHANGED ret
           ELSE pc' = "done" /\ ret' = "ok"
  /\ UNCHANGED <<L, nl, F, mode, want>>

WriteNewline ==
  /\ pc = "newline"
  /\ IF F > acc THEN acc' = acc + 1 /\ ret' = "ok"
     ELSE /\ UNCHANGED acc
          /\ ret' = IF "NewlineErrIgnored" \in AsBuilt THEN "ok" ELSE "werr"
  /\ pc' = "done" /\ UNCHANGED <<L, nl, F, mode, pend, want>>

Next == Start \/ WritePayload \/ WriteNewline
Spec == Init /\ [][Next]_vars

Conform == pc = "done" => (acc = WantDelivered /\ ret = WantRet)
Prefix  == acc <= Total /\ acc <= F
=============================================================================
