----------------------------- MODULE StreamImpl -----------------------------
(***************************************************************************)
(* Implementation-shaped model of internal/decoder/api/stream.go           *)
(* (StreamDecoder.Decode, peek/refill, readMore, the non-validating fast   *)
(* skipper used for framing, the validating decoder run on the frame), one *)
(* action per loop step, against an adversarial Reader that chooses how    *)
(* many bytes each Read returns (0 included), whether the end condition    *)
(* comes with the last data or separately, and whether it is EOF or a      *)
(* fault.  TLC checks that for every stream and every such schedule the    *)
(* sequence of results is the one Stream!Ref requires (refinement).        *)
(*                                                                         *)
(* AsBuilt names the deviations of the decoder as it was before the fix:   *)
(* commits in /repo (see known_findings.json "fixed"); with a deviation    *)
(* enabled TLC produces the counterexample that the replay harness then    *)
(* confirmed on the real code:                                             *)
(*   "MoreGuard"   Decode guarded by More(): ']' or '}' => nil, no progress*)
(*   "FrameEnd"    scanp advanced to the end of the fast-skip frame        *)
(*   "NoOpen"      a scalar touching the end of the buffer is decoded      *)
(*   "EofSticky"   readMore records io.EOF as the decoder's error          *)
(***************************************************************************)
EXTENDS Stream

CONSTANTS Alphabet, MaxLen, MaxEmpty, AsBuilt

VARIABLES D, endk,        \* the stream and how the Reader ends (chosen initially)
          rd,             \* number of bytes delivered so far
          empties,        \* (0, nil) reads so far
          buf,            \* bytes read and not yet consumed
          rerr,           \* remembered Reader error: "none" | "EOF" | "FAULT"
          err,            \* sticky decoder error: "none" | "EOF" | "ERR" | "FAULT"
          pc,             \* "idle" | "peek" | "skip"
          out,            \* results so far: <<"V", text>> or <<"T", terminal>> or <<"NOOP">>
          calls
vars == <<D, endk, rd, empties, buf, rerr, err, pc, out, calls>>

Has(d) == d \in AsBuilt

\* ---- the Reader (adversary) ----
\* One Read call: delivers n bytes and possibly the end condition.
\* Returns a set of [n, e] with e \in {"none","EOF","FAULT"}.
Reads ==
  LET left == Len(D) - rd IN
  IF left = 0 THEN {[n |-> 0, e |-> endk]}
  ELSE {[n |-> k, e |-> "none"] : k \in 1..left}
       \cup {[n |-> left, e |-> endk]}                       \* end condition together with the last data
       \cup (IF empties < MaxEmpty THEN {[n |-> 0, e |-> "none"]} ELSE {})

Deliver(x) == /\ rd' = rd + x.n
              /\ empties' = IF x.n = 0 /\ x.e = "none" THEN empties + 1 ELSE empties
              /\ buf' = buf \o SubSeq(D, rd + 1, rd + x.n)

\* ---- the fast (non-validating) skipper: native skip_one_fast ----
\* Returns the set of possible frame ends for the value starting at b[1] (b[1] is not blank):
\* a number, 0 for "needs more data" (ERR_EOF) and -1 for ERR_INVAL.
StrEnd(b, i) ==  \* index of the closing quote of the string whose opening quote is at i, or 0
  LET RECURSIVE F(_)
      F(j) == IF j > Len(b) THEN 0
              ELSE IF b[j] = "qt" THEN j
              ELSE IF b[j] = "bs" THEN F(j + 2)
              ELSE F(j + 1)
  IN F(i + 1)

ContainerEnd(b, lc, rc) ==   \* bracket counting outside strings, only the own kind of bracket
  LET RECURSIVE F(_, _)
      F(j, depth) ==
        IF j > Len(b) THEN 0
        ELSE IF b[j] = "qt" THEN (LET e == StrEnd(b, j) IN IF e = 0 THEN 0 ELSE F(e + 1, depth))
        ELSE IF b[j] = lc THEN F(j + 1, depth + 1)
        ELSE IF b[j] = rc THEN (IF depth = 1 THEN j ELSE F(j + 1, depth - 1))
        ELSE F(j + 1, depth)
  IN F(2, 1)

NumberEnds(b) ==   \* the vector path stops at } ] , only, the scalar tail also at blanks
  LET hard == {j \in 2..Len(b) : b[j] \in {"rb", "rs", "cm"}}
      soft == {j \in 2..Len(b) : b[j] \in {"rb", "rs", "cm"} \/ IsBlank(b[j])}
      h == IF hard = {} THEN Len(b) + 1 ELSE CHOOSE j \in hard : \A k \in hard : j <= k
      s == IF soft = {} THEN Len(b) + 1 ELSE CHOOSE j \in soft : \A k \in soft : j <= k
  IN { j - 1 : j \in {s, h} }

SkipFast(b) ==
  LET c == b[1] IN
  CASE c = "ls" -> {ContainerEnd(b, "ls", "rs")}
    [] c = "lb" -> {ContainerEnd(b, "lb", "rb")}
    [] c = "qt" -> {StrEnd(b, 1)}
    [] c \in {"mi", "d0", "d1"} -> NumberEnds(b)
    [] c \in {"t", "n"} -> {IF Len(b) >= 4 THEN 4 ELSE 0}
    [] c = "f" -> {IF Len(b) >= 5 THEN 5 ELSE 0}
    [] OTHER -> {0 - 1}

\* ---- the validating decoder on a frame: first value of the frame ----
\* [ok, n]: n = bytes consumed (Decoder.Pos)
DecodeFrame(fr) ==
  LET RECURSIVE F(_, _, _)
      F(m, prev, i) ==
        IF m.nv >= 1
        THEN \* a number is ended by the byte after it, which the decoder does not consume
             [ok |-> TRUE, n |-> IF NumDone(prev.lx) /\ prev.stk = <<>> THEN i - 2 ELSE i - 1]
        ELSE IF m.st # "run" THEN [ok |-> FALSE, n |-> 0]
        ELSE IF i > Len(fr) THEN (IF OpenScalar(m) THEN [ok |-> TRUE, n |-> Len(fr)] ELSE [ok |-> FALSE, n |-> 0])
        ELSE F(Delta(m, fr[i], TRUE, TRUE), m, i + 1)
  IN F(Start, Start, 1)

DropBlanks(b) == LET RECURSIVE F(_)
                     F(i) == IF i <= Len(b) /\ IsBlank(b[i]) THEN F(i + 1) ELSE i
                 IN SubSeq(b, F(1), Len(b))

Emit(x) == out' = Append(out, x)
SetErr(e) == err' = e /\ buf' = <<>>

\* ---- actions ----
Init == /\ D \in UNION {[1..n -> Alphabet] : n \in 0..MaxLen}
        /\ endk \in {"EOF", "FAULT"}
        /\ rd = 0 /\ empties = 0 /\ buf = <<>> /\ rerr = "none" /\ err = "none" /\ pc = "idle" /\ out = <<>> /\ calls = 0

CallDecode ==
  /\ pc = "idle" /\ calls < MaxLen + 3
  /\ calls' = calls + 1
  /\ IF err # "none"
     THEN Emit(<<"T", err>>) /\ UNCHANGED <<D, endk, rd, empties, buf, rerr, err, pc>>
     ELSE pc' = "peek" /\ UNCHANGED <<D, endk, rd, empties, buf, rerr, err, out>>

\* peek(): skip blanks; refill when the buffer holds nothing but blanks
Peek ==
  /\ pc = "peek"
  /\ LET b == DropBlanks(buf) IN
     IF b # <<>>
     THEN IF Has("MoreGuard") /\ b[1] \in {"rs", "rb"}
          THEN /\ Emit(<<"NOOP">>) /\ buf' = b /\ pc' = "idle"
               /\ UNCHANGED <<D, endk, rd, empties, rerr, err, calls>>
          ELSE /\ buf' = b /\ pc' = "skip"
               /\ UNCHANGED <<D, endk, rd, empties, rerr, err, out, calls>>
     ELSE IF rerr # "none"
     THEN /\ SetErr(rerr) /\ Emit(<<"T", rerr>>) /\ pc' = "idle"
          /\ UNCHANGED <<D, endk, rd, empties, rerr, calls>>
     ELSE \E x \in Reads :
            /\ rd' = rd + x.n
            /\ empties' = IF x.n = 0 /\ x.e = "none" THEN empties + 1 ELSE empties
            /\ buf' = SubSeq(D, rd + 1, rd + x.n)
            /\ rerr' = x.e
            /\ UNCHANGED <<D, endk, err, pc, out, calls>>

\* try_skip: frame the value, read more when it may be incomplete, decode the frame
Skip ==
  /\ pc = "skip"
  /\ \E x \in SkipFast(buf) :
       LET isopen == x > 0 /\ x = Len(buf) /\ buf[1] \notin {"qt", "ls", "lb"} /\ ~Has("NoOpen") IN
       IF (isopen \/ x = 0) /\ rerr = "none"
       THEN \* readMore(): one more Read
            \E rdx \in Reads :
              /\ Deliver(rdx)
              /\ IF Has("EofSticky") /\ rdx.n = 0 /\ rdx.e # "none"
                 THEN /\ err' = rdx.e /\ Emit(<<"T", rdx.e>>) /\ pc' = "idle" /\ rerr' = rdx.e
                      /\ UNCHANGED <<D, endk, calls>>
                 ELSE /\ rerr' = rdx.e
                      /\ UNCHANGED <<D, endk, err, pc, out, calls>>
       ELSE IF x = 0 /\ rerr = "FAULT"
       THEN /\ SetErr("FAULT") /\ Emit(<<"T", "FAULT">>) /\ pc' = "idle"
            /\ UNCHANGED <<D, endk, rd, empties, rerr, calls>>
       ELSE IF x <= 0
       THEN /\ SetErr("ERR") /\ Emit(<<"T", "ERR">>) /\ pc' = "idle"
            /\ UNCHANGED <<D, endk, rd, empties, rerr, calls>>
       ELSE LET fr == SubSeq(buf, 1, x)
                r  == DecodeFrame(fr)
            IN IF ~r.ok
               THEN /\ LET e == IF isopen /\ rerr = "FAULT" THEN "FAULT" ELSE "ERR" IN SetErr(e) /\ Emit(<<"T", e>>)
                    /\ pc' = "idle" /\ UNCHANGED <<D, endk, rd, empties, rerr, calls>>
               ELSE /\ Emit(<<"V", SubSeq(fr, 1, r.n)>>)
                    /\ buf' = SubSeq(buf, (IF Has("FrameEnd") THEN x ELSE r.n) + 1, Len(buf))
                    /\ pc' = "idle"
                    /\ UNCHANGED <<D, endk, rd, empties, rerr, err, calls>>

Next == CallDecode \/ Peek \/ Skip
Spec == Init /\ [][Next]_vars

\* ---- refinement: the results are those Stream!Ref requires ----
Terminated == out # <<>> /\ out[Len(out)][1] = "T"
ValuesOf(o) == SelectSeq(o, LAMBDA e : e[1] = "V")
FirstT(o) == CHOOSE i \in 1..Len(o) : o[i][1] = "T" /\ \A j \in 1..(i - 1) : o[j][1] # "T"

Conform ==
  LET ref == Ref(D, endk)
      want == [i \in 1..Len(ref.vals) |-> Slice(D, ref.vals[i])]
      got  == [i \in 1..Len(ValuesOf(out)) |-> ValuesOf(out)[i][2]]
  IN /\ \A i \in 1..Len(out) : out[i][1] # "NOOP"                                   \* progress
     /\ Len(got) <= Len(want) + (IF ref.opt = <<>> THEN 0 ELSE 1)                      \* no extra value
     /\ \A i \in 1..Len(got) : i <= Len(want) => got[i] = want[i]                      \* same values, same order
     /\ (Len(got) = Len(want) + 1 => got[Len(got)] = Slice(D, ref.opt))
     /\ Terminated =>
          /\ Len(got) >= Len(want)                                                    \* no value lost
          /\ \A i \in FirstT(out)..Len(out) : out[i][1] = "T" /\ out[i][2] \in ref.term  \* admissible, sticky
TypeOK == /\ rd \in 0..Len(D) /\ pc \in {"idle", "peek", "skip"}
          /\ rerr \in {"none", "EOF", "FAULT"} /\ err \in {"none", "EOF", "ERR", "FAULT"}
\* everything the Reader delivered is either consumed or still buffered (no byte lost or duplicated)
NoLoss == err = "none" => \E k \in 0..rd : buf = SubSeq(D, k + 1, rd)
=============================================================================
