SPECIFICATION Spec
CONSTANTS
  AsBuilt = @ASBUILT@
INVARIANTS StrictRefines ScalarsCast Coherent ZeroIsFalse TextKept
