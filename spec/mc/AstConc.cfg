SPECIFICATION Spec
CONSTANTS
  Procs = @PROCS@
  OpsAllowed = @OPS@
  FastPathLocked = @FPL@
INVARIANTS NoTorn Sequential NoRace MutexOK
PROPERTY Terminates
