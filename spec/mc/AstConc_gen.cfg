SPECIFICATION Spec
CONSTANTS
  Procs = @PROCS@
  OpsAllowed = @OPS@
  FastPathLocked = @FPL@
