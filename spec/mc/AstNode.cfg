SPECIFICATION Spec
CONSTANTS
  Docs <- DocsDef
  MaxOps = @MAXOPS@
  IdxT = 2
  AsBuilt <- AsBuiltDef
INVARIANTS ObsEq AbsIsRepr ReprInv
