SPECIFICATION Spec
CONSTANTS
  Procs = @PROCS@
  Types = @TYPES@
  InitCap = @INITCAP@
  Mut <- MutDef
  Hash <- HashDef
  Want <- WantDef
  KeepSched = FALSE
INVARIANTS ServedOwn OneCompile Monotone TableOK Findable MutexOK
PROPERTIES SnapshotsImmutable Terminates
