SPECIFICATION Spec
CONSTANTS
  Procs = @PROCS@
  Types = @TYPES@
  InitCap = @INITCAP@
  Mut <- MutDef
  Hash <- HashDef
  Want <- WantDef
  KeepSched = TRUE
