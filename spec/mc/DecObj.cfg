SPECIFICATION Spec
CONSTANTS
  MaxDepth = 64
  Alphabet = @ALPHABET@
  MaxLen = @MAXLEN@
  MaxOps = @MAXOPS@
INVARIANTS Agrees CleanEnd
PROPERTIES Progress Consumes
