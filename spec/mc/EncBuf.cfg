SPECIFICATION Spec
CONSTANTS
  MaxCap = @MAXCAP@
  MaxPre = @MAXPRE@
  Mut = @MUT@
INVARIANTS Within Result
