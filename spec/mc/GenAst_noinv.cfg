SPECIFICATION Spec
CONSTANTS
  MaxOps = @MAXOPS@
  PathDepth = @PATHDEPTH@
  DocSet = "@DOCSET@"
  OpSet = "@OPSET@"
