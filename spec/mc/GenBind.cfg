SPECIFICATION Spec
CONSTANTS
  Fam = "@FAM@"
  Part = @PART@
  NParts = @NPARTS@
INVARIANTS ResultOk
