SPECIFICATION Spec
CONSTANTS
  Fam = "@FAM@"
  Part = @PART@
  NParts = @NPARTS@
  NOpts = @NOPTS@
INVARIANTS RoundTrip Unrepresentable
