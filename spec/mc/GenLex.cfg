SPECIFICATION Spec
CONSTANTS
  MaxDepth = @MAXDEPTH@
  Alphabet = @ALPHABET@
  MaxLen = @MAXLEN@
  StrCap = @STRCAP@
  Prefix <- PrefixDef
  Recover = @RECOVER@
INVARIANTS TypeOK PdaIsGrammar StrictWithinStructural DepthIsError PrefixFree InsertedIsInvalid
