SPECIFICATION Spec
CONSTANTS
  MaxDepth = @MAXDEPTH@
  Alphabet = @ALPHABET@
  MaxLen = @MAXLEN@
  StrCap = @STRCAP@
  Prefix <- PrefixDef
INVARIANTS TypeOK PdaIsGrammar StrictWithinStructural DepthIsError PrefixFree
