SPECIFICATION Spec
CONSTANTS
  Mode = "@MODE@"
  Depths = @DEPTHS@
INVARIANTS ClosedForm
