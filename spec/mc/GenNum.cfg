SPECIFICATION Spec
CONSTANTS
  MaxDepth = 3
  MaxLen = @MAXLEN@
  Fam = "@FAM@"
INVARIANTS SameAsValidator Laws RulesTotal
