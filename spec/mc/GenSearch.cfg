SPECIFICATION Spec
CONSTANTS
  MaxPath = @MAXPATH@
  DocSet = "@DOCSET@"
INVARIANTS Agree Consistent Identity EventCount
