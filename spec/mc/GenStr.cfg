SPECIFICATION Spec
CONSTANTS
  Fam = "@FAM@"
  MaxLen = @MAXLEN@
  Alphabet = @ALPHABET@
INVARIANTS RoundTrip HtmlIdem StrictWithin DfaIsDef CorrectOK
