SPECIFICATION Spec
CONSTANTS
  MaxDepth = 64
  Alphabet = @ALPHABET@
  MaxLen = @MAXLEN@
  StrCap = @STRCAP@
INVARIANTS ValsOrdered ValsValid CountOK CleanEOF Terminals
