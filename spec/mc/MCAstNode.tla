------------------------------ MODULE MCAstNode ------------------------------
EXTENDS AstNode
N1 == Num(1)  N2 == Num(2)  N3 == Num(3)
DocsDef == { Arr(<<>>), Arr(<<N1>>), Arr(<<N1, N2>>), Arr(<<N1, N2, N3>>),
             Obj(<<>>), Obj(<<Pair("a", N1)>>), Obj(<<Pair("a", N1), Pair("b", N2)>>), Obj(<<Pair("b", N1), Pair("a", N2), Pair("z", N3)>>),
             Obj(<<Pair("a", N1), Pair("a", N2)>>), Obj(<<Pair("a", N1), Pair("b", N2), Pair("a", N3)>>) }
AsBuiltDef == @ASBUILT@
=============================================================================
