------------------------------- MODULE MCCache -------------------------------
EXTENDS Cache
\* types 1 and 2 collide, 3 collides with them after the first rehash only
HashDef(t) == CASE t = 1 -> 0 [] t = 2 -> 2 [] t = 3 -> 4 [] OTHER -> t
WantDef == @WANT@
MutDef == @MUT@
=============================================================================
