------------------------------- MODULE MCCache -------------------------------
EXTENDS Cache
\* types 1 and 2 collide, 3 collides with them after the first rehash only; type 9 has the very same hash as type 1
HashDef(t) == CASE t = 1 -> 0 [] t = 2 -> 2 [] t = 3 -> 4 [] t = 9 -> 0 [] OTHER -> t
WantDef == @WANT@
MutDef == @MUT@
=============================================================================
