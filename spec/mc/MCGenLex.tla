------------------------------ MODULE MCGenLex ------------------------------
\* Model-checking wrapper: constants that a cfg file cannot express (tuples). @..@ are filled in per tier.
EXTENDS GenLex
PrefixDef == @PREFIX@
=============================================================================
