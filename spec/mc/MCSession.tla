------------------------------ MODULE MCSession ------------------------------
EXTENDS Session
\* types 1 and 2 print the same name; type 5 stands for a class of several hundred unrelated types
\* (the harness scales it: one PretouchMany call with more types than any internal batching bound)
NameDef(t) == IF t \in {1, 2} THEN "T" ELSE ToString(t)
BatchesDef == {{1, 2}, {1, 2, 3}, {3, 4}, {1}, {2, 4}, {5}, {1, 2, 5}}
=============================================================================
