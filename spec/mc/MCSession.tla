------------------------------ MODULE MCSession ------------------------------
EXTENDS Session
\* types 1 and 2 print the same name
NameDef(t) == IF t \in {1, 2} THEN "T" ELSE ToString(t)
BatchesDef == {{1, 2}, {1, 2, 3}, {3, 4}, {1}, {2, 4}}
=============================================================================
