SPECIFICATION Spec
CONSTANTS
  Fam = "@FAM@"
  NOthers = @NOTHERS@
INVARIANTS WiringOk
