SPECIFICATION Spec
CONSTANTS
  MaxCalls = @MAXCALLS@
  Mut <- MutDef
  GenOnly = FALSE
INVARIANTS Ownership Distinct PoolSmall
