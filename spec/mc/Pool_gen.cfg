SPECIFICATION Spec
CONSTANTS
  MaxCalls = @MAXCALLS@
  Mut <- MutDef
  GenOnly = TRUE
