SPECIFICATION Spec
CONSTANTS
  K = @K@
  Mode = "@MODE@"
INVARIANTS Declared
