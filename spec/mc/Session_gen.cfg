SPECIFICATION Spec
CONSTANTS
  TypeIds = {1, 2, 3, 4, 5}
  Name <- NameDef
  Batches <- BatchesDef
  MaxHist = @MAXHIST@
  MapBack = "@MAPBACK@"
  WithFill = @FILL@
