SPECIFICATION Spec
CONSTANTS
  MaxL = @MAXL@
  AsBuilt <- AsBuiltDef
INVARIANTS Conform Prefix
