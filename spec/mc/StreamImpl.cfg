SPECIFICATION Spec
CONSTANTS
  MaxDepth = 64
  Alphabet = @ALPHABET@
  MaxLen = @MAXLEN@
  MaxEmpty = @MAXEMPTY@
  AsBuilt <- AsBuiltDef
INVARIANTS TypeOK Conform NoLoss
