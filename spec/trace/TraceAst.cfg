SPECIFICATION Spec
CONSTANTS
  Allowed <- AllowedDef
INVARIANT Done
POSTCONDITION Consumed
CHECK_DEADLOCK FALSE
