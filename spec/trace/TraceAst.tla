------------------------------ MODULE TraceAst ------------------------------
(***************************************************************************)
(* Trace validation for property C15: operation sequences executed on real *)
(* ast.Node values (documents large enough to cross the 16-slot chunk and  *)
(* the 16-pair index thresholds) are checked step by step against the      *)
(* plain tree AstTree.                                                     *)
(*                                                                         *)
(* trace.ndjson:                                                           *)
(*  {"ev":"begin","id":n,"mode":..,"doc":tree}                             *)
(*  {"ev":"op","path":[steps],"op":{o,i,j,key,v},"obs":string,            *)
(*   "repr":string,"live":n}      repr/live: hook H4 (hidden representation*)
(*                                before the call, children parsed after)  *)
(*  {"ev":"end","text":string}    final MarshalJSON of the root            *)
(*                                                                         *)
(* Monitor style: every line is consumed; a trace whose observations the   *)
(* tree does not allow is put into rej (with the line and the required   *)
(* observation) and skipped to its end.  Named      *)
(* deviations (known findings) are enabled through the constant Allowed;   *)
(* a trace accepted only through one of them is reported in used.          *)
(***************************************************************************)
EXTENDS AstTree, Json, TLC

CONSTANT Allowed      \* set of deviation names read from known_findings.json

Trace == ndJsonDeserialize("trace.ndjson")

VARIABLES l, tid, root, dead, rej, used
vars == <<l, tid, root, dead, rej, used>>

Init == l = 1 /\ tid = 0 /\ root = Null /\ dead = FALSE /\ rej = {} /\ used = {}

Ev == Trace[l]

ObsOK(want, got) == want = got \/ (want = "ANYERR" /\ got \in {"NX", "ERR"})

Begin == /\ Ev.ev = "begin"
         /\ tid' = Ev.id /\ root' = Ev.doc /\ dead' = FALSE /\ UNCHANGED <<rej, used>>

\* Dev_LenCountsParsedOnly: Len on a node that is not fully loaded returns the number of children
\* parsed so far (documented as a WARN on Node.Len; the property lists Len among the observations)
LenDev == /\ "Dev_LenCountsParsedOnly" \in Allowed
          /\ Ev.op.o = "Len" /\ Ev.repr \in {"raw", "lazy"} /\ Ev.obs = ToString(Ev.live)

DoOp ==
  /\ Ev.ev = "op"
  /\ IF dead THEN UNCHANGED <<root, dead, rej, used>>
     ELSE IF ~Resolves(root, Ev.path)
     THEN \* the model has no such node: the implementation must not have found one either
          /\ IF Ev.obs \in {"TARGET-NX", "TARGET-ERR"} THEN UNCHANGED <<dead, rej>> ELSE (dead' = TRUE /\ rej' = rej \cup {<<tid, l, "no such node">>})
          /\ UNCHANGED <<root, used>>
     ELSE LET r == Apply(At(root, Ev.path), Ev.op) IN
          IF ObsOK(r.obs, Ev.obs)
          THEN root' = Put(root, Ev.path, r.t) /\ UNCHANGED <<dead, rej, used>>
          ELSE IF LenDev
          THEN root' = Put(root, Ev.path, r.t) /\ used' = used \cup {<<tid, "Dev_LenCountsParsedOnly">>} /\ UNCHANGED <<dead, rej>>
          ELSE dead' = TRUE /\ rej' = rej \cup {<<tid, l, r.obs>>} /\ UNCHANGED <<root, used>>
  /\ UNCHANGED tid

End == /\ Ev.ev = "end"
       /\ IF dead \/ Ev.text = Render(root) THEN UNCHANGED rej ELSE rej' = rej \cup {<<tid, l, Render(root)>>}
       /\ UNCHANGED <<tid, root, dead, used>>

Next == l <= Len(Trace) /\ l' = l + 1 /\ (Begin \/ DoOp \/ End)
Spec == Init /\ [][Next]_vars

Done == l = Len(Trace) + 1 => PrintT(<<"REJECTED", rej>>) /\ PrintT(<<"DEVIATIONS", used>>)
Consumed == TLCGet("stats").diameter - 1 = Len(Trace)
=============================================================================
