SPECIFICATION Spec
CONSTANTS
  MaxDepth = 64
INVARIANT Done
POSTCONDITION Consumed
CHECK_DEADLOCK FALSE
