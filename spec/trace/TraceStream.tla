----------------------------- MODULE TraceStream -----------------------------
(***************************************************************************)
(* Trace validation for property C17: executions recorded from the real    *)
(* stream decoder (and, for oracle agreement, from encoding/json.Decoder   *)
(* on the same Reader) are checked against Stream!Ref.                     *)
(*                                                                         *)
(* trace.ndjson holds many traces back to back:                            *)
(*   {"ev":"begin","id":n,"who":"sonic|std","s":[byte classes],"endk":..}  *)
(*   {"ev":"read","n":k,"e":"none|EOF|FAULT"}      one Read of the Reader  *)
(*   {"ev":"val","eq":bool,"i":n}  Decode returned its n-th value (eq: equal *)
(*                              to the value the driver built the stream   *)
(*                              from at that place)                        *)
(*   {"ev":"term","t":"EOF|ERR|FAULT"}   Decode returned an error          *)
(*   {"ev":"noop"}              Decode returned nil and stored nothing     *)
(*                                                                         *)
(* The specification is a monitor: every line is consumed; a line that the *)
(* required behaviour does not allow puts the trace id into rej.  What is  *)
(* required of a value: it is the next value of the delivered prefix, and  *)
(* it is complete in the bytes delivered so far (causality) - a decoder    *)
(* that splits a number at a read boundary returns a value the prefix does *)
(* not yet contain.  Reads may happen at any time: the property does not   *)
(* say when the decoder reads, only what it returns.                       *)
(***************************************************************************)
EXTENDS Stream, Json, TLC

Trace == ndJsonDeserialize("trace.ndjson")

VARIABLES l,      \* next line
          tid,    \* id of the current trace
          bl,     \* line of its "begin" event; the stream is Trace[bl].s (kept out of the state)
          endk,
          p,      \* bytes delivered so far
          r,      \* Stream!RRun of the delivered prefix
          ended,  \* end condition the Reader has reported: "none" | "EOF" | "FAULT"
          k,      \* values returned so far
          tstate, \* "run" | terminal returned earlier
          rej     \* ids of rejected traces
vars == <<l, tid, bl, endk, p, r, ended, k, tstate, rej>>
s == Trace[bl].s

Init == /\ l = 1 /\ tid = 0 /\ bl = 1 /\ endk = "EOF" /\ p = 0 /\ r = RStart /\ ended = "none" /\ k = 0
        /\ tstate = "run" /\ rej = {}

Ev == Trace[l]
Reject == rej' = rej \cup {tid}

\* what the delivered prefix entitles the decoder to return
Cur == IF ended = "none" THEN [vals |-> r.vals, opt |-> <<>>, term |-> IF r.m.st = "err" THEN {"ERR"} ELSE {}]
       ELSE RefOf(r, p, ended)

RECURSIVE Feed(_, _, _)
Feed(rr, i, j) == IF i > j THEN rr ELSE Feed(RStep(rr, s[i], i), i + 1, j)

Begin == /\ Ev.ev = "begin"
         /\ tid' = Ev.id /\ bl' = l /\ endk' = Ev.endk /\ p' = 0 /\ r' = RStart /\ ended' = "none" /\ k' = 0
         /\ tstate' = "run" /\ UNCHANGED rej

Read == /\ Ev.ev = "read"
        /\ IF p + Ev.n > Len(s) \/ (Ev.e # "none" /\ (Ev.e # endk \/ p + Ev.n # Len(s)))
           THEN Reject /\ UNCHANGED <<p, r, ended>>           \* the recorded Reader is not the planned one
           ELSE /\ p' = p + Ev.n /\ r' = Feed(r, p + 1, p + Ev.n)
                /\ ended' = IF Ev.e = "none" THEN ended ELSE Ev.e
                /\ UNCHANGED rej
        /\ UNCHANGED <<tid, bl, endk, k, tstate>>

Val == /\ Ev.ev = "val"
       /\ IF /\ tstate = "run" /\ Ev.eq /\ Ev.i = k + 1
             /\ (k + 1 <= Len(Cur.vals) \/ (k + 1 = Len(Cur.vals) + 1 /\ Cur.opt # <<>>))
          THEN UNCHANGED rej ELSE Reject
       /\ k' = k + 1
       /\ UNCHANGED <<tid, bl, endk, p, r, ended, tstate>>

Term == /\ Ev.ev = "term"
        /\ IF /\ Ev.t \in Cur.term
              /\ k >= Len(Cur.vals)                     \* every complete value was returned first
           THEN UNCHANGED rej ELSE Reject
        /\ tstate' = Ev.t
        /\ UNCHANGED <<tid, bl, endk, p, r, ended, k>>

Noop == /\ Ev.ev = "noop" /\ Reject                      \* success without consuming input
        /\ UNCHANGED <<tid, bl, endk, p, r, ended, k, tstate>>

Next == /\ l <= Len(Trace) /\ l' = l + 1
        /\ (Begin \/ Read \/ Val \/ Term \/ Noop)

Spec == Init /\ [][Next]_vars

\* reported once, in the last state
Done == l = Len(Trace) + 1 => PrintT(<<"REJECTED", rej>>)
Consumed == TLCGet("stats").diameter - 1 = Len(Trace)
=============================================================================
